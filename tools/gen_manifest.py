#!/usr/bin/env python3
"""Generates /verif/MANIFEST.json from the table below and validates it against the schema."""
import json
import os
import sys

VERIF = os.path.dirname(os.path.dirname(os.path.abspath(__file__)))

# id -> dict(level, text, note, technique, design_ref, engine)
CLAIMED = {
    "C05": dict(
        level="model_checking",
        text="Explicit-state breadth-first search over the real proxyIDRingBuffer (cloned through its private "
             "fields): every sequence of append (contiguous and gapped ids, two source shards, three task ids), "
             "discard and aggregate-then-discard operations up to the depth bound from initial capacities "
             "-1,0,1,2,3,4, states de-duplicated on the canonical ring content; after every transition the ring read "
             "in order must equal a plain slice model and aggregation at every watermark below, inside and above "
             "the stored range must equal the per-shard maximum over the model. Exhaustive within the bound.",
        note="Trusted: the slice model (30 lines), Go's map/slice semantics. Bound: depth 5 (quick) / 6-7 (thorough); "
             "ids strictly increasing (the documented precondition).",
        technique="explicit-state BFS of operation sequences on the implementation vs. reference model",
        design_ref="5/C05",
        engine="B-seq",
    ),
}

PENDING_REASON = "check not built yet in this revision of /verif (see DESIGN.md section 8 for the build order)"

ALL = ["C%02d" % i for i in range(1, 21)]


def main():
    checks = []
    for pid in ALL:
        if pid not in CLAIMED:
            continue
        c = CLAIMED[pid]
        checks.append({
            "property_id": pid,
            "quick_cmd": "./vcheck run %s --tier quick" % pid,
            "thorough_cmd": "./vcheck run %s --tier thorough" % pid,
            "evidence_file": "/verif/evidence/%s.json" % pid,
            "replay_cmd_template": "./vcheck replay {path}",
            "engine": c["engine"],
            "level_claimed": {"category": c["level"], "text": c["text"], "design_ref": c["design_ref"]},
            "level_note": c["note"],
            "technique": c["technique"],
        })
    na = [{"property_id": pid, "reason": NOT_APPLICABLE.get(pid, PENDING_REASON)} for pid in ALL if pid not in CLAIMED]
    manifest = {
        "version": 1,
        "setup_cmd": "./vcheck setup",
        "hooks": {
            "guard": "verif",
            "enable": "no source hooks are committed to /repo: every check builds /repo's current working tree with "
                      "`go test -overlay <generated> -tags verif`, the overlay adding the harness files "
                      "(/verif/harness/<pkg>/*.go, //go:build verif) as in-package test files, the virtual package "
                      "internal/verifrt (/verif/rt) and, for instrumented checks, AST-rewritten copies of the "
                      "listed source files regenerated from the working tree on every run",
            "baseline_off_cmd": "cd /repo && GOFLAGS=-mod=mod GOPROXY=off go test -json -vet=off -count=1 -timeout 25m ./...",
            "source_commits": [],
            "add_only": True,
        },
        "engines": [
            {"name": "B-seq", "path": "/verif/harness", "serves_properties": ["C05"],
             "kind_free_text": "explicit-state / bounded-exhaustive enumeration driving the real code in-package"},
        ],
        "checks": checks,
        "not_applicable": na,
        "notes": "Fix commits in /repo are listed in /verif/known_findings.json (status fixed). See DESIGN.md.",
    }
    path = os.path.join(VERIF, "MANIFEST.json")
    with open(path, "w") as fh:
        json.dump(manifest, fh, indent=1)
        fh.write("\n")
    try:
        import jsonschema
        jsonschema.validate(manifest, json.load(open("/root/.vp/MANIFEST.schema.json")))
        print("MANIFEST.json valid; claimed:", [c["property_id"] for c in checks])
    except ImportError:
        print("jsonschema not importable here; wrote MANIFEST.json unvalidated")


NOT_APPLICABLE = {}

if __name__ == "__main__":
    sys.exit(main())
