#!/usr/bin/env python3
"""Generates /verif/MANIFEST.json from the table below and validates it against the schema."""
import json
import os
import sys

VERIF = os.path.dirname(os.path.dirname(os.path.abspath(__file__)))

# id -> dict(level, text, note, technique, design_ref, engine)
MICRO_TEXT = (" Micro level: the same handlers under the cooperative scheduler (lock acquisitions, channel operations and goroutine "
              "starts of the rewritten proxy_streams.go / shard_manager.go / admin_stream_transfer.go and every Send on a fake stream are "
              "scheduling points; scenarios incl. a watermark broadcast to two targets whose proxy id counters differ and two proxy "
              "instances joined by an in-memory intra-proxy stream) with a short "
              "environment script as one more thread, so every environment step is taken at every scheduling point; every schedule with at "
              "most 2 (thorough 3) departures from the default schedule is executed (delay bounding), followed by the closing phase.")

ROUTE_NOTE = ("Scenarios include two and three proxy instances (own shard manager and servers each, shared Temporal clusters, ownership "
              "views synchronised by a state exchange and stream reconciliation after every action, intra-proxy streams as in-memory pairs "
              "served by the peer's real handler). Trusted: the fake gRPC stream endpoints (blocking Recv, context cancellation, CloseSend => peer EOF), the transcription of "
              "Temporal's ExecutableTaskTracker (v1.31.2) used as target model, testing/synctest's virtual time. Assumed: cascades triggered by "
              "one environment event are confluent (events are applied one at a time and run to quiescence); hand-off channel / ring capacities "
              "are abstracted to small values in the scenarios that need 'queue full' or 'ring wraps' (rewriter rule caps). Bounds: <=3x2 shards, "
              "<=4 tasks per source, <=1 watermark-only batch and <=1 s of virtual time before the closing phase, <=1 repeated ack per value.")

CLAIMED = {
    "C01": dict(
        level="model_checking",
        text="Explicit-state BFS over all orders of environment events (stream opens incl. late targets, source batches, watermark-only "
             "batches, task completions, target acknowledgements, slow-target accepts, 1 s time steps) for a family of 1x1..3x2 routing "
             "scenarios, each transition executed on the real routing-mode handlers in a synctest bubble (successor = replay of the action "
             "path on a fresh instance + one action), states de-duplicated on the environment model plus the private proxy fields later "
             "steps read. Oracle at every SyncReplicationState sent to a source: every task below the ack that the source returned has been "
             "forwarded on a target stream which has emitted a watermark above its proxy id. From every reached state a fair closing phase "
             "is also run, so the oracle is evaluated on the continuation of every state." + MICRO_TEXT,
        note=ROUTE_NOTE, technique="explicit-state BFS over environment-event orders on the implementation (replay-based successors, virtual time) + delay-bounded DFS over interleavings (controlled scheduler)",
        design_ref="5/C01", engine="A-macro"),
    "C02": dict(
        level="model_checking",
        text="Same exploration as C01 with the delivery oracle: per target stream strictly increasing task ids, exclusive high watermark above "
             "the last id and above every earlier high, Temporal's tracker model never drops a task or panics, each task on the stream of the "
             "shard Temporal's own hash assigns it to (including same workflow id in two namespaces), payload proto.Equal apart from the two "
             "id fields, per (source,target) order preserved, no task twice; at the end of the closing phase of every state every returned "
             "task has been delivered exactly once." + MICRO_TEXT + " Wiring part: routing mode on a real ClusterConnection (loopback TCP) "
             "for shard-count pairs {(4,2),(2,4),(3,3)} (thorough 7 pairs): every shard of both clusters opens its stream, both fake "
             "clusters serve the proxy's pull streams as source shards, every task must arrive exactly once on the stream of the shard "
             "that owns its workflow under the receiving cluster's count, in both replication directions (the routing parameters "
             "NewClusterConnection computes are real here, not transcribed).",
        note=ROUTE_NOTE, technique="explicit-state BFS over environment-event orders on the implementation + closing phase from every state; delay-bounded DFS over interleavings",
        design_ref="5/C02", engine="A-macro"),
    "C03": dict(
        level="model_checking",
        text="Same exploration; safety oracle at every ack (non-decreasing per source stream, never above the largest exclusive high "
             "watermark returned on that stream) and bounded liveness: from EVERY reached state the deterministic fair closing phase (targets "
             "complete and acknowledge everything, sources send their periodic watermark, 1 s passes; at most 6 rounds) must end with every "
             "source having received an ack equal to its final high watermark. Includes a slow target whose hand-off queue (capacity 1) is "
             "full when the watermark is broadcast and a target that never receives a task. The safety half (ack non-decreasing, never above "
             "the largest high watermark returned on that stream) is additionally evaluated over the fault scenarios of C04 (reconnected "
             "source streams start with a lower high watermark than targets may re-acknowledge)." + MICRO_TEXT,
        note=ROUTE_NOTE, technique="explicit-state BFS + bounded fair suffix from every reachable state (virtual time)",
        design_ref="5/C03", engine="A-macro"),
    "C04": dict(
        level="model_checking",
        text="C01's exploration extended with fault actions enabled in every quiescent state: a target stream breaks, the proxy's pull stream "
             "from a source breaks, the stream a source initiated breaks; followed by every order of reconnections, resends from the "
             "acknowledged level and acknowledgements. Oracle across incarnations: a task below an ack must have been confirmed by some target "
             "stream incarnation. One genuine defect is recorded as a known finding (tasks in flight on a target stream that ends are later "
             "acknowledged); any other early ack is a violation. The oracle classifies why a task below an ack is unconfirmed (live target "
             "has not confirmed / forwarded only on ended streams / stranded in the hand-off queue of an ended sender / nowhere) by "
             "looking into the hand-off channels every sender ever registered." + MICRO_TEXT,
        note=ROUTE_NOTE + " Macro level: faults at quiescent states, <=1 per path in quick, <=2 in thorough; micro level: one fault per script.",
        technique="explicit-state BFS over event orders x fault positions + delay-bounded DFS with faults at every scheduling point, on the implementation",
        design_ref="5/C04", engine="A-macro"),
    "C06": dict(
        level="model_checking",
        text="Explicit-state BFS over all interleavings of <=2 (quick) / <=3 (thorough) responses source->initiator and sync-states "
             "initiator->source with, at every position, every ending kind (source EOF / error / response without Messages; initiator EOF / "
             "error / cancelled context / request that is not SyncReplicationState; next Send to either side fails; opening the source stream "
             "fails; a 1 s time step), in default and LCM mode, each transition executed on the real StreamWorkflowReplicationMessages -> "
             "handleStream -> StreamForwarder.Run in a synctest bubble. Oracles: each side received a prefix of what the other emitted, all of "
             "it while nothing has ended; after an ending the handler returns within the 1 s CloseSend guard, the source stream is half-closed "
             "or cancelled and its context cancelled, and no goroutine of the bubble is left blocked (leak detection by the bubble itself). "
             "Fourth family: a sibling stream with the same shard metadata is open next to the stream under test and may end while it keeps "
             "relaying (the global stream tracker's locks are rewritten to parking shims, so a relay blocked on a lock nobody releases is "
             "an observable state). "
             "Micro: StreamForwarder.Run's two pump goroutines and the shutdown cascade under the cooperative scheduler (rewritten "
             "admin_stream_transfer.go: channel operations, goroutine starts, locks are scheduling points) with an environment thread that "
             "emits one response, one sync-state and one ending; all schedules with <=2 (thorough 3) departures from the default schedule, "
             "same oracles.",
        note="Trusted: fake stream endpoints and the well-behaved-peer rule (EOF after CloseSend). At the macro level which ready case a Go "
             "select takes is left to the runtime (both outcomes satisfy the oracle); the micro level enumerates the goroutine interleavings "
             "of one cascade up to its deviation bound.",
        technique="explicit-state BFS over message/ending interleavings on the implementation (virtual time)",
        design_ref="5/C06", engine="A-macro"),
    "C07": dict(
        level="exploration",
        text="Bounded-exhaustive enumeration: handler level - every (local, remote) pair of the square 1..32 (quick) / 1..96 (thorough), both "
             "directions, EVERY LCM shard id through the real StreamWorkflowReplicationMessages -> handleStream -> mapShardIDUnique, plus "
             "all power-of-two pairs up to 16384, mixed composites and coprime pairs at boundary ids and a stride; wiring level - the real "
             "NewClusterConnection on loopback between two generic fake clusters for the square 1..8 (1..12 thorough), DescribeCluster "
             "through both servers and one real gRPC stream per LCM shard id and direction. Oracle: reported count = lcm (independent gcd by "
             "subtraction), serving shard = ((s-1) mod count)+1, initiator shard = s, cluster ids preserved, no panic, exactly one forwarded "
             "stream; hash consistency checked with Temporal's own WorkflowIDToHistoryShard. Streams are opened as a real Temporal "
             "initiator does (client shard = its own shard ((s-1) mod its count)+1, server shard = s); at the wiring level a "
             "failover-version-increment translation is configured on one side, the other or both (by parity of the pair) next to the "
             "shard-count override.",
        note="Trusted: the generic fake backend, loopback TCP. Large pairs are covered at boundary ids and a stride only.",
        technique="bounded-exhaustive enumeration of configurations x shard ids on the implementation (handler and end-to-end wiring)",
        design_ref="5/C07", engine="B-enum"),
    "C12": dict(
        level="exploration",
        text="Bounded-exhaustive enumeration over the protobuf descriptors: for every request and response type of WorkflowService and "
             "AdminService (308 roots) every structural path - through message fields, repeated fields, map values, every oneof arm, "
             "History.events, every history event type, failure cause chains and links up to two occurrences of a type, and the eleven "
             "event-bearing DataBlob fields - to a namespace-name field; per path the minimal message with the mapped name there (with and "
             "without a preceding skippable event), per root the fully populated message, through the public Translator interface and the "
             "unary TranslationInterceptor. Oracle: result equals an independent descriptor-driven reference translation (blobs compared "
             "after decoding) and the changed flag agrees; this also decides 'shortcuts never change the result'.",
        note="Trusted: the reference walker (protoreflect), the definition 'namespace-name field = string field named namespace or *_namespace, "
             "or NamespaceInfo.name', the list of event-bearing blob fields. Recursion bound: each message type at most twice per path.",
        technique="bounded-exhaustive enumeration of descriptor paths against a reference translator",
        design_ref="5/C12", engine="B-enum"),
    "C13": dict(
        level="exploration",
        text="Bounded-exhaustive enumeration. (a) Frame: every namespace path of every root type x value classes {mapped, unmapped, proper "
             "prefix, mapped+suffix, empty, range-only} and the fully populated message per root and class, through the namespace and "
             "search-attribute translators: result equals the reference (only exact matches change) and messages with nothing to map are "
             "byte-identical after deterministic marshalling (blobs not re-encoded). (b) All one-to-one mappings over {a,b,c,d} with <=2 "
             "(thorough 3) pairs incl. identity pairs and chains x request/response roots x names a..e: one translation equals the mapping "
             "applied exactly once; response-after-request restores the message for unambiguous names. (b2) All one-to-one search-attribute "
             "mappings over {a,b,c,d} (swaps, chains, cycles) x every non-colliding key set x {typed container, bare map}: one translation "
             "equals the simultaneous renaming with values following their keys, the inverse restores the original. (c) Direction: every unary method of "
             "both services through both servers of a real ClusterConnection (loopback TCP, generic fake clusters) with fully populated "
             "messages, namespace names and search-attribute keys compared with the reference translation of the right direction. (d) Every "
             "mapping list of length <=2 (thorough 3) over {a,b,c}x{a,b,c}, for namespaces and for search attributes: NewClusterConnection "
             "fails iff two pairs share a name with different partners.",
        note="Trusted: descriptor-driven reference, generic fake backend. Round trip not asserted for names that are only in the range of a "
             "mapping (ambiguous by configuration); exact duplicate pairs not asserted either way.",
        technique="bounded-exhaustive enumeration of descriptor paths, mappings and configurations against a reference; end-to-end on a real ClusterConnection",
        design_ref="5/C13", engine="B-enum"),
    "C14": dict(
        level="exploration",
        text="Bounded-exhaustive enumeration: every structural path from an AdminService request/response/stream message to a search-attribute "
             "container (typed SearchAttributes and bare map<string,Payload>), directly and through the event-bearing blobs, x key sets "
             "{mapped only, unmapped only, mixed 8 keys, empty, absent}: after the real translator the container holds exactly the reference "
             "key set with the identical payloads and its nil-ness preserved. Exclusion: for every WorkflowService message every container "
             "path with keys spelled like mapped keys, through the real TranslationInterceptor, must come out unchanged. Direction: every "
             "unary method through both servers of a real ClusterConnection with a search-attribute mapping.",
        note="Trusted: reference definition of a container; unmapped keys never equal a mapping target (statement's precondition). Go's random "
             "map iteration order inside translateIndexedFields is not enumerated (stated in evidence).",
        technique="bounded-exhaustive enumeration of descriptor paths x key-set classes against a reference; end-to-end direction check",
        design_ref="5/C14", engine="B-enum"),
    "C15": dict(
        level="exploration",
        text="Bounded-exhaustive enumeration on a real ClusterConnection (remote side on TCP, mux-server and mux-client transports over loopback; "
             "for the mux transports the harness owns the peer end of the yamux session) with an ACL policy and a generic fake local cluster that "
             "records every call: allow-list families {empty=unrestricted, full, non-existent names only, singleton and complement-of-singleton "
             "for a fixed selection of admin methods (all 68 in thorough)} x EVERY method of AdminService and WorkflowService from the service "
             "descriptors (the streaming method opened as a stream) x {no header, translation-bypass header, intra-proxy marker headers, both}: "
             "a method outside a non-empty "
             "list is answered PermissionDenied and the local cluster records nothing, a listed method is forwarded exactly once, "
             "Register/DeprecateNamespace are always refused under a policy; every unary admin method through the outbound server is forwarded.",
        note="Quick: the mux transports get the base families and the singleton / complement lists of DescribeCluster and "
             "StreamWorkflowReplicationMessages; thorough: every family on every transport.",
        technique="bounded-exhaustive enumeration of methods x allow-list families on a running proxy",
        design_ref="5/C15", engine="B-enum"),
    "C16": dict(
        level="exploration",
        text="Bounded-exhaustive enumeration. Chain level: every request type of both services x every structural namespace path (incl. "
             "blob-encoded) x {forbidden here only, allowed here + forbidden at the next path, allowed everywhere} x {bypass header, none} "
             "through ACL alone and translation->ACL in the order makeServerOptions installs them, plus remote names mapping to an allowed / "
             "forbidden local name (for paths through history events also with a namespace-free event before / after the event on the path); all other namespace fields hold allowed names so that 'here only' is not vacuous. Wiring level: real "
             "ClusterConnection with namespace allow-list and mapping: every unary method with a namespace path x six name classes x header; "
             "ListNamespaces with every subset of three namespaces returns exactly the allowed ones (translated), order kept.",
        note="Empty namespace fields are not asserted either way (the statement speaks of requests that name a different namespace).",
        technique="bounded-exhaustive enumeration of descriptor paths x name classes through the real interceptor chain and a running proxy",
        design_ref="5/C16", engine="B-enum"),
    "C17": dict(
        level="exploration",
        text="Bounded-exhaustive enumeration against a wire-level reference (descriptor-driven parser/re-encoder, independent of the legacy "
             "structs): for each of the 172 request/response types the proxy can down-convert, the legacy-restricted fully populated "
             "message; its encoding, every truncation, every byte position x {0x00,0x80,0xC0,0xFF,b^1}, every string occurrence x five "
             "invalid sequences x {insert (lengths re-encoded), overwrite}, all failure messages at once, first failure message + each "
             "other string, failure chains of length 1..12, repairable inputs also delivered as several buffers. Oracle: standard codec "
             "accepts => same message; only failure messages invalid within the supported chain length => success and equality with the "
             "standard decode of the sanitised bytes; otherwise an error, never a message. History-blob path: every event-bearing blob "
             "field x every failure path inside a History through the translator: repaired blob decodes and equals the sanitised history; "
             "unfixable blob => error and message unchanged.",
        note="Domain = messages from an older server: equality is taken modulo fields the legacy schema does not know. Byte alphabet of five "
             "values per position; first 1500 bytes of each encoding in quick (20000 in thorough).",
        technique="bounded-exhaustive enumeration of wire mutations against a wire-level reference decoder",
        design_ref="5/C17", engine="B-enum"),
    "C18": dict(
        level="exploration",
        text="Bounded-exhaustive enumeration: for every down-convertible root type every structural path from the descriptors (oneofs, "
             "repeated fields, History events, commands, mutable-state snapshots; each type at most twice) to a field of type Failure that "
             "the legacy schema also knows, x chain depth 1..10 (invalid UTF-8 exactly at that depth: must be repaired, result equals the "
             "sanitised reference, every string valid) and 11 (error or correct repair); the same at depth 1-2 with a failure-free sibling "
             "element before / after the repaired one in every repeated field on the way; plus all failure messages of the fully populated "
             "message at once; the conversion tables must pair every type with the legacy type of the same name. Paths the legacy schema "
             "lacks are counted and listed, not asserted.",
        note="Same reference and domain restriction as C17.",
        technique="bounded-exhaustive enumeration of (type, path, depth) against a wire-level reference",
        design_ref="5/C18", engine="B-enum"),
    "C19": dict(
        level="exploration",
        text="Full cross product on real handshakes (loopback TCP) with the tls.Config objects the proxy builds, certificates minted at run "
             "time (two CAs): server role GetServerTLSConfig x {verification on, skipCAVerification} x client credential {valid chain, "
             "self-signed, other CA, expired, not yet valid, wrong usage, none} x {normal peer, peer that presents its certificate regardless "
             "of the CA hint} x {TLS 1.3, 1.2}; client role GetClientTLSConfig x {verification on, skip} x {own certificate or not} x server "
             "credential {valid, valid chain with wrong name, self-signed, other CA, expired, wrong usage} x TLS version; CA bundle variants "
             "at configuration time; two configurations with different CAs in one process. Success = handshake plus one application byte in "
             "each direction, observed from both ends. Wiring: a real ClusterConnection whose tcpServer.tls and tcpClient.tls blocks differ - "
             "both TCP listeners x peer credentials, and the outgoing client against a TLS fake cluster with valid / foreign certificates; "
             "the mux listener (muxAddressInfo.tls, verification on / skip) x peer credentials judged by a yamux ping over the TLS "
             "connection, and the mux establisher against a TLS listener presenting valid / foreign / self-signed certificates. Client "
             "configuration shapes that leave out the server name or the CA file while verification is not switched off are either "
             "refused or still refuse every server that does not chain to a trusted CA.",
        note="Certificates are minted at run time; handshakes run on loopback TCP.",
        technique="exhaustive cross product of credentials x configurations x roles on real TLS handshakes",
        design_ref="5/C19", engine="B-enum"),
    "C08": dict(
        level="model_checking",
        text="Stateless model checking of the real shardManagerImpl under a cooperative scheduler: shard_manager.go (and proxy_streams.go, "
             "admin_stream_transfer.go) are rewritten at check time so that every lock acquisition, channel operation, select and goroutine "
             "start is a scheduling point; in one synctest bubble per schedule exactly one goroutine runs at a time and the explorer "
             "enumerates depth-first EVERY schedule with at most 2 (thorough 3) preemptions. Scenarios: old sender's exit path (close, "
             "UnregisterShard, RemoveRemoteSendChan) || new sender's entry path || a deliverer; three successive incarnations; old receiver's "
             "cleanup || new receiver's entry (TerminatePreviousLocalReceiver...) || an ack deliverer; a peer's ownership announcement (real "
             "NotifyMsg) || the local re-registration; all streams end. Third part: the REAL routing handlers (streamRouting -> "
             "proxyStreamSender/Receiver.Run) under the scheduler with overlapping incarnations - a target / a source reconnects while its "
             "old stream is alive, a source reconnects and the proxy's stream open fails - and a differential oracle: after the reconnect the "
             "same streams are alive as before it, so every table of the shard manager must hold entries for the same shards; after all "
             "streams ended every table is empty (missing receiver-side entries are attributed to their cause through the recorded registry "
             "operations). Oracle at quiescence: "
             "the newest live incarnation owns the shard and its channels/cancel function/active-receiver entry, every delivery reported true "
             "is in exactly one channel, no panic escapes, no deadlock, and after all streams ended every table is empty. A violating "
             "schedule is re-executed before it is reported. Two genuine defects of the receiver cleanup are recorded as known findings.",
        note="Trusted: the scheduler (goroutine identity by runtime id, baton discipline, synctest.Wait as 'reached next point'), verifrt.Now "
             "(strictly increasing clock readings). Scheduling points only at synchronisation operations: accesses outside locks are not "
             "interleaved (the shard manager has none on the fields checked). Bound: preemptions, not depth.",
        technique="stateless DFS over thread interleavings of the implementation with iterative preemption bounding (controlled scheduler)",
        design_ref="5/C08", engine="A-micro"),
    "C09": dict(
        level="model_checking",
        text="Convergence: explicit-state BFS (from the initial state and from a preset state in which one instance already owns every shard; "
             "state = action path replayed on fresh instances, de-duplicated on a canonical key in which "
             "instants are replaced by their rank) over 2-3 real shardManagerImpl instances driven at the memberlist delegate seam: register / "
             "unregister claims, and every order, delay and single duplication of the resulting announcements (real NotifyMsg), of state "
             "snapshots (real LocalState / MergeRemoteState) and of leave notifications (real NotifyLeave). From EVERY state the system is "
             "quiesced (everything delivered, fresh state exchanged between live pairs) and the oracle evaluated: no shard owned by two live "
             "instances, the newest claim owns, departed instances listed by nobody, remote views equal local tables. Routing: exhaustive "
             "table {local stream present / closed-but-registered / absent} x {remote owner with stream / peer known without a stream for "
             "the pair / owner without peer state / unknown / owner without address} x {message, ack with and without forwarding} through the "
             "real DeliverMessagesToShardOwner / DeliverAckToShardOwner and intraProxyManager with fake intra-proxy streams: true <=> exactly "
             "one copy handed to exactly one recipient (local first), false <=> nothing handed over. Routing histories: every sequence "
             "(depth 4, thorough 5) of {a peer's snapshot claims the shard, no longer claims it, a peer leaves} with a message and an ack "
             "routed after every event. Several whole instances (2-3 proxies joined by in-memory intra-proxy streams, incl. a shard that "
             "moves to another instance while its old stream is alive): the routing checks' delivery / acknowledgement oracles reported "
             "under C09. Conformance: two real instances on a "
             "real hashicorp/memberlist (MockNetwork transport): join merges state, RegisterShard emits exactly one reliable message with the "
             "transcribed payload, a newer claim evicts through memberlist's own receive path, Leave returns and is observed (this run found "
             "the NotifyLeave self-deadlock, fixed in /repo).",
        note="memberlist itself is the environment (reliable send, push/pull, leave detection are assumed as the statement says); the sending "
             "half of an announcement (broadcastShardChange needs a live memberlist) is transcribed in the harness. One clock, atomic claims, "
             "full mutual knowledge before the first claim. Bounds: <=3 instances, <=2 shards, <=3 application actions, <=1-2 snapshots, <=1 leave.",
        technique="explicit-state BFS over message delivery orders on the implementation's handlers + exhaustive routing table",
        design_ref="5/C09", engine="A-macro"),
    "C10": dict(
        level="model_checking",
        text="Macro: explicit-state BFS over fault sequences (depth 5, pool sizes 1-2; thorough depth 7, sizes 1-3; both yamux roles) on the "
             "real muxProvider.Start loop, multiMuxManager and ManagedMuxSession with real yamux sessions over in-memory pipes in a synctest "
             "bubble: connect, dial error, yamux setup error, silent peer (ping write timeout), peer closed before the ping, writes failing "
             "with io.EOF, peer death, local close, lifetime cancellation, time steps. Invariant in every state (registered sessions and open "
             "connections <= pool size); from every state a healing phase (good connections offered: pool must return to full strength, no "
             "permit minted) and a shutdown phase (manager closed, table empty, every yamux session and every connection handed over closed, "
             "no goroutine left). Micro: the provider loop, AddConnection/unregisterMux and session cleanup under the cooperative scheduler "
             "with a peer death / lifetime cancellation taken at every scheduling point of the connect step (all schedules with <=2 "
             "preemptions, sharded over worker processes), followed by the same healing/shutdown contracts. Two provider families at both "
             "levels: NewMuxProvider over a harness connProvider (incl. a failing yamux setup), and the real NewMuxEstablisherProvider / "
             "NewMuxReceiverProvider (their connection providers, backoff.ThrottleRetry, the listener-closing goroutine, their yamux "
             "configuration) over an in-memory network that replaces net.DialTimeout / net.Listen (rewriter rule net), with a scheduling "
             "point between the network handing over a connection and Dial / Accept returning.",
        note="The kernel's TCP stack and TLS wrapping of the mux connections are not exercised here (C19 drives the TLS side on loopback "
             "TCP). yamux internals run free in virtual time; shutdown is given 44 s of virtual time (yamux's keep-alive closes a session "
             "whose peer is silent).",
        technique="explicit-state BFS over fault sequences + stateless DFS over interleavings (preemption-bounded) on the implementation",
        design_ref="5/C10", engine="A-macro"),
    "C11": dict(
        level="model_checking",
        text="Macro: explicit-state BFS over sequences of session additions, local closes, peer deaths and RPCs (depth 5, <=2 sessions; thorough "
             "depth 7, <=3) on the real multiMuxManager whose listener is the real MultiClientConn, with real yamux sessions and a real gRPC "
             "client/server pair in a synctest bubble. After every action: dialable endpoint set == registered sessions, CanMakeCalls iff "
             "non-empty; an RPC succeeds over a live registered session when one exists, fails when none does, and resumes after a new "
             "session appears. Micro: AddConnection || unregisterMux || MultiClientConn.UpdateState under the cooperative scheduler while "
             "the first peer dies (all schedules with <=2 preemptions, sharded): at quiescence the dialable set equals the registered set. "
             "Second macro family: the manager built by the real NewGRPCMuxManager (mux-client definition: real establisher over the "
             "in-memory network, per-session gRPC server, listener wiring of grpc_mux_manager.go). Environment faults (<=2 per path): a "
             "session's health state reads Error while it stays up, its next Open fails once (transient yamux failure), the peer's gRPC "
             "server restarts on the same session (the client redials).",
        note="gRPC and yamux internals run free; an RPC gets 3 tries within 10 s of virtual time before a failure is reported.",
        technique="explicit-state BFS over add/remove/RPC sequences + stateless DFS over lock interleavings on the implementation",
        design_ref="5/C11", engine="A-macro"),
    "C20": dict(
        level="model_checking",
        text="Bounded-exhaustive histories of stream opens on the real StreamWorkflowReplicationMessages handler with the real "
             "ReplicationStreamObserver in default, LCM and routing mode: each metadata key over a boundary alphabet (int32 limits, the "
             "overflow thresholds of the table-size computation, non-numeric, empty, missing), pairs (thorough: triples) over the boundary "
             "subset, streams kept open or closed, then a well-formed open that must be served (one message relayed each way) with its "
             "bookkeeping intact, and nothing counted active after all streams ended; a stream that nobody ended must not return at once "
             "without an error (neither served nor rejected). Micro level: ReportStreamValue of several concurrent streams under the "
             "cooperative scheduler, scheduling points at the grow lock and between taking a counter's address and adding to it (rewriter "
             "rule atomics): the indexes shown active are exactly those of the streams still open. The observer's lock calls are rewritten to parking "
             "shims so 'lock never released' is detected as a state, worker processes run under a 6 GiB address-space limit so a crash or "
             "runaway allocation is attributed to the history that caused it.",
        note="Trusted: lock shim (TryLock + durable park), worker pool attribution. Alphabet is boundary values, not all int32.",
        technique="bounded-exhaustive enumeration of open histories on the implementation with deadlock detection",
        design_ref="5/C20", engine="A-macro"),
    "C05": dict(
        level="model_checking",
        text="Explicit-state breadth-first search over the real proxyIDRingBuffer (cloned through its private "
             "fields): every sequence of append (contiguous and gapped ids, two source shards, three task ids), "
             "discard and aggregate-then-discard operations up to the depth bound from initial capacities "
             "-1,0,1,2,3,4, states de-duplicated on the canonical ring content; after every transition the ring read "
             "in order must equal a plain slice model and aggregation at every watermark below, inside and above "
             "the stored range must equal the per-shard maximum over the model. Exhaustive within the bound; states are kept as operation "
             "paths (rebuilt by replay), levels are expanded in parallel, the visited set holds digests.",
        note="Trusted: the slice model (30 lines), Go's map/slice semantics. Bound: quick depth 5 with id gaps {1,2}; thorough three "
             "completed configurations (depth 6 gaps {1,2}; depth 5 gaps {1,2,3}; depth 8 contiguous ids), state cap 12 million per "
             "configuration; ids strictly increasing (the documented precondition).",
        technique="explicit-state BFS of operation sequences on the implementation vs. reference model",
        design_ref="5/C05",
        engine="B-seq",
    ),
}

# additions of the fourth seeding round (appended to the texts above)
EXTRA = {
    "C01": " Scenarios added later: a target that reports per-lane (high/low priority) watermarks in its acknowledgements, two and three "
           "proxy instances, a source whose watermark advances without tasks.",
    "C02": " Scenarios added later: back-pressure (the only target is slow, its hand-off channel holds one message, the source's receive "
           "loop waits in the hand-off while up to 2 s of virtual time pass) and a late peer (the instance that owns the target shard is "
           "known from the membership state but its intra-proxy stream comes up only on an explicit action, up to 3 s later): nothing "
           "may be reported as handed over that was not.",
    "C03": " At the macro level the locks of proxy_streams.go, shard_manager.go and intra_proxy_router.go park (rewriter rule locks), so a "
           "goroutine waiting for a lock nobody releases is an observable state (the final ack never arrives; the waiting sites are "
           "printed) instead of a hang; executions whose bubble ends with goroutines still blocked after everything was cancelled keep "
           "their verdicts. Scenario added: two source shards hold a pending watermark when the only target registers late and its "
           "hand-off channel holds one message.",
    "C04": " The two known findings are identified by history, not only by symptom: the signature says whether the acknowledgement that "
           "passed the unconfirmed task came from the owner shard's next stream (the recorded defect) or whether the owner has not "
           "acknowledged anything since (never observed on the unchanged tree; any occurrence is a violation).",
    "C06": " Wiring part: the relay through a real ClusterConnection (loopback TCP, both proxy servers): responses and sync-states "
           "arrive unchanged and in order, a batch of 6 MiB (above gRPC's 4 MiB default) passes, and when the proxy shuts down with "
           "a stream open both ends of the relay are ended.",
    "C10": " Third family: the manager built by the public NewGRPCMuxManager from a cluster definition (the pool size is what muxCount "
           "says; per-session gRPC server and yamux observer attached).",
    "C11": " The client connection is built as createClient builds it (name client-conn-<connection name> with digits in the name, "
           "production dial options: round_robin, connect parameters). Fault alphabet extended by stall(id): the peer stops accepting "
           "streams while the session stays up and its transport ends, so gRPC's redial stays pending in Open() until the session ends. "
           "The locks of the session table and of the client connection park (rule locks) and every step runs under a 3-hour "
           "virtual-time watchdog: a session-list update that cannot complete while a dial is pending is reported with the waiting lock "
           "sites.",
    "C12": " History batches are also presented JSON-encoded (Temporal's serializer reads proto3 and JSON alike) and next to a second "
           "batch with nothing to map (before / after, repeated blob fields). Wiring part: every unary method of both services, fully "
           "populated, through both servers of a real ClusterConnection with a namespace mapping (alone and together with a "
           "search-attribute mapping): the backend sees the request and the caller the response that the reference translation produces.",
    "C13": " Frame cases added: a batch with nothing to map before / after the batch that holds the mapped name in a repeated blob field, "
           "and JSON-encoded batches.",
    "C15": " Every allow-list family is also run with an allowedNamespaces list in the policy (requests then name the allowed namespace "
           "wherever they have the field): the second list must not change any method verdict.",
    "C16": " Forbidden names inside serialized history batches are also presented in JSON-encoded batches.",
    "C17": " Blob path: invalid UTF-8 the repair cannot fix (another string field alone, before and after a repairable failure message; "
           "a chain of 40 invalid failure messages) must be reported with the message unchanged.",
    "C18": " At depth 1 additionally with a sibling element of every other kind before the repaired one (every message arm of the "
           "element's oneof: another replication-task type, another event or command type; thorough: also after it, in every list on "
           "the way).",
    "C19": " The host's system trust store is made observable (SSL_CERT_FILE points at a throw-away CA), so any fall-back to it admits a "
           "known peer. Added configuration shapes: a CA bundle that holds only a self-signed non-CA certificate asserting keyCertSign "
           "(must be refused in both roles), and a listener with its own certificate, verification not disabled and no CA path (refused, "
           "or admits nobody).",
}
# additions of the fifth seeding round
EXTRA5 = {
    "C01": " Micro scenario added: a single target that has completed everything acknowledges while the next batch - which gets exactly "
           "the acknowledged proxy id - is being forwarded; settled oracle for a single target (the source is acknowledged at least up "
           "to its last task).",
    "C02": " Micro scenario added: a target shard that holds nothing reconnects at once after its stream broke (the new sender "
           "registers while the old one is still deregistering); tasks sent after the old incarnation has ended must reach the new one. "
           "Macro scenarios added: a target reconnecting in place while its old stream is alive, a late target with a queue of one.",
    "C03": " The bounded-liveness half is also evaluated after stream breaks and reconnections (fault scenarios of C04, plus a break of "
           "the target stream while the source's receive loop waits on its full hand-off queue): the closing phase - which re-opens "
           "every stream that ended - must still end with the final watermark acknowledged.",
    "C05": " Two more parts run the table inside real senders: (micro) a single target acknowledges while the next entry is appended, "
           "every schedule with <=2 deviations, the source must be acknowledged up to its last task; (macro) the routing scenarios with "
           "shared targets, watermark broadcasts and a wrapping ring, with the sender-table oracle: after every action the table of every "
           "live target stream's sender, read through the production debug snapshot, maps each outstanding proxy id to the source shard "
           "and original id of the task seen with that id on the wire, and every other entry to a watermark its source shard really sent.",
    "C06": " Ending kind added: the next Send towards the source blocks until the stream's context ends (flow-control window full, "
           "source silent) - only events that finish a stream or cancel a context may follow, as in gRPC.",
    "C08": " Real-handler scenarios added: a source whose old pull stream does not answer the half-close reconnects (the superseded "
           "incarnation must be ended by its successor within 6 s of virtual time), and two proxy instances with the target reconnecting "
           "while a task for it crosses the intra-proxy stream. The scheduler has a fairness rule (a goroutine released 200 times in a "
           "row while others wait goes to the back of the canonical order), so a retry loop that never blocks is visible: an execution "
           "still taking steps at the horizon is reported as a livelock. Goroutines started by the code under test from goroutines the "
           "scheduler does not manage are managed all the same.",
    "C09": " Membership model extended by rejoin (an instance that left comes back under the same node name as a restarted process) "
           "and by a thread-level part (TestVerifC09Announce: a peer's newer claim handled by the real NotifyMsg concurrently with the "
           "local re-registration, every schedule with <=2 preemptions). Routing table extended by a peer that has streams in both "
           "directions for sibling pairs only (other target shard / other source shard).",
    "C11": " Fault blackhole(i): the connection goes silent (no data, no EOF, no reset) and 7 minutes of virtual time pass - the session "
           "must be gone (health check records the failed pings, the keep-alive gives the connection up). The family over the harness "
           "connProvider uses a 5-minute keep-alive so that the health check's verdict precedes the close.",
    "C12": " Fully populated messages are built with one and with two elements in every repeated message field.",
    "C13": " Fully populated messages with one and with two elements in every repeated message field.",
    "C14": " Paths through a serialized batch also with the batch JSON-encoded.",
    "C15": " Third policy shape: the connection also has a namespace translation configured (the translation step sits in front of the "
           "ACL in the interceptor chain and has a bypass header).",
    "C16": " Every must-refuse case is preceded, on the same long-lived interceptors, by a request of the same type that names no "
           "namespace (the verdict may not depend on earlier traffic); batches from an older server - an event with invalid UTF-8 in its "
           "failure message before the event that names the forbidden namespace - must be refused as well.",
    "C17": " Two more invalid sequences contain correctly encoded U+FFFD characters next to the offending byte (they are valid and stay).",
    "C18": " The element of the outermost repeated field on the path also occurs twice, both copies invalid.",
    "C19": " Wiring part: listeners (TCP, mux) whose TLS block with verification on cannot be built (CA file missing, bundle without a "
           "CA certificate, unloadable key pair) are refused or admit nobody - not a plaintext peer, not one without a certificate; "
           "the intra-proxy client with an unbuildable TLS block yields no client connection on any of three attempts.",
    "C20": " Histories added in routing mode (with and without an intra-proxy manager): an ordinary stream is up and a peer instance "
           "opens a forwarded (intra-proxy) stream for its shard with every kind of id on its side; a stream-open that reuses the ids of "
           "a stream that is still up. The locks of shard_manager.go and proxy_streams.go park as well. Found and repaired: an "
           "intra-proxy stream on an instance without intra-proxy manager crashed the process (7a046f5).",
}
# additions of the sixth seeding round
EXTRA6 = {
    "C03": " Source-initiated streams of the environment acknowledge whatever reaches them, so a watermark or task handed to a "
           "receiver of another cluster pair is seen.",
    "C04": " Fault added: the Send of the intra-proxy hop fails once (two proxy instances).",
    "C05": " Targets may acknowledge eagerly (while the batch is still inside Send) at both routing levels; the sender-table and "
           "single-target oracles are shared with C01 and C04.",
    "C06": " Ending kind added: the half-close towards the source blocks until the stream's context ends. Found and repaired: the "
           "helper goroutine that calls CloseSend leaked when its one-second guard expired (7db87b6).",
    "C07": " DescribeCluster is also asked with a cluster name set.",
    "C08": " Scripts added: watermark broadcast while the target stream shuts down; a late target got the replay and then reconnects.",
    "C09": " Conformance run: a claim whose local listeners are slow while the other instance claims the same shard - the newest claim "
           "must own it after the listeners return. Routing part: forwarded acknowledgements through the real "
           "intraProxyStreamSender.recvAck loop x {local stream present, removed after the first, closed, absent} x {remote owner with "
           "a stream, owner without peer state, unknown}: handed to the local stream, never forwarded again, the stream ends with an "
           "error at the first acknowledgement nobody takes.",
    "C10": " The manager's own Start runs (status ticker goroutine); action minute (a quiet minute of virtual time); capacity probes "
           "before start; the mux-manager and provider locks park at the macro level, a goroutine waiting for a lock nobody releases "
           "is a verdict. Micro level: the scenario real-receiver-lifetime-ends-during-accept is explored bound by bound (one preemption "
           "less than the tier's bound is the declared, completed bound; the tier's bound with the remaining budget).",
    "C11": " The manager's own Start runs (status ticker goroutine); oracle: an RPC issued when no session is left is reported "
           "Unavailable, it does not wait.",
    "C12": " An empty batch in front of the batch on the path.",
    "C13": " An empty batch in front of the batch on the path; stream cases through the real TranslationInterceptor.InterceptStream "
           "(ordinary streams translated both ways, streams forwarded between proxy instances untouched).",
    "C14": " Sibling events whose search-attribute container matches nothing, before and after the event on the path; identity pairs "
           "first in the wiring configuration.",
    "C15": " The debug page is rendered before the calls of every configuration (reading the configuration must not change the policy).",
    "C16": " An empty batch in front of the batch on the path.",
    "C19": " Credentials that expired 30 s ago or become valid in 10 minutes are refused; the CA file removed after the listener "
           "started does not change who is admitted.",
    "C20": " Oracles added: a stream the upstream refuses must end; no stream outlives its connection.",
}
# additions of the seventh (partial) seeding round
EXTRA7 = {
    "C03": " The in-place overlap scenario allows one watermark-only batch at any point (before the reconnect too).",
    "C08": " The broadcast script runs with a watermark that advances with every watermark-only batch and the settled oracle: the "
           "incarnation that registered during the broadcast is owed that watermark.",
    "C09": " Routing table: local state 'replaced' (a second stream registered its channels, then the first one's cleanup ran).",
    "C10": " Real-time part outside the bubble: a connection whose Close blocks on a gate - the provider must not ask for a "
           "replacement while the connection is open (4 cases); after the gate opens the pool heals.",
    "C11": " The goroutine that swaps the client connection's dial map is late by one millisecond of virtual time (what it started "
           "before asking for the lock runs first); on paths with only add and rpc actions the first call must be served.",
    "C20": " Third part (TestVerifC20Opens): coinciding stream opens on the real routing handlers under the scheduler with the "
           "writes of the shard manager's maps as windows with a scheduling point inside (rule mapwrite: two goroutines inside a "
           "write of the same map is what the runtime kills the process for); a stream reopened with the ids of a live stream "
           "must be served to the end.",
}
for _k, _v in EXTRA.items():
    CLAIMED[_k]["text"] += _v
for _k, _v in EXTRA5.items():
    CLAIMED[_k]["text"] += _v
for _k, _v in EXTRA6.items():
    CLAIMED[_k]["text"] += _v
for _k, _v in EXTRA7.items():
    CLAIMED[_k]["text"] += _v


PENDING_REASON = "check not built yet in this revision of /verif (see DESIGN.md section 8 for the build order)"

ALL = ["C%02d" % i for i in range(1, 21)]


def main():
    checks = []
    for pid in ALL:
        if pid not in CLAIMED:
            continue
        c = CLAIMED[pid]
        checks.append({
            "property_id": pid,
            "quick_cmd": "./vcheck run %s --tier quick" % pid,
            "thorough_cmd": "./vcheck run %s --tier thorough" % pid,
            "evidence_file": "/verif/evidence/%s.json" % pid,
            "replay_cmd_template": "./vcheck replay {path}",
            "engine": c["engine"],
            "level_claimed": {"category": c["level"], "text": c["text"], "design_ref": c["design_ref"]},
            "level_note": c["note"],
            "technique": c["technique"],
        })
    na = [{"property_id": pid, "reason": NOT_APPLICABLE.get(pid, PENDING_REASON)} for pid in ALL if pid not in CLAIMED]
    manifest = {
        "version": 1,
        "setup_cmd": "./vcheck setup",
        "hooks": {
            "guard": "verif",
            "enable": "no source hooks are committed to /repo: every check builds /repo's current working tree with "
                      "`go test -overlay <generated> -tags verif`, the overlay adding the harness files "
                      "(/verif/harness/<pkg>/*.go, //go:build verif) as in-package test files, the virtual package "
                      "internal/verifrt (/verif/rt) and, for instrumented checks, AST-rewritten copies of the "
                      "listed source files regenerated from the working tree on every run",
            "baseline_off_cmd": "cd /repo && GOFLAGS=-mod=mod GOPROXY=off go test -json -vet=off -count=1 -timeout 25m ./...",
            "source_commits": [],
            "add_only": True,
        },
        "engines": [
            {"name": "B-seq", "path": "/verif/harness", "serves_properties": ["C05"],
             "kind_free_text": "explicit-state / bounded-exhaustive enumeration driving the real code in-package"},
            {"name": "B-enum", "path": "/verif/harness", "serves_properties": ["C07", "C12", "C13", "C14", "C15", "C16", "C17", "C18", "C19"],
             "kind_free_text": "bounded-exhaustive enumeration of a finite structurally defined input space against a reference computed independently"},
            {"name": "A-micro", "path": "/verif/rt/sched.go + /verif/instr (vinstr) + /verif/harness/proxy/c08_registry.go", "serves_properties": ["C01", "C02", "C03", "C04", "C06", "C08", "C10", "C11"],
             "kind_free_text": "cooperative scheduler over AST-rewritten sources (locks, channel ops, go statements become scheduling points); "
                               "stateless depth-first enumeration of schedules with preemption bounding, one synctest bubble per schedule"},
            {"name": "A-macro", "path": "/verif/harness/proxy/routing_*.go + /verif/rt/pool.go", "serves_properties": ["C01", "C02", "C03", "C04", "C06", "C09", "C10", "C11", "C20"],
             "kind_free_text": "explicit-state BFS whose transitions are executions of the real goroutines in testing/synctest bubbles; "
                               "successors by replay; 16 persistent GOMAXPROCS=1 worker processes"},
        ],
        "checks": checks,
        "not_applicable": na,
        "notes": "Fix commits in /repo are listed in /verif/known_findings.json (status fixed). See DESIGN.md.",
    }
    path = os.path.join(VERIF, "MANIFEST.json")
    with open(path, "w") as fh:
        json.dump(manifest, fh, indent=1)
        fh.write("\n")
    try:
        import jsonschema
        jsonschema.validate(manifest, json.load(open("/root/.vp/MANIFEST.schema.json")))
        print("MANIFEST.json valid; claimed:", [c["property_id"] for c in checks])
    except ImportError:
        print("jsonschema not importable here; wrote MANIFEST.json unvalidated")


NOT_APPLICABLE = {}

if __name__ == "__main__":
    sys.exit(main())
