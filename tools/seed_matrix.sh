#!/bin/bash
# Runs every seeded change under /verif/seeded against the quick check of its property (and extra checks given
# in seeded/<name>/also.txt), records verdicts in /verif/seeded/RESULTS.tsv. Uses /repo's working tree.
# With arguments (seed names) only those seeds are run and their rows replaced.
cd /verif
out=seeded/RESULTS.tsv
only=" $* "
if [ $# -eq 0 ]; then
  echo -e "seed\tcheck\tverdict\tsignatures\twall_s" > $out
else
  for n in "$@"; do grep -v "^$n	" $out > $out.tmp; mv $out.tmp $out; done
fi
for d in seeded/*/; do
  n=$(basename $d); id=${n%-*}
  if [ $# -gt 0 ] && [[ "$only" != *" $n "* ]]; then continue; fi
  checks="$id"; [ -f $d/also.txt ] && checks="$checks $(cat $d/also.txt)"
  for c in $checks; do
    if ! git -C /repo diff --quiet; then echo "repo dirty, abort"; exit 2; fi
    git -C /repo apply /verif/$d/patch.diff || { echo -e "$n\t$c\tPATCH-DOES-NOT-APPLY\t\t" >> $out; continue; }
    t0=$(date +%s)
    ./vcheck run $c --tier quick > /tmp/seed_matrix.out 2>&1; rc=$?
    t1=$(date +%s)
    git -C /repo apply -R /verif/$d/patch.diff 2>/dev/null || git -C /repo checkout -- .   # (-R also removes files the change added)
    git -C /verif checkout -- evidence 2>/dev/null
    sigs=$(grep -o "signature=[^ ]*" /tmp/seed_matrix.out | sed 's/signature=//' | sort -u | head -4 | tr '\n' ' ')
    v="MISSED"; [ $rc -eq 1 ] && v="CAUGHT"; [ $rc -eq 2 ] && v="CHECK-ERROR"
    echo -e "$n\t$c\t$v\t$sigs\t$((t1-t0))" >> $out
  done
done
rm -rf replays
if [ $# -gt 0 ]; then (head -1 $out; tail -n +2 $out | sort) > $out.tmp; mv $out.tmp $out; fi
echo done
