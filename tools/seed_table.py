#!/usr/bin/env python3
"""Renders /verif/seeded/RESULTS.tsv (+ meta.json summaries) as the table between the SEED_TABLE markers of DESIGN.md."""
import csv, json, os, re
V = os.path.dirname(os.path.dirname(os.path.abspath(__file__)))
rows = list(csv.DictReader(open(os.path.join(V, "seeded", "RESULTS.tsv")), delimiter="\t"))
by = {}
for r in rows:
    by.setdefault(r["seed"], []).append(r)
out = ["| seeded change | files | what it breaks (one line) | caught by (signature) |", "|---|---|---|---|"]
for seed in sorted(by):
    m = json.load(open(os.path.join(V, "seeded", seed, "meta.json")))
    summ = re.sub(r"\s+", " ", m.get("summary", "")).strip()
    if len(summ) > 230:
        summ = summ[:227] + "..."
    summ = summ.replace("|", "\\|")
    files = ", ".join(os.path.basename(f) for f in m.get("files_changed", []))
    cells = []
    for r in by[seed]:
        sig = (r["signatures"] or "").strip().split(" ")[0]
        if len(sig) > 70:
            sig = sig[:67] + "..."
        cells.append("%s: %s%s" % (r["check"], r["verdict"], (" `" + sig + "`") if sig and r["verdict"] == "CAUGHT" else ""))
    out.append("| %s | %s | %s | %s |" % (seed, files, summ, "; ".join(cells)))
table = "\n".join(out)
p = os.path.join(V, "DESIGN.md")
s = open(p).read()
if "SEED_TABLE_PLACEHOLDER" in s:
    s = s.replace("SEED_TABLE_PLACEHOLDER", "<!-- SEED_TABLE_BEGIN -->\n<!-- SEED_TABLE_END -->")
s = re.sub(r"<!-- SEED_TABLE_BEGIN -->.*?<!-- SEED_TABLE_END -->", lambda _: "<!-- SEED_TABLE_BEGIN -->\n" + table + "\n<!-- SEED_TABLE_END -->", s, flags=re.S)
open(p, "w").write(s)
print(len(by), "seeds,", sum(1 for r in rows if r["verdict"] == "CAUGHT"), "caught rows of", len(rows))
