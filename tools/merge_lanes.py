#!/usr/bin/env python3
"""merge_lanes.py <lane.tsv>... : merges seed-matrix lane files into /verif/seeded/RESULTS.tsv; later files override
earlier ones per (seed, check)."""
import sys
rows = {}
for p in sys.argv[1:]:
    for line in open(p):
        f = line.rstrip("\n").split("\t")
        if len(f) >= 3 and f[0] != "seed":
            rows[(f[0], f[1])] = f + [""] * (5 - len(f))
with open("/verif/seeded/RESULTS.tsv", "w") as fh:
    fh.write("seed\tcheck\tverdict\tsignatures\twall_s\n")
    for k in sorted(rows):
        fh.write("\t".join(rows[k][:5]) + "\n")
print(len(rows), "rows;", sum(1 for r in rows.values() if r[2] == "CAUGHT"), "caught")
