#!/bin/bash
# One lane of the seed matrix on a scratch pair: usage seed_matrix_lane.sh <worktree of /repo at HEAD> <copy of /verif> <out.tsv> <seed>...
# Same verdict rules as seed_matrix.sh; several lanes can run side by side, /repo and /verif stay untouched.
wt=$1; vc=$2; out=$3; shift 3
: > "$out"
for n in "$@"; do
  d=/verif/seeded/$n; id=${n%-*}
  checks="$id"; [ -f $d/also.txt ] && checks="$checks $(cat $d/also.txt)"
  for c in $checks; do
    if ! git -C "$wt" diff --quiet; then echo "worktree dirty, abort"; exit 2; fi
    git -C "$wt" apply $d/patch.diff || { echo -e "$n\t$c\tPATCH-DOES-NOT-APPLY\t\t" >> "$out"; continue; }
    for attempt in 1 2; do
      t0=$(date +%s)
      (cd "$vc" && VERIF_REPO="$wt" timeout 1800 ./vcheck run $c --tier quick > "$out.log" 2>&1); rc=$?
      t1=$(date +%s)
      [ $rc -le 1 ] && break
      cp "$out.log" "$out.$n.$c.err.log"
    done
    git -C "$wt" apply -R $d/patch.diff 2>/dev/null || { git -C "$wt" checkout -- .; git -C "$wt" clean -fdq; }
    sigs=$(grep -o "signature=[^ ]*" "$out.log" | sed 's/signature=//' | sort -u | head -4 | tr '\n' ' ')
    v="MISSED"; [ $rc -eq 1 ] && v="CAUGHT"; [ $rc -ge 2 ] && v="CHECK-ERROR"
    echo -e "$n\t$c\t$v\t$sigs\t$((t1-t0))" >> "$out"
  done
done
echo done >> "$out.done"
