#!/bin/bash
# usage: confirm_seed.sh <agent out dir e.g. /tmp/seed-C05-out/A> <name e.g. C05-A>
# Confirms in a scratch worktree: patch applies, builds, the full suite has the same pass/fail set as the
# unmodified tree, the demo fails with the patch and passes without. On success copies to /verif/seeded/<name>/.
set -u
src=$1; name=$2
export GOFLAGS=-mod=mod GOPROXY=off
wt=/tmp/confirm-$name
log=/tmp/confirm-$name.log
: > $log
git -C /repo worktree remove --force $wt >/dev/null 2>&1
git -C /repo worktree add --detach $wt HEAD >>$log 2>&1 || { echo "$name: worktree failed"; exit 2; }
cleanup() { git -C /repo worktree remove --force $wt >/dev/null 2>&1; git -C /repo worktree prune; }
trap cleanup EXIT
cd $wt
demo=$(ls $src/demo_test.go $src/demo/main.go 2>/dev/null | head -1)
place=$(head -5 "$demo" | grep -o 'place in: *[^ ]*' | head -1 | sed 's/place in: *//')
[ -z "$place" ] && place=$(python3 -c "import json;print(json.load(open('$src/meta.json')).get('demo_dir',''))")
democmd=$(python3 -c "import json,re;c=json.load(open('$src/meta.json'))['demo_cmd'];c=re.sub(r'^\s*cp [^&]*&&\s*','',c);print(c)")
suite() { timeout 900 go test -vet=off -count=1 -timeout 600s ./... 2>&1 | grep -E "^(ok|FAIL|---|panic)" | sed -E 's/[0-9.]+s$//; s/\(cached\)//' | sort; }
# baseline
if [ ! -f /tmp/confirm-baseline.txt ]; then suite > /tmp/confirm-baseline.txt; fi
git apply $src/patch.diff >>$log 2>&1 || { echo "$name: patch does not apply"; exit 1; }
go build ./... >>$log 2>&1 || { echo "$name: does not build"; exit 1; }
suite > /tmp/confirm-$name.suite
if ! diff /tmp/confirm-baseline.txt /tmp/confirm-$name.suite >>$log; then echo "$name: suite differs from baseline (see $log)"; exit 1; fi
# demo with patch: must fail
if [[ "$demo" == *_test.go ]]; then cp "$demo" "$place/zz_seed_demo_test.go"; fi
if (cd $wt && timeout 300 bash -c "$democmd") >>$log 2>&1; then echo "$name: demo PASSES with the patch (should fail)"; exit 1; fi
git apply -R $src/patch.diff
if ! (cd $wt && timeout 300 bash -c "$democmd") >>$log 2>&1; then echo "$name: demo FAILS without the patch (should pass)"; exit 1; fi
mkdir -p /verif/seeded/$name
cp $src/patch.diff /verif/seeded/$name/patch.diff
cp "$demo" /verif/seeded/$name/$(basename "$demo").txt
python3 - <<PY
import json
m=json.load(open('$src/meta.json'))
m['confirmed_by_builder']="scratch worktree $wt at HEAD: patch applies, go build ./... ok, full suite pass/fail set identical to the unmodified tree, demo fails with patch and passes without ($democmd)"
m['demo_placement']="$place"
json.dump(m,open('/verif/seeded/$name/meta.json','w'),indent=1)
PY
echo "$name: CONFIRMED"
