#!/bin/bash
# usage: try_seed.sh <patch.diff> <property id> [tier]  -- applies the patch to /repo, runs the check, reverts.
set -u
patch=$1; pid=$2; tier=${3:-quick}
cd /repo || exit 2
if ! git diff --quiet; then echo "repo dirty"; exit 2; fi
git apply "$patch" || { echo "patch does not apply"; exit 2; }
cd /verif
VERIF_KEEP_EVIDENCE=1 ./vcheck run "$pid" --tier "$tier" > /tmp/try_seed.out 2>&1
rc=$?
git -C /repo apply -R "$patch" 2>/dev/null || git -C /repo checkout -- .   # (-R also removes files the change added)
git -C /verif checkout -- evidence 2>/dev/null
grep -E "VIOLATION|KNOWN-FINDING|signature=|tier=" /tmp/try_seed.out | head -12
echo "rc=$rc"
