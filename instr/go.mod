module vinstr

go 1.26.4
