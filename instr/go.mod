module vinstr

go 1.23
