// vinstr rewrites a fixed list of repository source files for the instrumented checks. It reads
// the files from the repository's current working tree on every run, so a change to the
// repository is re-instrumented automatically. Stdlib only.
//
//	vinstr -repo /repo -out DIR -rules caps,locks,go,points  proxy/proxy_streams.go ...
//
// rules:
//
//	caps   make(chan T, <int literal>) -> verifrt.ChanCap(<lit>); newProxyIDRingBuffer(<lit>) -> verifrt.RingCap(<lit>)
//	locks  x.Lock()/Unlock()/RLock()/RUnlock() -> verifrt.Lock(&x) ... (cooperative scheduler points)
//	go     go f(a...) -> verifrt.Go(site, func(){ f(a...) }) with arguments bound at the go statement
//	points verifrt.Point(site) before (and after) channel sends/receives, close(), and select statements
//	now    time.Now() -> verifrt.Now() (strictly increasing readings under virtual time)
//	net    net.DialTimeout / net.Listen -> verifrt.NetDialTimeout / NetListen (in-memory network seam)
//	atomics x.Add(v) -> verifrt.AtomicAdd(&x, v) (address taken, scheduling point, add)
//	mapwrite  m[k] = v and delete(m, k) on a map held in a struct field (typed, like maprange) are bracketed by
//	          verifrt.MapWriteBegin / MapWriteEnd with a scheduling point inside: under the scheduler two goroutines inside
//	          a write of the same map at once is what the Go runtime kills the process for ("concurrent map writes")
//	maprange  for k, v := range m (m of map type, decided with go/types over the package) iterates in sorted key order:
//	        for _, e := range verifrt.SortedEntries(m) { k, v := e.K, e.V; ... } - Go's random map order is the one
//	        source of nondeterminism the scheduler cannot own otherwise
package main

import (
	"bytes"
	"encoding/json"
	"flag"
	"fmt"
	"go/ast"
	"go/importer"
	"go/parser"
	"go/printer"
	"go/token"
	"go/types"
	"io"
	"os"
	"os/exec"
	"path/filepath"
	"strconv"
	"strings"
)

const rtImport = "github.com/temporalio/s2s-proxy/internal/verifrt"

type rewriter struct {
	fset  *token.FileSet
	rules map[string]bool
	file  string
	used  bool
	sites int
	tmpN  int
	info  *types.Info // set when the package was type-checked (rule maprange)
}

// typedPackage: the non-test files of one package directory parsed into one FileSet and type-checked against the
// export data of its dependencies (go list -export), so that expression types are known to the rewriter.
type typedPackage struct {
	fset  *token.FileSet
	files map[string]*ast.File // by absolute path
	info  *types.Info
}

func loadTyped(repo, dir string) (*typedPackage, error) {
	cmd := exec.Command("go", "list", "-export", "-deps", "-json=ImportPath,Dir,GoFiles,Export", "./"+dir)
	cmd.Dir = repo
	cmd.Stderr = os.Stderr
	out, err := cmd.Output()
	if err != nil {
		return nil, fmt.Errorf("go list: %w", err)
	}
	type pkg struct {
		ImportPath, Dir, Export string
		GoFiles                 []string
	}
	exports := map[string]string{}
	var target *pkg
	dec := json.NewDecoder(bytes.NewReader(out))
	absDir, _ := filepath.Abs(filepath.Join(repo, dir))
	for dec.More() {
		var p pkg
		if err := dec.Decode(&p); err != nil {
			return nil, err
		}
		if p.Export != "" {
			exports[p.ImportPath] = p.Export
		}
		if d, _ := filepath.Abs(p.Dir); d == absDir {
			q := p
			target = &q
		}
	}
	if target == nil {
		return nil, fmt.Errorf("package %s not listed", dir)
	}
	tp := &typedPackage{fset: token.NewFileSet(), files: map[string]*ast.File{}}
	var files []*ast.File
	for _, name := range target.GoFiles {
		path := filepath.Join(target.Dir, name)
		f, err := parser.ParseFile(tp.fset, path, nil, parser.ParseComments)
		if err != nil {
			return nil, err
		}
		tp.files[path] = f
		files = append(files, f)
	}
	lookup := func(path string) (io.ReadCloser, error) {
		e, ok := exports[path]
		if !ok {
			return nil, fmt.Errorf("no export data for %s", path)
		}
		return os.Open(e)
	}
	tp.info = &types.Info{Types: map[ast.Expr]types.TypeAndValue{}}
	var firstErr error
	conf := types.Config{Importer: importer.ForCompiler(tp.fset, "gc", lookup), Error: func(err error) {
		if firstErr == nil {
			firstErr = err
		}
	}}
	_, _ = conf.Check(target.ImportPath, tp.fset, files, tp.info)
	if firstErr != nil {
		return nil, fmt.Errorf("type check: %w", firstErr)
	}
	return tp, nil
}

// rewriteMapRange turns a range over a map into a range over its entries in sorted key order.
func (r *rewriter) rewriteMapRange(rs *ast.RangeStmt) {
	if r.info == nil {
		return
	}
	tv, ok := r.info.Types[rs.X]
	if !ok || tv.Type == nil {
		return
	}
	if _, isMap := tv.Type.Underlying().(*types.Map); !isMap {
		return
	}
	r.tmpN++
	ev := ast.NewIdent(fmt.Sprintf("vfMapEntry%d", r.tmpN))
	var lhs, rhs []ast.Expr
	blank := func(e ast.Expr) bool {
		id, ok := e.(*ast.Ident)
		return e == nil || (ok && id.Name == "_")
	}
	if !blank(rs.Key) {
		lhs = append(lhs, rs.Key)
		rhs = append(rhs, &ast.SelectorExpr{X: ast.NewIdent(ev.Name), Sel: ast.NewIdent("K")})
	}
	if !blank(rs.Value) {
		lhs = append(lhs, rs.Value)
		rhs = append(rhs, &ast.SelectorExpr{X: ast.NewIdent(ev.Name), Sel: ast.NewIdent("V")})
	}
	tok := rs.Tok
	rs.X = &ast.CallExpr{Fun: rt("SortedEntries"), Args: []ast.Expr{rs.X}}
	if len(lhs) > 0 {
		if tok != token.DEFINE && tok != token.ASSIGN {
			tok = token.DEFINE
		}
		rs.Body.List = append([]ast.Stmt{&ast.AssignStmt{Lhs: lhs, Tok: tok, Rhs: rhs}}, rs.Body.List...)
		rs.Key, rs.Value, rs.Tok = ast.NewIdent("_"), ev, token.DEFINE
	} else {
		rs.Key, rs.Value, rs.Tok = nil, nil, token.ILLEGAL
	}
	r.used = true
	r.sites++
}

// isFieldMap: e is a selector (x.f) of map type - shared state, not a local variable.
func (r *rewriter) isFieldMap(e ast.Expr) bool {
	if r.info == nil {
		return false
	}
	if _, ok := e.(*ast.SelectorExpr); !ok {
		return false
	}
	tv, ok := r.info.Types[e]
	if !ok || tv.Type == nil {
		return false
	}
	_, isMap := tv.Type.Underlying().(*types.Map)
	return isMap
}

func (r *rewriter) mapWriteStmt(n ast.Node, fn string, m ast.Expr) ast.Stmt {
	r.used = true
	return &ast.ExprStmt{X: &ast.CallExpr{Fun: rt(fn), Args: []ast.Expr{r.site(n), m}}}
}

func (r *rewriter) site(n ast.Node) *ast.BasicLit {
	p := r.fset.Position(n.Pos())
	r.sites++
	return &ast.BasicLit{Kind: token.STRING, Value: strconv.Quote(fmt.Sprintf("%s:%d", filepath.Base(p.Filename), p.Line))}
}

func rt(name string) ast.Expr {
	return &ast.SelectorExpr{X: ast.NewIdent("verifrt"), Sel: ast.NewIdent(name)}
}

func isIntLit(e ast.Expr) bool {
	b, ok := e.(*ast.BasicLit)
	return ok && b.Kind == token.INT
}

var lockMethods = map[string]string{"Lock": "Lock", "Unlock": "Unlock", "RLock": "RLock", "RUnlock": "RUnlock"}

// rewriteExpr handles expression-level rules; it is applied to every CallExpr.
func (r *rewriter) rewriteCall(c *ast.CallExpr) {
	if r.rules["caps"] {
		if id, ok := c.Fun.(*ast.Ident); ok {
			if id.Name == "make" && len(c.Args) == 2 && isIntLit(c.Args[1]) {
				if _, isChan := c.Args[0].(*ast.ChanType); isChan {
					c.Args[1] = &ast.CallExpr{Fun: rt("ChanCap"), Args: []ast.Expr{c.Args[1]}}
					r.used = true
				}
			}
			if id.Name == "newProxyIDRingBuffer" && len(c.Args) == 1 && isIntLit(c.Args[0]) {
				c.Args[0] = &ast.CallExpr{Fun: rt("RingCap"), Args: []ast.Expr{c.Args[0]}}
				r.used = true
			}
		}
	}
	if r.rules["atomics"] {
		// x.Add(v) on an atomic counter becomes verifrt.AtomicAdd(&x, v): the address of the counter is taken, then a
		// scheduling point, then the add - so a concurrent reallocation of the container x lives in is observable
		if sel, ok := c.Fun.(*ast.SelectorExpr); ok && sel.Sel.Name == "Add" && len(c.Args) == 1 {
			c.Args = []ast.Expr{&ast.UnaryExpr{Op: token.AND, X: sel.X}, c.Args[0]}
			c.Fun = rt("AtomicAdd")
			r.used = true
			return
		}
	}
	if r.rules["intraclient"] {
		// adminservice.NewAdminServiceClient(conn) -> verifrt.Hooked("intra-admin-client", adminservice.NewAdminServiceClient, conn)
		if sel, ok := c.Fun.(*ast.SelectorExpr); ok && sel.Sel.Name == "NewAdminServiceClient" && len(c.Args) == 1 {
			if id, ok := sel.X.(*ast.Ident); ok && id.Name == "adminservice" {
				c.Args = []ast.Expr{&ast.BasicLit{Kind: token.STRING, Value: strconv.Quote("intra-admin-client")}, c.Fun, c.Args[0]}
				c.Fun = rt("Hooked")
				r.used = true
				return
			}
		}
	}
	if r.rules["net"] {
		if sel, ok := c.Fun.(*ast.SelectorExpr); ok {
			if id, ok := sel.X.(*ast.Ident); ok && id.Name == "net" {
				switch sel.Sel.Name {
				case "DialTimeout":
					c.Fun = rt("NetDialTimeout")
					r.used = true
					return
				case "Listen":
					c.Fun = rt("NetListen")
					r.used = true
					return
				}
			}
		}
	}
	if r.rules["now"] {
		if sel, ok := c.Fun.(*ast.SelectorExpr); ok && len(c.Args) == 0 && sel.Sel.Name == "Now" {
			if id, ok := sel.X.(*ast.Ident); ok && id.Name == "time" {
				c.Fun = rt("Now")
				r.used = true
				return
			}
		}
	}
	if r.rules["locks"] {
		if sel, ok := c.Fun.(*ast.SelectorExpr); ok && len(c.Args) == 0 {
			if m, ok := lockMethods[sel.Sel.Name]; ok {
				recv := sel.X
				site := r.site(sel.Sel)
				c.Fun = rt(m)
				c.Args = []ast.Expr{site, &ast.UnaryExpr{Op: token.AND, X: recv}}
				r.used = true
			}
		}
	}
}

func (r *rewriter) pointStmt(n ast.Node, kind string) ast.Stmt {
	r.used = true
	return &ast.ExprStmt{X: &ast.CallExpr{Fun: rt("Point"), Args: []ast.Expr{r.site(n), &ast.BasicLit{Kind: token.STRING, Value: strconv.Quote(kind)}}}}
}

func isRecv(e ast.Expr) bool {
	u, ok := e.(*ast.UnaryExpr)
	return ok && u.Op == token.ARROW
}

// rewriteStmts handles statement-level rules on a statement list.
func (r *rewriter) rewriteStmts(list []ast.Stmt) []ast.Stmt {
	var out []ast.Stmt
	for _, s := range list {
		after := false
		switch st := s.(type) {
		case *ast.GoStmt:
			if r.rules["go"] {
				out = append(out, r.rewriteGo(st)...)
				continue
			}
		case *ast.SendStmt:
			if r.rules["points"] {
				out = append(out, r.pointStmt(st, "send"))
				after = true
			}
		case *ast.SelectStmt:
			if r.rules["points"] {
				out = append(out, r.pointStmt(st, "select"))
				// a point at the start of every clause: a goroutine woken by a channel operation parks again at once
				for _, c := range st.Body.List {
					if cc, ok := c.(*ast.CommClause); ok {
						cc.Body = append([]ast.Stmt{r.pointStmt(cc, "selected")}, cc.Body...)
					}
				}
			}
		case *ast.ExprStmt:
			if r.rules["mapwrite"] {
				if c, ok := st.X.(*ast.CallExpr); ok && len(c.Args) == 2 {
					if id, ok := c.Fun.(*ast.Ident); ok && id.Name == "delete" && r.isFieldMap(c.Args[0]) {
						out = append(out, r.mapWriteStmt(st, "MapWriteBegin", c.Args[0]), s, r.mapWriteStmt(st, "MapWriteEnd", c.Args[0]))
						continue
					}
				}
			}
			if r.rules["points"] {
				if c, ok := st.X.(*ast.CallExpr); ok {
					if id, ok := c.Fun.(*ast.Ident); ok && id.Name == "close" {
						out = append(out, r.pointStmt(st, "close"))
					}
				}
				if isRecv(st.X) {
					out = append(out, r.pointStmt(st, "recv"))
					after = true
				}
			}
		case *ast.AssignStmt:
			if r.rules["mapwrite"] && len(st.Lhs) == 1 {
				if ix, ok := st.Lhs[0].(*ast.IndexExpr); ok && r.isFieldMap(ix.X) {
					out = append(out, r.mapWriteStmt(st, "MapWriteBegin", ix.X), s, r.mapWriteStmt(st, "MapWriteEnd", ix.X))
					continue
				}
			}
			if r.rules["points"] && len(st.Rhs) == 1 && isRecv(st.Rhs[0]) {
				out = append(out, r.pointStmt(st, "recv"))
				after = true
			}
		}
		out = append(out, s)
		if after {
			out = append(out, r.pointStmt(s, "woken"))
		}
	}
	return out
}

// rewriteGo turns `go f(a, b)` into `{ t0, t1 := a, b; verifrt.Go(site, func(){ f(t0, t1) }) }`.
func (r *rewriter) rewriteGo(g *ast.GoStmt) []ast.Stmt {
	r.used = true
	call := g.Call
	var stmts []ast.Stmt
	if len(call.Args) > 0 && !call.Ellipsis.IsValid() {
		var lhs []ast.Expr
		var newArgs []ast.Expr
		for range call.Args {
			r.tmpN++
			id := ast.NewIdent(fmt.Sprintf("vfGoArg%d", r.tmpN))
			lhs = append(lhs, id)
			newArgs = append(newArgs, ast.NewIdent(id.Name))
		}
		stmts = append(stmts, &ast.AssignStmt{Lhs: lhs, Tok: token.DEFINE, Rhs: call.Args})
		call = &ast.CallExpr{Fun: call.Fun, Args: newArgs}
	}
	body := &ast.BlockStmt{List: []ast.Stmt{&ast.ExprStmt{X: call}}}
	stmts = append(stmts, &ast.ExprStmt{X: &ast.CallExpr{Fun: rt("Go"), Args: []ast.Expr{r.site(g), &ast.FuncLit{Type: &ast.FuncType{Params: &ast.FieldList{}}, Body: body}}}})
	return []ast.Stmt{&ast.BlockStmt{List: stmts}}
}

func (r *rewriter) walk(n ast.Node) {
	ast.Inspect(n, func(n ast.Node) bool {
		switch x := n.(type) {
		case *ast.RangeStmt:
			if r.rules["maprange"] {
				r.rewriteMapRange(x)
			}
		case *ast.CallExpr:
			r.rewriteCall(x)
		case *ast.BlockStmt:
			x.List = r.rewriteStmts(x.List)
		case *ast.CaseClause:
			x.Body = r.rewriteStmts(x.Body)
		case *ast.CommClause:
			x.Body = r.rewriteStmts(x.Body)
		}
		return true
	})
}

func addImport(f *ast.File) {
	spec := &ast.ImportSpec{Name: ast.NewIdent("verifrt"), Path: &ast.BasicLit{Kind: token.STRING, Value: strconv.Quote(rtImport)}}
	for _, d := range f.Decls {
		if gd, ok := d.(*ast.GenDecl); ok && gd.Tok == token.IMPORT {
			gd.Specs = append(gd.Specs, spec)
			if !gd.Lparen.IsValid() {
				gd.Lparen = gd.Pos()
				gd.Rparen = gd.End()
			}
			return
		}
	}
	f.Decls = append([]ast.Decl{&ast.GenDecl{Tok: token.IMPORT, Specs: []ast.Spec{spec}}}, f.Decls...)
}

func main() {
	repo := flag.String("repo", "/repo", "repository root")
	out := flag.String("out", "", "output directory")
	rules := flag.String("rules", "caps", "comma separated rules")
	flag.Parse()
	if *out == "" {
		fmt.Fprintln(os.Stderr, "vinstr: -out required")
		os.Exit(2)
	}
	rs := map[string]bool{}
	for _, x := range strings.Split(*rules, ",") {
		rs[strings.TrimSpace(x)] = true
	}
	typed := map[string]*typedPackage{}
	for _, rel := range flag.Args() {
		src := filepath.Join(*repo, rel)
		fset := token.NewFileSet()
		var f *ast.File
		var info *types.Info
		if rs["maprange"] || rs["mapwrite"] {
			dir := filepath.Dir(rel)
			tp, ok := typed[dir]
			if !ok {
				var err error
				if tp, err = loadTyped(*repo, dir); err != nil {
					// the rule is an aid to determinism only: without types the file is rewritten by the other rules
					fmt.Fprintf(os.Stderr, "vinstr: maprange disabled for %s: %v\n", dir, err)
					tp = nil
				}
				typed[dir] = tp
			}
			if tp != nil {
				abs, _ := filepath.Abs(src)
				if tf, ok := tp.files[abs]; ok {
					f, fset, info = tf, tp.fset, tp.info
				}
			}
		}
		if f == nil {
			var err error
			f, err = parser.ParseFile(fset, src, nil, parser.ParseComments)
			if err != nil {
				fmt.Fprintf(os.Stderr, "vinstr: %v\n", err)
				os.Exit(2)
			}
		}
		r := &rewriter{fset: fset, rules: rs, file: rel, info: info}
		r.walk(f)
		if !r.used {
			continue
		}
		addImport(f)
		var buf bytes.Buffer
		if err := (&printer.Config{Mode: printer.UseSpaces | printer.TabIndent, Tabwidth: 8}).Fprint(&buf, fset, f); err != nil {
			fmt.Fprintf(os.Stderr, "vinstr: print %s: %v\n", rel, err)
			os.Exit(2)
		}
		dst := filepath.Join(*out, strings.ReplaceAll(rel, "/", "__"))
		if err := os.WriteFile(dst, buf.Bytes(), 0o644); err != nil {
			fmt.Fprintf(os.Stderr, "vinstr: %v\n", err)
			os.Exit(2)
		}
		fmt.Printf("REPLACE %s %s\n", src, dst)
		fmt.Fprintf(os.Stderr, "vinstr: %s: %d sites\n", rel, r.sites)
	}
}
