//go:build verif

package proxy

// C06: pass-through streams (default and LCM mode): real handleStream -> StreamForwarder.Run between a
// fake initiator (server stream) and a fake source (client stream). Explicit-state BFS over all
// interleavings of message deliveries in both directions and, at every position, every ending kind.

import (
	"context"
	"crypto/sha1"
	"encoding/json"
	"errors"
	"fmt"
	"io"
	"os"
	"runtime"
	"sort"
	"strings"
	"testing"
	"testing/synctest"
	"time"

	"go.temporal.io/server/api/adminservice/v1"
	replicationv1 "go.temporal.io/server/api/replication/v1"
	"go.temporal.io/server/client/history"
	"go.temporal.io/server/common/log"
	"google.golang.org/grpc/codes"
	"google.golang.org/grpc/metadata"
	"google.golang.org/grpc/status"
	"google.golang.org/protobuf/proto"

	"github.com/temporalio/s2s-proxy/config"
	vrt "github.com/temporalio/s2s-proxy/internal/verifrt"
)

type vfFwdScenario struct {
	Mode string `json:"mode"` // default | lcm
	// SourceIgnoresHalfClose: the source does not end the stream when the proxy half-closes it (a hung or
	// slow peer); the handler must still return because the proxy cancels the outgoing stream.
	SourceIgnoresHalfClose bool `json:"source_ignores_half_close"`
	// Sibling: a second pass-through stream with the same shard metadata is open next to the one under test
	// (shard-count multiples, a reconnect overlap); it can end (sib:end) while the stream under test keeps relaying.
	Sibling bool `json:"sibling,omitempty"`
	NResp   int  `json:"n_resp"`
	NAck    int  `json:"n_ack"`
	MaxAdv  int  `json:"max_adv"`
}

type vfFwdJob struct {
	Sc    vfFwdScenario `json:"sc"`
	Path  []string      `json:"path"`
	Trace bool          `json:"trace"`
}

type vfFwdOut struct {
	Key     string        `json:"key"`
	Enabled []string      `json:"enabled"`
	Viol    []vfViolation `json:"viol,omitempty"`
	Events  []string      `json:"events,omitempty"`
	Outcome string        `json:"outcome"`
	Err     string        `json:"err,omitempty"`
}

type vfFwdExec struct {
	sc         vfFwdScenario
	ini        *vfServerStream
	src        *vfClientStream
	client     *vfAdminClient
	openFail   bool
	sentResp   []*adminservice.StreamWorkflowReplicationMessagesResponse // emitted by source
	gotResp    []*adminservice.StreamWorkflowReplicationMessagesResponse // received by initiator
	sentAck    []*adminservice.StreamWorkflowReplicationMessagesRequest
	gotAck     []*adminservice.StreamWorkflowReplicationMessagesRequest
	ending     string // first ending event
	failIni    bool
	failSrc    bool
	srcDone    chan struct{} // closed when the source ends its stream (a blocked Send returns then)
	blockSrc   bool          // the next Send towards the source blocks until the stream's context ends (window full, source silent)
	srcBlocked bool
	iniFailed  bool
	srcFailed  bool
	now        int
	viol       []vfViolation
	events     []string
	panicked   string
	opened     bool
	srcMD      metadata.MD
	spawn      func(name string, f func())
	changed    chan struct{}
	sibIni     *vfServerStream
	sibSrc     *vfClientStream
	sibEnded   bool
	sibStarted bool
	// startSibling starts the sibling handler (after the stream under test has opened its source stream)
	startSibling func()
}

func (e *vfFwdExec) violate(sig, detail string) {
	for _, v := range e.viol {
		if v.Signature == sig {
			return
		}
	}
	e.viol = append(e.viol, vfViolation{"C06", sig, detail})
}
func (e *vfFwdExec) logf(f string, a ...any) {
	e.events = append(e.events, fmt.Sprintf(f, a...))
	e.notify()
}

func (e *vfFwdExec) notify() {
	if e.changed != nil {
		close(e.changed)
		e.changed = make(chan struct{})
	}
}

// vfFwdResp: the i-th response of the source; every second one is a watermark-only batch (no tasks, advanced
// exclusive high watermark), the shape Temporal sends when nothing for this cluster happened.
func vfFwdResp(i int) *adminservice.StreamWorkflowReplicationMessagesResponse {
	m := &replicationv1.WorkflowReplicationMessages{ExclusiveHighWatermark: int64(100 + i)}
	if i%2 == 0 {
		m.ReplicationTasks = []*replicationv1.ReplicationTask{{SourceTaskId: int64(99 + i)}}
	}
	return &adminservice.StreamWorkflowReplicationMessagesResponse{Attributes: &adminservice.StreamWorkflowReplicationMessagesResponse_Messages{Messages: m}}
}
func vfFwdAck(i int) *adminservice.StreamWorkflowReplicationMessagesRequest {
	return &adminservice.StreamWorkflowReplicationMessagesRequest{Attributes: &adminservice.StreamWorkflowReplicationMessagesRequest_SyncReplicationState{
		SyncReplicationState: &replicationv1.SyncReplicationState{InclusiveLowWatermark: int64(50 + i)}}}
}

func vfNewFwdExec(sc vfFwdScenario, openFail bool) *vfFwdExec {
	e := &vfFwdExec{sc: sc, openFail: openFail, srcDone: make(chan struct{})}
	client := history.ClusterShardID{ClusterID: 2, ShardID: 3}
	server := history.ClusterShardID{ClusterID: 1, ShardID: 3}
	e.ini = vfNewServerStream(client, server, nil)
	e.ini.onSend = func(m *adminservice.StreamWorkflowReplicationMessagesResponse) error {
		if e.failIni {
			e.failIni = false
			e.iniFailed = true
			e.logf("initiator: Send fails")
			return errors.New("verif: send to initiator failed")
		}
		e.gotResp = append(e.gotResp, m)
		e.logf("initiator receives response high=%d", m.GetMessages().GetExclusiveHighWatermark())
		return nil
	}
	e.client = &vfAdminClient{onOpen: func(cs *vfClientStream) error {
		if e.openFail {
			return errors.New("verif: cannot open source stream")
		}
		if e.src != nil && e.sc.Sibling && e.sibSrc == nil {
			// the second stream opened towards the source belongs to the sibling handler
			e.sibSrc = cs
			return nil
		}
		e.src = cs
		cs.noAutoEOF = e.sc.SourceIgnoresHalfClose
		e.srcMD = cs.md
		e.opened = true
		e.notify()
		cs.onSend = func(m *adminservice.StreamWorkflowReplicationMessagesRequest) error {
			if e.failSrc {
				e.failSrc = false
				e.srcFailed = true
				e.logf("source: Send fails")
				return errors.New("verif: send to source failed")
			}
			if e.blockSrc {
				// gRPC: Send blocks on flow control until the stream's context is done
				e.srcBlocked = true
				e.logf("source: Send blocks (the source has stopped reading)")
				// ... or the stream itself is finished (the peer ended it, the transport failed)
				for !cs.ended && !cs.broken && cs.ctx.Err() == nil {
					select {
					case <-cs.ctx.Done():
					case <-cs.brk:
					case <-e.srcDone:
					}
				}
				if cs.ctx.Err() != nil {
					return status.Error(codes.Canceled, "verif: stream context cancelled while Send was blocked")
				}
				return io.EOF
			}
			e.gotAck = append(e.gotAck, m)
			e.logf("source receives ack low=%d", m.GetSyncReplicationState().GetInclusiveLowWatermark())
			return nil
		}
		return nil
	}}
	return e
}

func (e *vfFwdExec) start() {
	scc := config.ShardCountConfig{}
	lcm := LCMParameters{}
	if e.sc.Mode == "lcm" {
		scc = config.ShardCountConfig{Mode: config.ShardCountLCM, LocalShardCount: 2, RemoteShardCount: 3}
		lcm = LCMParameters{LCM: 6, TargetShardCount: 3}
	}
	observer := NewReplicationStreamObserver(log.NewNoopLogger())
	srv := NewAdminServiceProxyServer("c06", e.client, e.client, AdminServiceOverrides{}, []string{"inbound"}, observer.ReportStreamValue,
		scc, lcm, RoutingParameters{}, vfNoopLoggers(), nil, context.Background())
	start := e.spawn
	if start == nil {
		start = func(_ string, f func()) { go f() }
	}
	start("handler", func() {
		defer func() {
			if p := recover(); p != nil {
				e.panicked = fmt.Sprint(p)
			}
			e.ini.returned = true
			e.ini.cancel()
			e.notify()
		}()
		e.ini.retErr = srv.StreamWorkflowReplicationMessages(e.ini)
	})
	if e.sc.Sibling {
		e.sibIni = vfNewServerStream(history.ClusterShardID{ClusterID: 2, ShardID: 3}, history.ClusterShardID{ClusterID: 1, ShardID: 3}, nil)
		e.startSibling = func() {
			start("sibling", func() {
				defer func() {
					_ = recover()
					e.sibIni.returned = true
					e.sibIni.cancel()
					e.notify()
				}()
				_ = srv.StreamWorkflowReplicationMessages(e.sibIni)
			})
		}
	}
}

func (e *vfFwdExec) end(kind string) {
	if e.ending == "" {
		e.ending = kind
	}
}

func (e *vfFwdExec) enabled() []string {
	if e.ending != "" && e.ini.returned {
		return nil
	}
	var out []string
	srcOpen := e.src != nil && !e.src.ended && !e.src.broken
	if srcOpen {
		if len(e.sentResp) < e.sc.NResp {
			out = append(out, "src:msg")
		}
		if e.ending == "" {
			out = append(out, "src:eof", "src:err")
			if !e.blockSrc {
				// (with the relay's Send towards the source blocked, only events that finish a stream or cancel a context
				// can unblock it - as in gRPC)
				out = append(out, "src:badmsg")
			}
			if !e.src.blockCloseSend {
				out = append(out, "closesendblock:src")
			}
			if !e.failSrc && !e.blockSrc {
				out = append(out, "sendfail:src")
				if !e.failIni && !e.iniFailed {
					// (a failing Send towards the initiator is not combined with a blocked one towards the source: in gRPC the
					// former comes with a cancelled stream context, which this fake does not model)
					out = append(out, "sendblock:src")
				}
			}
		}
	}
	if !e.ini.broken && e.ini.ctx.Err() == nil {
		if len(e.sentAck) < e.sc.NAck {
			out = append(out, "ini:ack")
		}
		if e.ending == "" && e.blockSrc {
			out = append(out, "ini:err", "ini:cancel")
		} else if e.ending == "" {
			out = append(out, "ini:eof", "ini:err", "ini:cancel", "ini:badreq")
			if !e.failIni && !e.blockSrc {
				out = append(out, "sendfail:ini")
			}
		}
	}
	if e.now < e.sc.MaxAdv {
		out = append(out, "adv")
	}
	if e.sibStarted && !e.sibEnded && !e.sibIni.returned {
		out = append(out, "sib:end")
	}
	return out
}

func (e *vfFwdExec) apply(a string) error {
	switch a {
	case "src:msg":
		m := vfFwdResp(len(e.sentResp))
		e.sentResp = append(e.sentResp, m)
		e.logf("source emits response high=%d", m.GetMessages().ExclusiveHighWatermark)
		e.src.deliver(vfItem{resp: m})
	case "src:eof":
		e.end(a)
		e.logf("source ends the stream (EOF)")
		e.src.ended = true
		close(e.srcDone)
		e.src.deliver(vfItem{err: io.EOF})
	case "src:err":
		e.end(a)
		e.logf("source stream fails")
		e.src.breakNow()
	case "src:badmsg":
		e.end(a)
		e.logf("source sends a response without Messages")
		e.src.deliver(vfItem{resp: &adminservice.StreamWorkflowReplicationMessagesResponse{}})
	case "ini:ack":
		m := vfFwdAck(len(e.sentAck))
		e.sentAck = append(e.sentAck, m)
		e.logf("initiator emits ack low=%d", m.GetSyncReplicationState().InclusiveLowWatermark)
		e.ini.deliver(vfItem{req: m})
	case "ini:eof":
		e.end(a)
		e.logf("initiator half-closes (EOF)")
		e.ini.deliver(vfItem{err: io.EOF})
	case "ini:err":
		e.end(a)
		e.logf("initiator stream fails")
		e.ini.breakNow()
	case "ini:cancel":
		e.end(a)
		e.logf("initiator context cancelled")
		e.ini.cancel()
	case "ini:badreq":
		e.end(a)
		e.logf("initiator sends a request that is not SyncReplicationState")
		e.ini.deliver(vfItem{req: &adminservice.StreamWorkflowReplicationMessagesRequest{}})
	case "sendfail:ini":
		e.failIni = true // the next Send towards the initiator fails (an ending event once it happens)
	case "sendfail:src":
		e.failSrc = true
	case "sendblock:src":
		e.blockSrc = true
	case "closesendblock:src":
		// from now on the half-close towards the source cannot be written: CloseSend blocks until the stream's context ends
		e.src.blockCloseSend = true
	case "adv":
		e.now++
		time.Sleep(time.Second)
	case "sib:end":
		e.sibEnded = true
		e.logf("the sibling stream (same shard) ends: its initiator hangs up")
		e.sibIni.cancel()
	default:
		return fmt.Errorf("unknown action %s", a)
	}
	return nil
}

func vfPrefix[T proto.Message](got, sent []T) (bool, string) {
	if len(got) > len(sent) {
		return false, fmt.Sprintf("received %d messages, only %d were emitted", len(got), len(sent))
	}
	for i := range got {
		if !proto.Equal(got[i], sent[i]) {
			return false, fmt.Sprintf("message %d differs: got %v want %v", i, got[i], sent[i])
		}
	}
	return true, ""
}

// check evaluates the oracles at a quiescent state.
func (e *vfFwdExec) check() {
	if ok, why := vfPrefix(e.gotResp, e.sentResp); !ok {
		e.violate("relay/responses-not-a-prefix", why)
	}
	if ok, why := vfPrefix(e.gotAck, e.sentAck); !ok {
		e.violate("relay/acks-not-a-prefix", why)
	}
	ended := e.ending != "" || e.iniFailed || e.srcFailed || e.srcBlocked
	if !ended && e.opened {
		if len(e.gotResp) != len(e.sentResp) {
			e.violate("relay/response-not-delivered", fmt.Sprintf("nothing ended or failed, %d responses emitted, %d delivered at quiescence", len(e.sentResp), len(e.gotResp)))
		}
		if len(e.gotAck) != len(e.sentAck) {
			e.violate("relay/ack-not-delivered", fmt.Sprintf("nothing ended or failed, %d acks emitted, %d delivered at quiescence", len(e.sentAck), len(e.gotAck)))
		}
		if e.ini.returned {
			e.violate("end/handler-returned-without-cause", fmt.Sprintf("handler returned (%v) although neither side ended", e.ini.retErr))
		}
	}
	if e.panicked != "" {
		e.violate("end/handler-panic", e.panicked)
	}
}

func (e *vfFwdExec) key() string {
	srcState := "none"
	if e.src != nil {
		srcState = fmt.Sprintf("%v/%v/%v/%v/%v", e.src.ended, e.src.broken, e.src.closeSent, e.src.ctx.Err() != nil, e.src.atHome())
	}
	sib := ""
	if e.sc.Sibling {
		sib = fmt.Sprintf(" sib=%v/%v", e.sibEnded, e.sibIni != nil && e.sibIni.returned)
	}
	return sib + fmt.Sprintf("bs=%v/%v/%v ", e.blockSrc, e.srcBlocked, e.src != nil && e.src.blockCloseSend) + fmt.Sprintf("t=%d end=%s sr=%d gr=%d sa=%d ga=%d fi=%v fs=%v if=%v sf=%v ini=%v/%v/%v/%v src=%s open=%v",
		e.now, e.ending, len(e.sentResp), len(e.gotResp), len(e.sentAck), len(e.gotAck), e.failIni, e.failSrc, e.iniFailed, e.srcFailed,
		e.ini.returned, e.ini.broken, e.ini.ctx.Err() != nil, e.ini.atHome(), srcState, e.opened)
}

// closing: if some side ended or a send failed, the handler must return once the peer honours its
// contract (EOF after CloseSend is automatic in the fake) and at most the 1 s CloseSend guard passes.
func (e *vfFwdExec) closing(wait func()) {
	ended := e.ending != "" || e.iniFailed || e.srcFailed || e.openFail
	if !ended {
		// end the run from the initiator side (client goes away) so that the bubble can finish
		e.ini.cancel()
		wait()
	}
	for i := 0; i < 3 && !e.ini.returned; i++ {
		time.Sleep(time.Second)
		wait()
	}
	if !e.ini.returned {
		e.violate("end/handler-does-not-return", fmt.Sprintf("ending=%q iniSendFailed=%v srcSendFailed=%v: handler still running 3 s after the ending event", e.ending, e.iniFailed, e.srcFailed))
		return
	}
	if e.src != nil {
		if !e.src.closeSent && e.src.ctx.Err() == nil {
			e.violate("end/source-stream-left-open", "handler returned but the stream to the source was neither half-closed nor cancelled")
		}
		if e.src.ctx.Err() == nil {
			e.violate("end/source-context-not-cancelled", "handler returned but the outgoing stream context is still live (half-open stream)")
		}
	}
}

func vfRunFwd(t *testing.T, job *vfFwdJob) (out vfFwdOut) {
	done := make(chan struct{})
	go func() {
		defer close(done)
		defer func() {
			if p := recover(); p != nil {
				out.Err = fmt.Sprintf("bubble: %v", p)
			}
		}()
		synctest.Test(t, func(t *testing.T) {
			path := job.Path
			openFail := len(path) > 0 && path[0] == "openfail"
			if openFail {
				path = path[1:]
			}
			vrt.ResetLocks()
			e := vfNewFwdExec(job.Sc, openFail)
			e.start()
			synctest.Wait()
			if e.startSibling != nil && e.src != nil {
				e.startSibling()
				e.sibStarted = true
				synctest.Wait()
			}
			blocked := func(when string) bool {
				if b := vrt.BlockedLockers(); len(b) > 0 {
					e.violate("end/relay-blocked-on-a-lock-nobody-releases", fmt.Sprintf("%s: %v", when, b))
					return true
				}
				return false
			}
			for _, a := range path {
				if err := e.apply(a); err != nil {
					out.Err = err.Error()
					return
				}
				synctest.Wait()
				e.check()
				if blocked("after " + a) {
					break
				}
			}
			out.Key = e.key()
			out.Enabled = e.enabled()
			if len(job.Path) == 0 {
				out.Enabled = append(out.Enabled, "openfail")
			}
			if openFail {
				out.Enabled = nil
			}
			e.closing(synctest.Wait)
			if e.sibStarted && !e.sibIni.returned {
				e.sibIni.cancel()
				synctest.Wait()
				time.Sleep(2 * time.Second)
				synctest.Wait()
				if !e.sibIni.returned && len(vrt.BlockedLockers()) == 0 {
					e.violate("end/handler-does-not-return", "the sibling stream's handler is still running 2 s after its initiator hung up")
				}
			}
			// let stray workers observe the cancelled contexts before the bubble ends
			time.Sleep(3 * time.Second)
			synctest.Wait()
			blocked("at the end")
			if os.Getenv("VERIF_DEBUG_STACKS") != "" {
				buf := make([]byte, 1<<20)
				os.Stderr.Write(buf[:runtime.Stack(buf, true)])
			}
			// goroutines parked on a lock nobody will release can never finish: make them exit so the bubble can end
			vrt.AbandonBlockedLockers()
			synctest.Wait()
			out.Viol = e.viol
			out.Outcome = fmt.Sprintf("%s resp=%d/%d ack=%d/%d ret=%v", e.ending, len(e.gotResp), len(e.sentResp), len(e.gotAck), len(e.sentAck), e.ini.retErr)
			if job.Trace || len(e.viol) > 0 {
				out.Events = e.events
			}
			if e.sc.Mode == "lcm" && e.opened {
				// LCM mode: shard ids remapped, everything else as in default mode
				if got := e.srcMD.Get(history.MetadataKeyServerShardID); len(got) != 1 || got[0] != "3" {
					e.violate("lcm/server-shard-metadata", fmt.Sprintf("server shard id forwarded as %v, want 3 (shard 3 of LCM 6 -> 3 of 3)", got))
					out.Viol = e.viol
				}
			}
		})
	}()
	<-done
	return out
}

func TestVerifC06(t *testing.T) {
	if vrt.IsWorker() {
		vrt.ServeWorker(func(js string) string {
			var job vfFwdJob
			if err := json.Unmarshal([]byte(js), &job); err != nil {
				return `{"err":"bad job"}`
			}
			out := vfRunFwd(t, &job)
			b, _ := json.Marshal(out)
			return string(b)
		})
		return
	}
	res := vrt.NewResult("C06", "model_checking")
	defer func() {
		if err := res.Write(); err != nil {
			t.Fatal(err)
		}
	}()
	if p := vrt.ReplayPath(); p != "" {
		raw, _ := os.ReadFile(p)
		var job vfFwdJob
		if err := json.Unmarshal(raw, &job); err != nil {
			t.Fatal(err)
		}
		job.Trace = true
		out := vfRunFwd(t, &job)
		for _, v := range out.Viol {
			res.Violate(v.Signature, v.Detail+"\ntrace:\n  "+strings.Join(out.Events, "\n  "), job)
		}
		if out.Err != "" {
			res.Violate("end/goroutine-leak", out.Err, job)
		}
		t.Logf("replay: %+v", out)
		return
	}
	n, adv := 2, 1
	if vrt.Thorough() {
		n, adv = 8, 3
	}
	pool := vrt.NewPool("TestVerifC06", vrt.Workers(), 60*time.Second)
	deadline := vrt.Deadline()
	states, transitions, maxDepth := 0, 0, 0
	outcomes := map[string]bool{}
	exhaustive := true
	var harnessErrs []string
	for _, variant := range []vfFwdScenario{{Mode: "default"}, {Mode: "lcm"}, {Mode: "default", SourceIgnoresHalfClose: true}, {Mode: "default", Sibling: true}} {
		mode := variant.Mode
		if variant.SourceIgnoresHalfClose {
			mode += "+source-ignores-half-close"
		}
		if variant.Sibling {
			mode += "+sibling-stream-of-the-same-shard"
		}
		sc := vfFwdScenario{Mode: variant.Mode, SourceIgnoresHalfClose: variant.SourceIgnoresHalfClose, Sibling: variant.Sibling, NResp: n, NAck: n, MaxAdv: adv}
		type node struct {
			path    []string
			enabled []string
		}
		seen := map[[20]byte]bool{}
		mk := func(p []string) string { b, _ := json.Marshal(vfFwdJob{Sc: sc, Path: p}); return string(b) }
		handle := func(path []string, r vrt.JobResult) *node {
			if r.TimedOut {
				// a wall-clock watchdog is never a verdict: coverage is reported as incomplete instead
				harnessErrs = append(harnessErrs, fmt.Sprintf("worker watchdog expired on %v", path))
				return nil
			}
			if r.Crashed && !vrt.CrashInCodeUnderTest(r.Stderr) {
				harnessErrs = append(harnessErrs, fmt.Sprintf("worker died outside the code under test on %v: %.300s", path, r.Stderr))
				return nil
			}
			if r.Crashed {
				res.Violate("end/process-crash", fmt.Sprintf("mode %s path %v: the worker process died\n%s", mode, path, r.Stderr), vfFwdJob{Sc: sc, Path: path})
				return nil
			}
			var out vfFwdOut
			if err := json.Unmarshal([]byte(r.Out), &out); err != nil {
				harnessErrs = append(harnessErrs, "bad output "+r.Out)
				return nil
			}
			if strings.Contains(out.Err, "blocked goroutines remain") {
				res.Violate("end/goroutine-leak", fmt.Sprintf("mode %s path %v: after the handler returned and both stream contexts were cancelled, goroutines are still blocked (%s)", mode, path, out.Err), vfFwdJob{Sc: sc, Path: path})
				return nil
			}
			if out.Err != "" {
				harnessErrs = append(harnessErrs, fmt.Sprintf("%s on %v", out.Err, path))
				return nil
			}
			for _, v := range out.Viol {
				res.Violate(v.Signature, fmt.Sprintf("mode %s, actions %v: %s\ntrace:\n  %s", mode, path, v.Detail, strings.Join(out.Events, "\n  ")), vfFwdJob{Sc: sc, Path: path})
			}
			outcomes[out.Outcome] = true
			hk := sha1.Sum([]byte(out.Key))
			if seen[hk] {
				return nil
			}
			seen[hk] = true
			return &node{path, out.Enabled}
		}
		r0 := pool.Map([]string{mk(nil)}, nil)
		frontier := []*node{}
		if n0 := handle(nil, r0[0]); n0 != nil {
			frontier = append(frontier, n0)
		}
		for depth := 1; len(frontier) > 0; depth++ {
			if time.Now().After(deadline) {
				exhaustive = false
				break
			}
			var jobs []string
			var paths [][]string
			for _, nd := range frontier {
				for _, a := range nd.enabled {
					p := append(append([]string(nil), nd.path...), a)
					paths = append(paths, p)
					jobs = append(jobs, mk(p))
				}
			}
			var next []*node
			for i, r := range pool.Map(jobs, nil) {
				transitions++
				if nd := handle(paths[i], r); nd != nil {
					next = append(next, nd)
				}
			}
			if depth > maxDepth {
				maxDepth = depth
			}
			frontier = next
		}
		states += len(seen)
	}
	res.Set("states", int64(states))
	res.Set("transitions", int64(transitions))
	res.Set("traces_validated_against_impl", int64(transitions))
	res.Set("max_depth", int64(maxDepth))
	res.Set("distinct_outcomes", int64(len(outcomes)))
	res.Set("exhaustive", exhaustive && len(harnessErrs) == 0)
	res.Set("harness_errors", harnessErrs)
	res.Set("alphabet", fmt.Sprintf("modes default,lcm; <=%d responses and <=%d sync-states; endings: source EOF/error/response without Messages, initiator EOF/error/context cancelled/request that is not SyncReplicationState, next Send to initiator fails, next Send to source fails, next Send to source blocks until the stream's context ends, CloseSend towards the source blocks until the stream's context ends, opening the source stream fails; 1 s time step", n, n))
	res.Set("explanation", "every transition executes the real StreamWorkflowReplicationMessages -> handleStream -> StreamForwarder.Run in a synctest bubble; after every path the ending contract (handler returns, source stream closed and cancelled, no goroutine left) is checked; no separate model")
	os := make([]string, 0, len(outcomes))
	for o := range outcomes {
		os = append(os, o)
	}
	sort.Strings(os)
	for i := 0; i < len(os) && i < 4; i++ {
		res.Sample(os[i*len(os)/4])
	}
	res.Assume("gRPC cancels the initiator's stream context when the handler returns; the source either ends the stream (EOF) after the proxy half-closes it or, in the third scenario family, ignores the half-close altogether")
	res.Assume("which case a Go select takes when both the shutdown latch and a message are ready is left to the runtime; the oracle accepts both")
}
