//go:build verif

package proxy

// C09: (1) convergence of shard ownership among 2-3 real shardManagerImpl instances driven at the memberlist
// delegate seam: explicit-state BFS over all orders, delays and duplications of ownership announcements,
// state snapshots (push/pull merges) and leave notifications; (2) the routing clause as an exhaustive table
// over local / remote / unknown ownership for messages and acknowledgements.

import (
	"context"
	"crypto/sha1"
	"encoding/json"
	"fmt"
	"io"
	"os"
	"sort"
	"strings"
	"sync"
	"testing"
	"testing/synctest"
	"time"

	"github.com/hashicorp/memberlist"
	"go.temporal.io/server/api/adminservice/v1"
	replicationv1 "go.temporal.io/server/api/replication/v1"
	"go.temporal.io/server/client/history"
	"go.temporal.io/server/common/channel"
	"go.temporal.io/server/common/log"
	"google.golang.org/grpc/metadata"

	"github.com/temporalio/s2s-proxy/config"
	"github.com/temporalio/s2s-proxy/encryption"
	vrt "github.com/temporalio/s2s-proxy/internal/verifrt"
)

type vfFlight struct {
	Kind    string // announce | state | leave
	From    int
	To      int
	Data    []byte
	Desc    string
	DupUsed bool
	Seq     int
}

type vfCluster9 struct {
	n        int
	sms      []*shardManagerImpl
	left     []bool
	flight   []*vfFlight
	seq      int
	appUsed  int
	snapUsed int
	history  []string // app events on shards, in order: "reg:i:x" / "unreg:i:x"
	cfg      vfC09Cfg
	// leaveSeen[j][i]: observer j has processed the leave notification of i;
	// staleAfterLeave[j][i]: after that, j processed a state snapshot taken from i before it left
	leaveSeen       map[[2]int]bool
	staleAfterLeave map[[2]int]bool
	newSM           func(i int) *shardManagerImpl
	rejoined        int
}

type vfC09Cfg struct {
	N        int `json:"n"`
	Shards   int `json:"shards"`
	MaxApp   int `json:"max_app"`
	MaxSnaps int `json:"max_snaps"`
	Leaves   int `json:"leaves"`
	// Preset: before exploration starts instance n1 claims every shard and its announcements are delivered
	// (exploration starts from a non-initial state: the claims that follow are take-overs).
	Preset bool `json:"preset,omitempty"`
	// Rejoin: an instance that left may come back under the same node name (a restarted process: fresh shard manager,
	// full state exchange with every live instance at join), once its leave has been seen by everybody.
	Rejoin bool `json:"rejoin,omitempty"`
}

func vfNode(i int) string { return fmt.Sprintf("n%d", i+1) }

func vfNewCluster9(cfg vfC09Cfg) *vfCluster9 {
	c := &vfCluster9{n: cfg.N, cfg: cfg, left: make([]bool, cfg.N), leaveSeen: map[[2]int]bool{}, staleAfterLeave: map[[2]int]bool{}}
	addrs := map[string]string{}
	for i := 0; i < cfg.N; i++ {
		addrs[vfNode(i)] = fmt.Sprintf("127.0.0.1:%d", 7000+i)
	}
	c.newSM = func(i int) *shardManagerImpl {
		mc := &config.MemberlistConfig{Enabled: true, NodeName: vfNode(i), ProxyAddresses: addrs}
		sm := NewShardManager(mc, config.ShardCountConfig{Mode: config.ShardCountRouting}, encryption.TLSConfig{}, vfNoopLoggers()).(*shardManagerImpl)
		// what Start does, minus opening memberlist sockets: wire the callbacks and mark the manager started
		sm.SetupCallbacks()
		sm.started = true
		return sm
	}
	for i := 0; i < cfg.N; i++ {
		c.sms = append(c.sms, c.newSM(i))
	}
	// the instances know each other before any claim is made (full state exchange at join)
	for i := 0; i < cfg.N; i++ {
		for j := 0; j < cfg.N; j++ {
			if i != j {
				c.sms[j].delegate.MergeRemoteState(c.sms[i].delegate.LocalState(true), true)
			}
		}
	}
	if cfg.Preset {
		for x := 1; x <= cfg.Shards; x++ {
			c.sms[0].RegisterShard(vfShard9(x))
			c.announce(0, "register", x)
			for len(c.flight) > 0 {
				fl := c.flight[0]
				c.flight = c.flight[1:]
				c.deliverTo(fl)
			}
		}
	}
	return c
}

func vfShard9(x int) history.ClusterShardID {
	return history.ClusterShardID{ClusterID: 2, ShardID: int32(x)}
}

// announce transcribes broadcastShardChange (which needs a live memberlist): one reliable message to every
// other instance the sender knows, stamped with the sender's clock at broadcast time.
func (c *vfCluster9) announce(from int, typ string, x int) {
	sm := c.sms[from]
	msg := ShardMessage{Type: typ, NodeName: vfNode(from), ClientShard: vfShard9(x), Timestamp: vrt.Now()}
	data, _ := json.Marshal(msg)
	sm.remoteNodeStatesMu.RLock()
	var targets []string
	for name := range sm.remoteNodeStates {
		if name != vfNode(from) {
			targets = append(targets, name)
		}
	}
	sm.remoteNodeStatesMu.RUnlock()
	sort.Strings(targets)
	for _, tname := range targets {
		for j := 0; j < c.n; j++ {
			if vfNode(j) == tname {
				c.seq++
				c.flight = append(c.flight, &vfFlight{Kind: "announce", From: from, To: j, Data: data, Desc: fmt.Sprintf("%s(%d) %s->%s", typ, x, vfNode(from), tname), Seq: c.seq})
			}
		}
	}
}

func (c *vfCluster9) localHas(i, x int) (time.Time, bool) {
	sm := c.sms[i]
	sm.mutex.RLock()
	defer sm.mutex.RUnlock()
	info, ok := sm.localShards[ClusterShardIDtoShortString(vfShard9(x))]
	return info.Created, ok
}

func (c *vfCluster9) enabled() []string {
	var out []string
	if c.appUsed < c.cfg.MaxApp {
		for i := 0; i < c.n; i++ {
			if c.left[i] {
				continue
			}
			for x := 1; x <= c.cfg.Shards; x++ {
				out = append(out, fmt.Sprintf("reg:%d:%d", i, x))
				if _, ok := c.localHas(i, x); ok {
					out = append(out, fmt.Sprintf("unreg:%d:%d", i, x))
				}
			}
		}
	}
	for k, f := range c.flight {
		out = append(out, fmt.Sprintf("deliver:%d", k))
		if !f.DupUsed && f.Kind != "leave" {
			out = append(out, fmt.Sprintf("dup:%d", k))
		}
	}
	if c.snapUsed < c.cfg.MaxSnaps {
		for i := 0; i < c.n; i++ {
			for j := 0; j < c.n; j++ {
				if i != j && !c.left[i] && !c.left[j] {
					out = append(out, fmt.Sprintf("snap:%d:%d", i, j))
				}
			}
		}
	}
	nLeft := 0
	for _, l := range c.left {
		if l {
			nLeft++
		}
	}
	if nLeft < c.cfg.Leaves && c.rejoined == 0 {
		for i := 0; i < c.n; i++ {
			if !c.left[i] {
				out = append(out, fmt.Sprintf("leave:%d", i))
			}
		}
	}
	if c.cfg.Rejoin && c.rejoined == 0 {
		for i := 0; i < c.n; i++ {
			if !c.left[i] {
				continue
			}
			pending := false
			for _, f := range c.flight {
				if f.From == i || f.To == i {
					pending = true // nothing of its previous life is in flight any more
				}
			}
			if !pending {
				out = append(out, fmt.Sprintf("rejoin:%d", i))
			}
		}
	}
	return out
}

func (c *vfCluster9) deliverTo(f *vfFlight) {
	if c.left[f.To] {
		return // the destination is gone
	}
	dst := c.sms[f.To]
	switch f.Kind {
	case "announce":
		before := dst.GetLocalShards()
		dst.delegate.NotifyMsg(f.Data)
		after := dst.GetLocalShards()
		for k, id := range before {
			if _, still := after[k]; !still {
				// the announcement evicted a local registration: UnregisterShard broadcasts that
				c.announce(f.To, "unregister", int(id.ShardID))
			}
		}
	case "state":
		if c.leaveSeen[[2]int{f.To, f.From}] {
			c.staleAfterLeave[[2]int{f.To, f.From}] = true
		}
		dst.delegate.MergeRemoteState(f.Data, false)
	case "leave":
		c.leaveSeen[[2]int{f.To, f.From}] = true
		(&shardEventDelegate{manager: dst, logger: log.NewNoopLogger()}).NotifyLeave(&memberlist.Node{Name: vfNode(f.From)})
	}
}

func (c *vfCluster9) apply(a string) error {
	f := strings.Split(a, ":")
	var p, q int
	if len(f) > 1 {
		fmt.Sscan(f[1], &p)
	}
	if len(f) > 2 {
		fmt.Sscan(f[2], &q)
	}
	switch f[0] {
	case "reg":
		c.appUsed++
		c.sms[p].RegisterShard(vfShard9(q))
		c.history = append(c.history, fmt.Sprintf("reg:%d:%d", p, q))
		c.announce(p, "register", q)
	case "unreg":
		at, ok := c.localHas(p, q)
		if !ok {
			return fmt.Errorf("action %s not enabled", a)
		}
		c.appUsed++
		c.sms[p].UnregisterShard(vfShard9(q), at)
		c.history = append(c.history, fmt.Sprintf("unreg:%d:%d", p, q))
		c.announce(p, "unregister", q)
	case "deliver", "dup":
		if p >= len(c.flight) {
			return fmt.Errorf("action %s not enabled", a)
		}
		fl := c.flight[p]
		if f[0] == "dup" {
			fl.DupUsed = true
		} else {
			c.flight = append(c.flight[:p:p], c.flight[p+1:]...)
		}
		c.deliverTo(fl)
	case "snap":
		c.snapUsed++
		c.seq++
		c.flight = append(c.flight, &vfFlight{Kind: "state", From: p, To: q, Data: c.sms[p].delegate.LocalState(false), Desc: fmt.Sprintf("state %s->%s", vfNode(p), vfNode(q)), Seq: c.seq})
	case "leave":
		c.left[p] = true
		for j := 0; j < c.n; j++ {
			if j != p && !c.left[j] {
				c.seq++
				c.flight = append(c.flight, &vfFlight{Kind: "leave", From: p, To: j, Desc: fmt.Sprintf("leave(%s)->%s", vfNode(p), vfNode(j)), Seq: c.seq})
			}
		}
	case "rejoin":
		if !c.left[p] {
			return fmt.Errorf("action %s not enabled", a)
		}
		c.rejoined++
		c.left[p] = false
		c.sms[p] = c.newSM(p)
		c.history = append(c.history, fmt.Sprintf("rejoin:%d", p))
		for j := 0; j < c.n; j++ {
			delete(c.leaveSeen, [2]int{j, p})
			delete(c.staleAfterLeave, [2]int{j, p})
			if j != p && !c.left[j] {
				// memberlist: NotifyJoin on the peers, then the push/pull state exchange of the join in both directions
				(&shardEventDelegate{manager: c.sms[j], logger: log.NewNoopLogger()}).NotifyJoin(&memberlist.Node{Name: vfNode(p)})
				c.sms[j].delegate.MergeRemoteState(c.sms[p].delegate.LocalState(true), true)
				c.sms[p].delegate.MergeRemoteState(c.sms[j].delegate.LocalState(true), true)
			}
		}
	default:
		return fmt.Errorf("unknown action %s", a)
	}
	return nil
}

// key: canonical state; instants are replaced by their rank among all instants in the system.
func (c *vfCluster9) key() string {
	var times []time.Time
	for i := range c.sms {
		c.sms[i].mutex.RLock()
		for _, s := range c.sms[i].localShards {
			times = append(times, s.Created)
		}
		c.sms[i].mutex.RUnlock()
	}
	for _, f := range c.flight {
		if f.Kind == "announce" {
			var m ShardMessage
			_ = json.Unmarshal(f.Data, &m)
			times = append(times, m.Timestamp)
		}
	}
	sort.Slice(times, func(i, j int) bool { return times[i].Before(times[j]) })
	rank := func(t time.Time) int {
		for i, x := range times {
			if x.Equal(t) {
				return i
			}
		}
		return -1
	}
	var sb strings.Builder
	fmt.Fprintf(&sb, "app=%d snaps=%d left=%v rejoined=%d|", c.appUsed, c.snapUsed, c.left, c.rejoined)
	for i, sm := range c.sms {
		sm.mutex.RLock()
		var ls []string
		for k, s := range sm.localShards {
			ls = append(ls, fmt.Sprintf("%s@%d", k, rank(s.Created)))
		}
		sm.mutex.RUnlock()
		sort.Strings(ls)
		sm.remoteNodeStatesMu.RLock()
		var rs []string
		for name, st := range sm.remoteNodeStates {
			var ks []string
			for k := range st.Shards {
				ks = append(ks, k)
			}
			sort.Strings(ks)
			rs = append(rs, name+"="+strings.Join(ks, ","))
		}
		sm.remoteNodeStatesMu.RUnlock()
		sort.Strings(rs)
		fmt.Fprintf(&sb, "n%d local=%v remote=%v|", i+1, ls, rs)
	}
	var fl []string
	for _, f := range c.flight {
		d := f.Desc
		if f.Kind == "announce" {
			var m ShardMessage
			_ = json.Unmarshal(f.Data, &m)
			d += fmt.Sprintf("@%d", rank(m.Timestamp))
		}
		if f.Kind == "state" {
			var st NodeShardState
			_ = json.Unmarshal(f.Data, &st)
			var ks []string
			for k := range st.Shards {
				ks = append(ks, k)
			}
			sort.Strings(ks)
			d += "{" + strings.Join(ks, ",") + "}"
		}
		fl = append(fl, fmt.Sprintf("%s/%v", d, f.DupUsed))
	}
	// the order of in-flight messages is irrelevant (any of them can be delivered next)
	sort.Strings(fl)
	sb.WriteString(strings.Join(fl, ";"))
	sb.WriteString("|hist=" + strings.Join(c.history, ","))
	return sb.String()
}

// quiesce delivers everything in flight, then every live pair exchanges fresh state; returns oracle verdicts.
func (c *vfCluster9) quiesce() []vfViolation {
	for len(c.flight) > 0 {
		f := c.flight[0]
		c.flight = c.flight[1:]
		c.deliverTo(f)
	}
	for round := 0; round < 2; round++ {
		for i := 0; i < c.n; i++ {
			for j := 0; j < c.n; j++ {
				if i != j && !c.left[i] && !c.left[j] {
					c.sms[j].delegate.MergeRemoteState(c.sms[i].delegate.LocalState(false), false)
				}
			}
		}
		for len(c.flight) > 0 {
			f := c.flight[0]
			c.flight = c.flight[1:]
			c.deliverTo(f)
		}
	}
	var out []vfViolation
	add := func(sig, d string) { out = append(out, vfViolation{"C09", sig, d}) }
	for x := 1; x <= c.cfg.Shards; x++ {
		var owners []int
		for i := 0; i < c.n; i++ {
			if c.left[i] {
				continue
			}
			if _, ok := c.localHas(i, x); ok {
				owners = append(owners, i)
			}
		}
		if len(owners) > 1 {
			add("convergence/shard-owned-by-several-instances", fmt.Sprintf("at quiescence shard %d is listed as local by instances %v (history %v)", x, owners, c.history))
		}
		// the newest claim: the last application event on x
		last := ""
		for _, h := range c.history {
			if strings.HasSuffix(h, fmt.Sprintf(":%d", x)) {
				last = h
			}
		}
		if strings.HasPrefix(last, "reg:") {
			var i, xx int
			fmt.Sscanf(last, "reg:%d:%d", &i, &xx)
			restarted := false
			seenLast := false
			for _, h := range c.history {
				if h == last {
					seenLast = true
				}
				if seenLast && h == fmt.Sprintf("rejoin:%d", i) {
					restarted = true // the claimant restarted after its claim: the claim is gone with the process
				}
			}
			if !c.left[i] && !restarted {
				if len(owners) != 1 || owners[0] != i {
					add("convergence/newest-claim-does-not-own", fmt.Sprintf("the newest claim on shard %d is by %s, but at quiescence the owners are %v (history %v)", x, vfNode(i), owners, c.history))
				}
			}
		}
	}
	for j := 0; j < c.n; j++ {
		if c.left[j] {
			continue
		}
		remote, _ := c.sms[j].GetRemoteShardsForPeer("")
		for i := 0; i < c.n; i++ {
			if i == j {
				continue
			}
			st, known := remote[vfNode(i)]
			if c.left[i] {
				if known {
					cause := "leave-notification-had-no-effect"
					if c.staleAfterLeave[[2]int{j, i}] {
						cause = "stale-snapshot-processed-after-leave"
					}
					add("convergence/left-instance-still-listed/"+cause, fmt.Sprintf("%s left, but %s still lists it as owning %d shard(s) [%s] (history %v)", vfNode(i), vfNode(j), len(st.Shards), cause, c.history))
				}
				continue
			}
			want := c.sms[i].GetLocalShards()
			if len(st.Shards) != len(want) {
				add("convergence/remote-view-differs", fmt.Sprintf("after a fresh state exchange %s believes %s owns %d shards, it owns %d", vfNode(j), vfNode(i), len(st.Shards), len(want)))
			}
		}
	}
	return out
}

type vfC09Job struct {
	Cfg  vfC09Cfg `json:"cfg"`
	Path []string `json:"path"`
}

func vfRunC09(job vfC09Job) (key string, enabled []string, viol []vfViolation, err error) {
	c := vfNewCluster9(job.Cfg)
	for _, a := range job.Path {
		if e := c.apply(a); e != nil {
			return "", nil, nil, e
		}
	}
	key = c.key()
	enabled = c.enabled()
	viol = c.quiesce()
	return
}

// ---- routing clause -------------------------------------------------------------------------------

type vfRouteCase struct {
	Local  string `json:"local"`  // present | closed | absent | full
	Remote string `json:"remote"` // owner-with-stream | owner-peer-without-stream | owner-unknown-peer | unknown | owner-is-self
	Kind   string `json:"kind"`   // message | ack | ack-noforward
}

type vfCountingServerStream struct {
	*vfServerStream
	n int
}

func vfRoutingTable(res *vrt.Result) (evals, nontrivial int64) {
	// "replaced": a second local stream for the shard registered its channels while the first one's were still there,
	// then the first one's deferred cleanup ran (with its own channels): the local stream that exists is the second
	for _, local := range []string{"present", "closed", "absent", "replaced"} {
		for _, remote := range []string{"owner-with-stream", "owner-peer-without-stream", "owner-peer-with-sibling-streams-only", "owner-unknown-peer", "unknown", "owner-without-address"} {
			for _, kind := range []string{"message", "ack", "ack-noforward"} {
				tc := vfRouteCase{local, remote, kind}
				var got bool
				var localN, remoteN int
				var panicked string
				synctest.Test(vfT, func(t *testing.T) {
					addrs := map[string]string{"n1": "a1", "n2": "a2"}
					if remote == "owner-without-address" {
						delete(addrs, "n2")
					}
					mc := &config.MemberlistConfig{Enabled: true, NodeName: "n1", ProxyAddresses: addrs}
					sm := NewShardManager(mc, config.ShardCountConfig{Mode: config.ShardCountRouting}, encryption.TLSConfig{}, vfNoopLoggers()).(*shardManagerImpl)
					sm.SetupCallbacks()
					sm.started = true
					target := history.ClusterShardID{ClusterID: 2, ShardID: 1}
					source := history.ClusterShardID{ClusterID: 1, ShardID: 1}
					addressed := target
					if kind != "message" {
						addressed = source
					}
					msgCh := make(chan RoutedMessage, 2)
					ackCh := make(chan RoutedAck, 2)
					switch local {
					case "present":
						sm.SetRemoteSendChan(target, msgCh)
						sm.SetLocalAckChan(source, ackCh)
					case "closed":
						close(msgCh)
						close(ackCh)
						sm.SetRemoteSendChan(target, msgCh)
						sm.SetLocalAckChan(source, ackCh)
					case "replaced":
						oldMsg, oldAck := make(chan RoutedMessage, 2), make(chan RoutedAck, 2)
						sm.SetRemoteSendChan(target, oldMsg)
						sm.SetLocalAckChan(source, oldAck)
						sm.SetRemoteSendChan(target, msgCh)
						sm.SetLocalAckChan(source, ackCh)
						sm.RemoveRemoteSendChan(target, oldMsg)
						sm.RemoveLocalAckChan(source, oldAck)
					}
					if remote != "unknown" {
						st := NodeShardState{NodeName: "n2", Shards: map[string]ShardInfo{ClusterShardIDtoShortString(addressed): {ID: addressed, Created: time.Now()}}, Updated: time.Now()}
						b, _ := json.Marshal(st)
						sm.delegate.MergeRemoteState(b, false)
					}
					// intra-proxy streams towards n2
					ss := vfNewServerStream(target, source, nil)
					ss.onSend = func(*adminservice.StreamWorkflowReplicationMessagesResponse) error { remoteN++; return nil }
					cs := &vfClientStream{ctx: context.Background(), md: metadata.MD{}, recvQ: make(chan vfItem, 1), brk: make(chan struct{})}
					cs.onSend = func(*adminservice.StreamWorkflowReplicationMessagesRequest) error { remoteN++; return nil }
					mgr := sm.GetIntraProxyManager()
					switch remote {
					case "owner-with-stream", "owner-without-address":
						mgr.RegisterSender("n2", target, source, &intraProxyStreamSender{logger: log.NewNoopLogger(), shardManager: sm, peerNodeName: "n2", targetShardID: target, sourceShardID: source, sourceStreamServer: ss})
						mgr.streamsMu.Lock()
						mgr.peers["n2"].receivers[peerStreamKey{targetShard: target, sourceShard: source}] = &intraProxyStreamReceiver{logger: log.NewNoopLogger(), shardManager: sm, intraMgr: mgr, peerNodeName: "n2", targetShardID: target, sourceShardID: source, streamClient: cs}
						mgr.streamsMu.Unlock()
					case "owner-peer-without-stream":
						// the peer is known to the manager through a stream for another shard pair
						other := history.ClusterShardID{ClusterID: 2, ShardID: 9}
						mgr.RegisterSender("n2", other, source, &intraProxyStreamSender{logger: log.NewNoopLogger(), shardManager: sm, peerNodeName: "n2", targetShardID: other, sourceShardID: source, sourceStreamServer: ss})
					case "owner-peer-with-sibling-streams-only":
						// both directions of a stream towards the peer exist - for another target shard and the same source shard,
						// and for the same target shard and another source shard - but none for this pair
						for _, pair := range [][2]history.ClusterShardID{{{ClusterID: 2, ShardID: 9}, source}, {target, {ClusterID: 1, ShardID: 9}}} {
							ot, os := pair[0], pair[1]
							mgr.RegisterSender("n2", ot, os, &intraProxyStreamSender{logger: log.NewNoopLogger(), shardManager: sm, peerNodeName: "n2", targetShardID: ot, sourceShardID: os, sourceStreamServer: ss})
							mgr.streamsMu.Lock()
							mgr.peers["n2"].receivers[peerStreamKey{targetShard: ot, sourceShard: os}] = &intraProxyStreamReceiver{logger: log.NewNoopLogger(), shardManager: sm, intraMgr: mgr, peerNodeName: "n2", targetShardID: ot, sourceShardID: os, streamClient: cs}
							mgr.streamsMu.Unlock()
						}
					}
					func() {
						defer func() {
							if p := recover(); p != nil {
								panicked = fmt.Sprint(p)
							}
						}()
						shutdown := channel.NewShutdownOnce()
						if kind == "message" {
							got = sm.DeliverMessagesToShardOwner(target, &RoutedMessage{SourceShard: source, Resp: &adminservice.StreamWorkflowReplicationMessagesResponse{}}, shutdown, log.NewNoopLogger())
						} else {
							got = sm.DeliverAckToShardOwner(source, &RoutedAck{TargetShard: target, Req: &adminservice.StreamWorkflowReplicationMessagesRequest{}}, shutdown, log.NewNoopLogger(), 7, kind == "ack")
						}
					}()
					if local == "present" || local == "replaced" {
						localN = len(msgCh) + len(ackCh)
					}
					ss.cancel()
				})
				evals++
				replay := map[string]any{"part": "TestVerifC09", "routing_case": tc}
				total := localN + remoteN
				if panicked != "" {
					res.Violate("routing/panic/"+kind, fmt.Sprintf("case %+v: %s", tc, panicked), replay)
					continue
				}
				if got && total != 1 {
					nontrivial++
					res.Violate("routing/reported-delivered-but-"+fmt.Sprint(total)+"-copies/"+kind+"/"+remote, fmt.Sprintf("case %+v: the call returned true, %d local and %d remote copies were handed over", tc, localN, remoteN), replay)
				}
				if !got && total != 0 {
					nontrivial++
					res.Violate("routing/reported-undelivered-but-handed-over/"+kind+"/"+remote, fmt.Sprintf("case %+v: the call returned false, yet %d local and %d remote copies were handed over", tc, localN, remoteN), replay)
				}
				// local first; otherwise the known remote owner; undelivered when neither exists
				wantLocal := local == "present" || local == "replaced"
				wantRemote := !wantLocal && remote == "owner-with-stream" && kind != "ack-noforward"
				if !got {
					nontrivial++
				}
				if wantLocal && (!got || localN != 1) {
					res.Violate("routing/local-stream-not-preferred/"+kind, fmt.Sprintf("case %+v: a local stream exists, result=%v local copies=%d remote copies=%d", tc, got, localN, remoteN), replay)
				}
				if wantRemote && (!got || remoteN != 1) {
					res.Violate("routing/known-remote-owner-not-used/"+kind, fmt.Sprintf("case %+v: no local stream, remote owner known with a stream, result=%v remote copies=%d", tc, got, remoteN), replay)
				}
				if !wantLocal && !wantRemote && got {
					res.Violate("routing/delivered-to-nobody-reported-true/"+kind+"/"+remote, fmt.Sprintf("case %+v: neither a local stream nor a usable remote owner exists, yet the call returned true", tc), replay)
				}
			}
		}
	}
	return
}

// vfForwardedAckTable: the receiving end of the owner-forward path. An acknowledgement that another instance forwarded
// arrives on the intra-proxy stream (the real intraProxyStreamSender.recvAck loop reads it from a scripted stream:
// the acknowledgement, a second acknowledgement, end of stream), for every combination of "local stream for the
// addressed shard" and "what this instance believes about a remote owner". A forwarded acknowledgement is handed to
// the local stream when one exists; otherwise neither a local stream nor a (permitted) remote owner exists for it -
// it must not be forwarded a second time - and the only report the forwarding instance can get is the stream ending
// with an error: the loop must not read on as if the acknowledgement had been delivered.
func vfForwardedAckTable(res *vrt.Result) (evals, nontrivial int64) {
	for _, local := range []string{"present", "closed", "absent", "removed-after-first"} {
		for _, remote := range []string{"owner-with-stream", "owner-unknown-peer", "unknown"} {
			var localN, remoteN, recvCalls int
			var retErr error
			var returned bool
			var panicked string
			synctest.Test(vfT, func(t *testing.T) {
				mc := &config.MemberlistConfig{Enabled: true, NodeName: "n1", ProxyAddresses: map[string]string{"n1": "a1", "n2": "a2", "n3": "a3"}}
				sm := NewShardManager(mc, config.ShardCountConfig{Mode: config.ShardCountRouting}, encryption.TLSConfig{}, vfNoopLoggers()).(*shardManagerImpl)
				sm.SetupCallbacks()
				sm.started = true
				target := history.ClusterShardID{ClusterID: 2, ShardID: 1}
				source := history.ClusterShardID{ClusterID: 1, ShardID: 1}
				ackCh := make(chan RoutedAck, 4)
				switch local {
				case "present", "removed-after-first":
					sm.SetLocalAckChan(source, ackCh)
				case "closed":
					close(ackCh)
					sm.SetLocalAckChan(source, ackCh)
				}
				if remote != "unknown" {
					st := NodeShardState{NodeName: "n2", Shards: map[string]ShardInfo{ClusterShardIDtoShortString(source): {ID: source, Created: time.Now()}}, Updated: time.Now()}
					b, _ := json.Marshal(st)
					sm.delegate.MergeRemoteState(b, false)
				}
				mgr := sm.GetIntraProxyManager()
				// the stream the forwarded acknowledgements arrive on comes from n3
				in := vfNewServerStream(target, source, nil)
				sender := &intraProxyStreamSender{logger: log.NewNoopLogger(), shardManager: sm, peerNodeName: "n3", targetShardID: target, sourceShardID: source, sourceStreamServer: in}
				mgr.RegisterSender("n3", target, source, sender)
				if remote == "owner-with-stream" {
					cs := &vfClientStream{ctx: context.Background(), md: metadata.MD{}, recvQ: make(chan vfItem, 1), brk: make(chan struct{})}
					cs.onSend = func(*adminservice.StreamWorkflowReplicationMessagesRequest) error { remoteN++; return nil }
					mgr.streamsMu.Lock()
					if mgr.peers["n2"] == nil {
						mgr.peers["n2"] = &peerState{receivers: map[peerStreamKey]*intraProxyStreamReceiver{}, senders: map[peerStreamKey]*intraProxyStreamSender{}}
					}
					mgr.peers["n2"].receivers[peerStreamKey{targetShard: target, sourceShard: source}] = &intraProxyStreamReceiver{logger: log.NewNoopLogger(), shardManager: sm, intraMgr: mgr, peerNodeName: "n2", targetShardID: target, sourceShardID: source, streamClient: cs}
					mgr.streamsMu.Unlock()
				}
				ackReq := func(w int64) *adminservice.StreamWorkflowReplicationMessagesRequest {
					return &adminservice.StreamWorkflowReplicationMessagesRequest{Attributes: &adminservice.StreamWorkflowReplicationMessagesRequest_SyncReplicationState{SyncReplicationState: &replicationv1.SyncReplicationState{InclusiveLowWatermark: w}}}
				}
				shutdown := channel.NewShutdownOnce()
				done := make(chan struct{})
				go func() {
					defer close(done)
					defer func() {
						if p := recover(); p != nil {
							panicked = fmt.Sprint(p)
						}
					}()
					retErr = sender.recvAck(shutdown)
					returned = true
				}()
				in.recvQ <- vfItem{req: ackReq(7)}
				synctest.Wait()
				if local == "removed-after-first" {
					sm.RemoveLocalAckChan(source, ackCh)
				}
				in.recvQ <- vfItem{req: ackReq(9)}
				synctest.Wait()
				in.recvQ <- vfItem{err: io.EOF}
				synctest.Wait()
				select {
				case <-done:
				default:
				}
				if local != "closed" {
					localN = len(ackCh)
				}
				recvCalls = in.recvCalls
				in.cancel()
				synctest.Wait()
			})
			evals++
			tc := map[string]string{"local": local, "remote": remote}
			replay := map[string]any{"part": "TestVerifC09", "forwarded_ack_case": tc}
			where := fmt.Sprintf("forwarded acknowledgements 7 and 9, then end of stream, arrive at an instance with local stream %q and remote owner %q", local, remote)
			if panicked != "" {
				res.Violate("forwarded-ack/panic", where+": "+panicked, replay)
				continue
			}
			if !returned {
				res.Violate("forwarded-ack/loop-does-not-end", where+": the receive loop has not returned after the stream ended", replay)
				continue
			}
			if remoteN != 0 {
				res.Violate("forwarded-ack/forwarded-a-second-time", fmt.Sprintf("%s: %d copies were forwarded on to another instance", where, remoteN), replay)
			}
			wantLocal := map[string]int{"present": 2, "removed-after-first": 1, "closed": 0, "absent": 0}[local]
			if localN != wantLocal {
				res.Violate("forwarded-ack/local-copies", fmt.Sprintf("%s: %d copies reached the local stream, expected %d", where, localN, wantLocal), replay)
			}
			if wantLocal == 2 {
				if retErr != nil {
					res.Violate("forwarded-ack/delivered-but-stream-ended-with-error", fmt.Sprintf("%s: %v", where, retErr), replay)
				}
				continue
			}
			nontrivial++
			// an acknowledgement could not be delivered: the stream ends with an error at that acknowledgement
			wantRecv := wantLocal + 1
			if retErr == nil || recvCalls != wantRecv {
				res.Violate("forwarded-ack/undeliverable-acknowledgement-dropped-silently", fmt.Sprintf("%s: acknowledgement no. %d had neither a local stream nor a permitted remote owner; the loop went on to read %d messages in all and ended with error %v (it must end with an error right there: that is the only report the forwarding instance gets)", where, wantLocal+1, recvCalls, retErr), replay)
			}
		}
	}
	return
}

// vfRoutingHistories: the routing clause over histories instead of single states. One instance (n1, no local
// stream for the shard) with intra-proxy streams towards n2 and n3; every sequence (depth <= 4, thorough 5) of
// ownership events as n1 sees them - a peer's state snapshot that claims the shard, one that no longer claims it,
// a peer leaving - with a message and an acknowledgement routed after EVERY event (so anything remembered from an
// earlier routing decision is exercised). Reference: the claimants are the peers whose latest state claims the
// shard and that have not left; delivery must report true with exactly one copy handed to a claimant when there
// is one, and false with nothing handed over when there is none.
func vfRoutingHistories(res *vrt.Result, depth int) (evals, nontrivial int64) {
	events := []string{"claim:n2", "claim:n3", "unclaim:n2", "unclaim:n3", "leave:n2", "leave:n3"}
	var seqs [][]string
	var rec func(cur []string, gone map[string]bool)
	rec = func(cur []string, gone map[string]bool) {
		if len(cur) > 0 {
			seqs = append(seqs, append([]string(nil), cur...))
		}
		if len(cur) == depth {
			return
		}
		for _, ev := range events {
			f := strings.Split(ev, ":")
			if gone[f[1]] {
				continue // nothing is heard from an instance after it left (a late snapshot is the known finding of the convergence clause)
			}
			g2 := map[string]bool{}
			for k, v := range gone {
				g2[k] = v
			}
			if f[0] == "leave" {
				g2[f[1]] = true
			}
			rec(append(cur, ev), g2)
		}
	}
	rec(nil, map[string]bool{})
	for _, seq := range seqs {
		mc := &config.MemberlistConfig{Enabled: true, NodeName: "n1", ProxyAddresses: map[string]string{"n1": "a1", "n2": "a2", "n3": "a3"}}
		sm := NewShardManager(mc, config.ShardCountConfig{Mode: config.ShardCountRouting}, encryption.TLSConfig{}, vfNoopLoggers()).(*shardManagerImpl)
		sm.SetupCallbacks()
		sm.started = true
		target := history.ClusterShardID{ClusterID: 2, ShardID: 1}
		source := history.ClusterShardID{ClusterID: 1, ShardID: 1}
		mgr := sm.GetIntraProxyManager()
		copies := map[string]int{}
		var cancels []func()
		for _, peer := range []string{"n2", "n3"} {
			peer := peer
			ss := vfNewServerStream(target, source, nil)
			ss.onSend = func(*adminservice.StreamWorkflowReplicationMessagesResponse) error { copies[peer]++; return nil }
			cs := &vfClientStream{ctx: context.Background(), md: metadata.MD{}, recvQ: make(chan vfItem, 1), brk: make(chan struct{})}
			cs.onSend = func(*adminservice.StreamWorkflowReplicationMessagesRequest) error { copies[peer]++; return nil }
			mgr.RegisterSender(peer, target, source, &intraProxyStreamSender{logger: log.NewNoopLogger(), shardManager: sm, peerNodeName: peer, targetShardID: target, sourceShardID: source, sourceStreamServer: ss})
			mgr.streamsMu.Lock()
			mgr.peers[peer].receivers[peerStreamKey{targetShard: target, sourceShard: source}] = &intraProxyStreamReceiver{logger: log.NewNoopLogger(), shardManager: sm, intraMgr: mgr, peerNodeName: peer, targetShardID: target, sourceShardID: source, streamClient: cs}
			mgr.streamsMu.Unlock()
			cancels = append(cancels, ss.cancel)
		}
		claims := map[string]bool{}
		for i, ev := range seq {
			f := strings.Split(ev, ":")
			switch f[0] {
			case "claim", "unclaim":
				// the peer's full state as push/pull delivers it: it claims both shards of the pair, or none
				st := NodeShardState{NodeName: f[1], Shards: map[string]ShardInfo{}, Updated: time.Now()}
				if f[0] == "claim" {
					st.Shards[ClusterShardIDtoShortString(target)] = ShardInfo{ID: target, Created: time.Now()}
					st.Shards[ClusterShardIDtoShortString(source)] = ShardInfo{ID: source, Created: time.Now()}
				}
				b, _ := json.Marshal(st)
				sm.delegate.MergeRemoteState(b, false)
				claims[f[1]] = f[0] == "claim"
			case "leave":
				(&shardEventDelegate{manager: sm, logger: log.NewNoopLogger()}).NotifyLeave(&memberlist.Node{Name: f[1]})
				delete(claims, f[1])
			}
			var claimants []string
			for p, c := range claims {
				if c {
					claimants = append(claimants, p)
				}
			}
			sort.Strings(claimants)
			for _, kind := range []string{"message", "ack"} {
				before := map[string]int{"n2": copies["n2"], "n3": copies["n3"]}
				var got bool
				var panicked string
				func() {
					defer func() {
						if p := recover(); p != nil {
							panicked = fmt.Sprint(p)
						}
					}()
					shutdown := channel.NewShutdownOnce()
					if kind == "message" {
						got = sm.DeliverMessagesToShardOwner(target, &RoutedMessage{SourceShard: source, Resp: &adminservice.StreamWorkflowReplicationMessagesResponse{}}, shutdown, log.NewNoopLogger())
					} else {
						got = sm.DeliverAckToShardOwner(source, &RoutedAck{TargetShard: target, Req: &adminservice.StreamWorkflowReplicationMessagesRequest{}}, shutdown, log.NewNoopLogger(), 7, true)
					}
				}()
				evals++
				replay := map[string]any{"part": "TestVerifC09", "routing_history": seq[:i+1], "kind": kind}
				where := fmt.Sprintf("events %v, then a %s for the shard (claimants as n1 was told: %v)", seq[:i+1], kind, claimants)
				if panicked != "" {
					res.Violate("routing-history/panic/"+kind, where+": "+panicked, replay)
					continue
				}
				delta := map[string]int{"n2": copies["n2"] - before["n2"], "n3": copies["n3"] - before["n3"]}
				total := delta["n2"] + delta["n3"]
				isClaimant := func(p string) bool { return claims[p] }
				switch {
				case len(claimants) == 0:
					nontrivial++
					if got || total != 0 {
						res.Violate("routing-history/handed-to-an-instance-that-does-not-own/"+kind, fmt.Sprintf("%s: no instance owns the shard, yet the call returned %v and handed over copies %v", where, got, delta), replay)
					}
				default:
					if got && total != 1 {
						res.Violate("routing-history/reported-delivered-but-"+fmt.Sprint(total)+"-copies/"+kind, fmt.Sprintf("%s: returned true, copies %v", where, delta), replay)
					}
					if !got && total != 0 {
						res.Violate("routing-history/reported-undelivered-but-handed-over/"+kind, fmt.Sprintf("%s: returned false, copies %v", where, delta), replay)
					}
					if !got {
						res.Violate("routing-history/known-remote-owner-not-used/"+kind, fmt.Sprintf("%s: an owner with a live stream is known, the call returned false", where), replay)
					}
					for _, p := range []string{"n2", "n3"} {
						if delta[p] > 0 && !isClaimant(p) {
							res.Violate("routing-history/handed-to-an-instance-that-does-not-own/"+kind, fmt.Sprintf("%s: a copy went to %s, which does not own the shard (any more)", where, p), replay)
						}
					}
				}
			}
		}
		for _, c := range cancels {
			c()
		}
	}
	return
}

var vfT *testing.T

func TestVerifC09(t *testing.T) {
	vfT = t
	res := vrt.NewResult("C09", "model_checking")
	defer func() {
		if err := res.Write(); err != nil {
			t.Fatal(err)
		}
	}()
	if p := vrt.ReplayPath(); p != "" {
		raw, _ := os.ReadFile(p)
		var job vfC09Job
		_ = json.Unmarshal(raw, &job)
		if len(job.Path) > 0 || job.Cfg.N > 0 {
			_, _, viol, err := vfRunC09(job)
			t.Logf("replay: err=%v viol=%v", err, viol)
			for _, v := range viol {
				res.Violate(v.Signature, v.Detail, job)
			}
		} else {
			vfRoutingTable(res)
			vfForwardedAckTable(res)
			vfRoutingHistories(res, 4)
		}
		return
	}
	cfgs := []vfC09Cfg{{N: 2, Shards: 1, MaxApp: 3, MaxSnaps: 1, Leaves: 1}, {N: 2, Shards: 2, MaxApp: 2, MaxSnaps: 0, Leaves: 0}, {N: 3, Shards: 1, MaxApp: 2, MaxSnaps: 0, Leaves: 1},
		{N: 2, Shards: 2, MaxApp: 2, MaxSnaps: 1, Leaves: 0, Preset: true}, {N: 2, Shards: 1, MaxApp: 2, MaxSnaps: 1, Leaves: 1, Rejoin: true}}
	if vrt.Thorough() {
		cfgs = []vfC09Cfg{{N: 2, Shards: 2, MaxApp: 3, MaxSnaps: 2, Leaves: 1}, {N: 3, Shards: 1, MaxApp: 3, MaxSnaps: 2, Leaves: 1}, {N: 3, Shards: 2, MaxApp: 3, MaxSnaps: 1, Leaves: 1},
			{N: 2, Shards: 2, MaxApp: 3, MaxSnaps: 1, Leaves: 1, Preset: true}, {N: 3, Shards: 2, MaxApp: 2, MaxSnaps: 0, Leaves: 0, Preset: true},
			{N: 2, Shards: 2, MaxApp: 3, MaxSnaps: 1, Leaves: 1, Rejoin: true}, {N: 3, Shards: 1, MaxApp: 2, MaxSnaps: 1, Leaves: 1, Rejoin: true}}
	}
	deadline := vrt.Deadline()
	var states, transitions int64
	exhaustive := true
	var summary []string
	for _, cfg := range cfgs {
		seen := map[[20]byte]bool{}
		type node struct {
			path    []string
			enabled []string
		}
		k0, en0, v0, _ := vfRunC09(vfC09Job{Cfg: cfg})
		for _, v := range v0 {
			res.Violate(v.Signature, v.Detail, vfC09Job{Cfg: cfg})
		}
		seen[sha1.Sum([]byte(k0))] = true
		frontier := []node{{nil, en0}}
		depth := 0
		// levels are processed in chunks (bounded memory, deadline and state cap checked between chunks); workers return
		// the digest of the state key, not the key
		const chunk = 20000
		maxStates := 400000
		if vrt.Thorough() {
			maxStates = 2500000
		}
		stopped := false
		for len(frontier) > 0 && !stopped {
			depth++
			var next []node
			fi, ai := 0, 0 // position in the frontier: node index, action index
			for fi < len(frontier) && !stopped {
				if time.Now().After(deadline) || len(seen) > maxStates {
					exhaustive = false
					stopped = true
					break
				}
				var items [][]string
				for fi < len(frontier) && len(items) < chunk {
					nd := frontier[fi]
					for ai < len(nd.enabled) && len(items) < chunk {
						items = append(items, append(append([]string(nil), nd.path...), nd.enabled[ai]))
						ai++
					}
					if ai >= len(nd.enabled) {
						fi, ai = fi+1, 0
					}
				}
				type outT struct {
					h    [20]byte
					en   []string
					viol []vfViolation
					err  error
				}
				outs := make([]outT, len(items))
				var wg sync.WaitGroup
				ch := make(chan int, 1024)
				for w := 0; w < vrt.Workers(); w++ {
					wg.Add(1)
					go func() {
						defer wg.Done()
						for i := range ch {
							k, en, viol, err := vfRunC09(vfC09Job{Cfg: cfg, Path: items[i]})
							outs[i] = outT{sha1.Sum([]byte(k)), en, viol, err}
						}
					}()
				}
				for i := range items {
					ch <- i
				}
				close(ch)
				wg.Wait()
				for i, o := range outs {
					p := items[i]
					transitions++
					if o.err != nil {
						res.Set("harness_error", o.err.Error())
						exhaustive = false
						continue
					}
					for _, v := range o.viol {
						res.Violate(v.Signature, fmt.Sprintf("%d instances, %d shard(s), actions %v: %s", cfg.N, cfg.Shards, p, v.Detail), vfC09Job{Cfg: cfg, Path: p})
					}
					if seen[o.h] {
						continue
					}
					seen[o.h] = true
					next = append(next, node{p, o.en})
				}
			}
			frontier = next
		}
		if stopped {
			summary = append(summary, fmt.Sprintf("%+v: stopped at depth %d (deadline or state cap %d)", cfg, depth, maxStates))
		}
		states += int64(len(seen))
		summary = append(summary, fmt.Sprintf("%+v: %d states, depth %d", cfg, len(seen), depth))
	}
	rEvals, rNon := vfRoutingTable(res)
	fEvals, fNon := vfForwardedAckTable(res)
	res.Set("forwarded_ack_cases", fEvals)
	res.Set("forwarded_ack_cases_undeliverable", fNon)
	hDepth := 4
	if vrt.Thorough() {
		hDepth = 5
	}
	hEvals, hNon := vfRoutingHistories(res, hDepth)
	res.Set("routing_history_deliveries", hEvals)
	res.Set("routing_history_deliveries_with_no_owner", hNon)
	res.Set("states", states)
	res.Set("transitions", transitions)
	res.Set("traces_validated_against_impl", transitions)
	res.Set("convergence_configurations", summary)
	res.Set("routing_table_cases", rEvals)
	res.Set("routing_table_cases_undelivered_or_inconsistent", rNon)
	res.Set("exhaustive", exhaustive)
	res.Set("explanation", "convergence: every transition calls the real RegisterShard / UnregisterShard / shardDelegate.NotifyMsg / MergeRemoteState / LocalState / shardEventDelegate.NotifyLeave of 2-3 real shardManagerImpl instances; announcements, state snapshots and leave notifications are in-flight objects the explorer delivers in every order, at most one duplicate each; from every state everything in flight is delivered, live pairs exchange fresh state, and the ownership oracle is evaluated. routing: every combination of {local stream present, closed-but-registered, absent, replaced by a second stream whose predecessor's cleanup ran afterwards} x {remote owner with stream, owner's peer known without a stream for this pair, owner's peer with streams in both directions for sibling pairs only (other target / other source), owner without any peer state, unknown, owner without a configured address} x {message, ack with forwarding, ack without} through the real DeliverMessagesToShardOwner / DeliverAckToShardOwner with fake intra-proxy streams; routing histories: every sequence (depth 4, thorough 5) of {a peer's snapshot claims the shard, no longer claims it, a peer leaves} for two peers with live intra-proxy streams, a message and an ack routed after every event: exactly one copy to a current claimant, or reported undelivered when there is none; forwarded acknowledgements: the real intraProxyStreamSender.recvAck loop on a scripted stream (two acknowledgements, end of stream) x {local stream present, removed after the first, closed, absent} x {remote owner with a stream, owner without peer state, unknown}: handed to the local stream, never forwarded again, and the stream ends with an error at the first acknowledgement nobody takes")
	res.Sample(summary)
	res.Assume("the sending half of an announcement (broadcastShardChange needs a live memberlist) is transcribed: one message per instance listed in the sender's remoteNodeStates, stamped with a strictly increasing clock at broadcast time; memberlist itself (reliable send, push/pull, leave detection) is the environment")
	res.Assume("one clock for all instances (no skew); a claim (RegisterShard + creating its announcements) is an atomic step; every instance knows every other before the first claim")
}
