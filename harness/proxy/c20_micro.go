//go:build verif

package proxy

// C20 micro level: the stream-open bookkeeping (ReplicationStreamObserver.ReportStreamValue, as the handler calls
// it on open and on close) of several streams under the cooperative scheduler. Scheduling points: the grow lock
// and every counter update (rewriter rule "atomics": between taking the counter's address and adding to it), so
// a table reallocation by one stream is interleaved with the bookkeeping of the others at every such point.
// Oracle: the indexes shown as active are exactly those of the streams still open.

import (
	"encoding/json"
	"fmt"
	"os"
	"sort"
	"testing"
	"time"

	"go.temporal.io/server/common/log"

	vrt "github.com/temporalio/s2s-proxy/internal/verifrt"
)

type vfObsThread struct {
	name string
	ops  [][2]int32 // (index, +1 / -1) in order
}

func vfObserverMicro(threads []vfObsThread) func(s *vrt.Sched) (string, string, string) {
	return func(s *vrt.Sched) (sig, detail, outcome string) {
		vrt.ResetLocks()
		obs := NewReplicationStreamObserver(log.NewNoopLogger())
		net := map[int32]int32{}
		for _, th := range threads {
			th := th
			for _, op := range th.ops {
				net[op[0]] += op[1]
			}
			s.Spawn(th.name, func() {
				for _, op := range th.ops {
					obs.ReportStreamValue(op[0], op[1])
				}
			})
		}
		s.Run()
		if s.Deadlock != "" {
			return "stream-bookkeeping-lock-never-released", s.Deadlock, "deadlock"
		}
		var want []int
		for idx, n := range net {
			if n != 0 {
				want = append(want, int(idx))
			}
		}
		sort.Ints(want)
		ws := "["
		for _, w := range want {
			ws += fmt.Sprintf("%d,", w)
		}
		ws += "]"
		got := obs.PrintActiveStreams()
		if got != ws {
			return "active-stream-bookkeeping-wrong/concurrent-streams", fmt.Sprintf("streams %+v: PrintActiveStreams()=%s, the streams still open are %s", threads, got, ws), got
		}
		return "", "", got
	}
}

func vfC20MicroScenarios() map[string]func(s *vrt.Sched) (string, string, string) {
	return map[string]func(s *vrt.Sched) (string, string, string){
		// stream 7 opens and closes while stream 2000 (beyond the initial table of 1024) opens and closes
		"open-close-vs-growing-open-close": vfObserverMicro([]vfObsThread{{"s7", [][2]int32{{7, 1}, {7, -1}}}, {"s2000", [][2]int32{{2000, 1}, {2000, -1}}}}),
		// stream 7 stays open
		"open-vs-growing-open-close": vfObserverMicro([]vfObsThread{{"s7", [][2]int32{{7, 1}}}, {"s2000", [][2]int32{{2000, 1}, {2000, -1}}}}),
		// two streams that both grow the table, one more that does not
		"two-growing-opens": vfObserverMicro([]vfObsThread{{"s2000", [][2]int32{{2000, 1}}}, {"s5000", [][2]int32{{5000, 1}, {5000, -1}}}, {"s7", [][2]int32{{7, 1}, {7, -1}}}}),
		// two incarnations of the same shard index
		"same-index-twice": vfObserverMicro([]vfObsThread{{"s7a", [][2]int32{{7, 1}, {7, -1}}}, {"s7b", [][2]int32{{7, 1}}}, {"s3000", [][2]int32{{3000, 1}, {3000, -1}}}}),
	}
}

func TestVerifC20Micro(t *testing.T) {
	scenarios := vfC20MicroScenarios()
	if vrt.IsWorker() {
		vrt.ServeShards(t, scenarios)
		return
	}
	res := vrt.NewResult("C20", "model_checking")
	defer func() {
		if err := res.Write(); err != nil {
			t.Fatal(err)
		}
	}()
	if p := vrt.ReplayPath(); p != "" {
		var rp vfC08Replay
		raw, _ := os.ReadFile(p)
		_ = json.Unmarshal(raw, &rp)
		if body, ok := scenarios[rp.Scenario]; ok {
			ex := vrt.RunSchedule(t, rp.Choices, 2000, body)
			t.Logf("replay %s: sig=%q\n%s", rp.Scenario, ex.Signature, ex.Violation)
			if ex.Signature != "" {
				res.Violate("micro/"+ex.Signature, ex.Violation, rp)
			}
		}
		return
	}
	bound := 3
	if vrt.Thorough() {
		bound = 5
	}
	deadline := vrt.Deadline()
	pool := vrt.NewPool("TestVerifC20Micro", vrt.Workers(), 10*time.Minute)
	names := make([]string, 0, len(scenarios))
	for n := range scenarios {
		names = append(names, n)
	}
	sort.Strings(names)
	var schedules, decisions int64
	exhaustive := true
	var summary []string
	for _, name := range names {
		st, viols := vrt.ExploreSharded(t, pool, name, bound, 2000, deadline, scenarios[name])
		perSig := map[string]int{}
		for _, v := range viols {
			perSig[v.Signature]++
			if perSig[v.Signature] > 2 {
				continue
			}
			res.Violate("micro/"+v.Signature, fmt.Sprintf("micro scenario %s, schedule %v: %s", name, v.Choices, v.Detail), vfC08Replay{name, v.Choices})
		}
		schedules += st.Executions
		decisions += st.Decisions
		exhaustive = exhaustive && st.Exhaustive
		summary = append(summary, fmt.Sprintf("%s: %d schedules, <=%d decisions, %d outcomes", name, st.Executions, st.MaxPoints, len(st.Outcomes)))
		if len(st.HarnessErrors) > 0 {
			res.Set("micro_harness_errors_"+name, st.HarnessErrors[:1])
		}
	}
	res.Set("states", schedules)
	res.Set("transitions", decisions)
	res.Set("traces_validated_against_impl", schedules)
	res.Set("micro_schedules", schedules)
	res.Set("micro_preemption_bound_completed", int64(bound))
	res.Set("micro_scenarios", summary)
	res.Set("exhaustive", exhaustive)
	res.Sample(summary[:2])
	res.Assume("micro level: scheduling points at the grow lock and between taking a counter's address and adding to it (rule atomics); other memory-model effects are not modelled")
}
