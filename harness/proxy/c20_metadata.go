//go:build verif

package proxy

// C20: stream-open metadata. Real adminServiceProxyServer.StreamWorkflowReplicationMessages with the real
// ReplicationStreamObserver (its lock calls rewritten to the parking shims, so a lock that is never
// released is an observable state) in default, LCM and routing mode. Histories: every sequence of <= k
// opens from a boundary alphabet, kept open or closed, followed by a well-formed open that must be served.

import (
	"context"
	"encoding/json"
	"fmt"
	"io"
	"os"
	"sort"
	"strings"
	"testing"
	"testing/synctest"
	"time"

	"go.temporal.io/server/api/adminservice/v1"
	"go.temporal.io/server/client/history"
	"go.temporal.io/server/common/log"
	"google.golang.org/grpc/metadata"

	"github.com/temporalio/s2s-proxy/common"
	"github.com/temporalio/s2s-proxy/config"
	"github.com/temporalio/s2s-proxy/encryption"
	vrt "github.com/temporalio/s2s-proxy/internal/verifrt"
)

const vfMissing = "<missing>"

type vfOpen struct {
	ClientCluster string `json:"cc"`
	ClientShard   string `json:"cs"`
	ServerCluster string `json:"sc"`
	ServerShard   string `json:"ss"`
	Keep          bool   `json:"keep"` // leave the stream open while the next one is opened
	// Refused: the cluster behind the proxy refuses the stream the proxy opens in return for this one (it validates the
	// shard ids itself): that stream fails right after it was opened
	Refused bool `json:"refused,omitempty"`
	// Intra: the open carries the intra-proxy headers (a peer proxy instance forwarding a stream: its own stream mode)
	Intra bool `json:"intra,omitempty"`
}

type vfC20Job struct {
	Mode  string   `json:"mode"`
	Opens []vfOpen `json:"opens"`
}

type vfC20Out struct {
	Viol    []vfViolation `json:"viol,omitempty"`
	Outcome string        `json:"outcome"`
	Err     string        `json:"err,omitempty"`
}

func vfMDStream(o vfOpen) *vfServerStream {
	md := metadata.New(map[string]string{})
	set := func(k, v string) {
		if v != vfMissing {
			md.Set(k, v)
		}
	}
	set(history.MetadataKeyClientClusterID, o.ClientCluster)
	set(history.MetadataKeyClientShardID, o.ClientShard)
	set(history.MetadataKeyServerClusterID, o.ServerCluster)
	set(history.MetadataKeyServerShardID, o.ServerShard)
	if o.Intra {
		md.Set(common.IntraProxyHeaderKey, common.IntraProxyHeaderValue)
		md.Set(common.IntraProxyOriginProxyIDHeader, "peer-proxy")
		md.Set(common.IntraProxyHopCountHeader, "1")
	}
	ctx, cancel := context.WithCancel(metadata.NewIncomingContext(context.Background(), md))
	return &vfServerStream{ctx: ctx, cancel: cancel, recvQ: make(chan vfItem, 16), brk: make(chan struct{})}
}

func vfRunC20(t *testing.T, job *vfC20Job) (out vfC20Out) {
	done := make(chan struct{})
	go func() {
		defer close(done)
		defer func() {
			if p := recover(); p != nil {
				out.Err = fmt.Sprintf("bubble: %v", p)
			}
		}()
		vrt.ResetLocks()
		synctest.Test(t, func(t *testing.T) {
			var viol []vfViolation
			violate := func(sig, detail string) { viol = append(viol, vfViolation{"C20", sig, detail}) }
			lifetime, stop := context.WithCancel(context.Background())
			observer := NewReplicationStreamObserver(log.NewNoopLogger())
			var clientStreams []*vfClientStream
			refuseNext := false
			client := &vfAdminClient{onOpen: func(cs *vfClientStream) error {
				clientStreams = append(clientStreams, cs)
				if refuseNext {
					refuseNext = false
					cs.breakNow() // the first Recv on it reports the refusal
				}
				return nil
			}}
			scc := config.ShardCountConfig{}
			lcm := LCMParameters{}
			rp := RoutingParameters{}
			var sm ShardManager
			switch job.Mode {
			case "lcm":
				scc = config.ShardCountConfig{Mode: config.ShardCountLCM, LocalShardCount: 2, RemoteShardCount: 3}
				lcm = LCMParameters{LCM: 6, TargetShardCount: 3}
			case "routing":
				scc = config.ShardCountConfig{Mode: config.ShardCountRouting, LocalShardCount: 2, RemoteShardCount: 3}
				rp = RoutingParameters{OverrideShardCount: 2, RoutingLocalShardCount: 3, DirectionLabel: "outbound"}
				sm = NewShardManager(nil, scc, encryption.TLSConfig{}, vfNoopLoggers())
				_ = sm.Start(lifetime)
			case "routing-with-peers":
				// routing mode on an instance that is part of a memberlist cluster (it has an intra-proxy manager); what Start
				// does minus opening memberlist sockets
				scc = config.ShardCountConfig{Mode: config.ShardCountRouting, LocalShardCount: 2, RemoteShardCount: 3}
				rp = RoutingParameters{OverrideShardCount: 2, RoutingLocalShardCount: 3, DirectionLabel: "outbound"}
				mc := &config.MemberlistConfig{Enabled: true, NodeName: "n1", ProxyAddresses: map[string]string{"n1": "verif-n1:7233", "peer-proxy": "verif-n2:7233"}}
				smi := NewShardManager(mc, scc, encryption.TLSConfig{}, vfNoopLoggers()).(*shardManagerImpl)
				smi.SetupCallbacks()
				smi.started = true
				sm = smi
			}
			srv := NewAdminServiceProxyServer("c20", client, client, AdminServiceOverrides{}, []string{"x"}, observer.ReportStreamValue, scc, lcm, rp, vfNoopLoggers(), sm, lifetime)
			type live struct {
				ss    *vfServerStream
				open  vfOpen
				ended bool
				err   error
			}
			var streams []*live
			start := func(o vfOpen) *live {
				refuseNext = o.Refused
				l := &live{ss: vfMDStream(o), open: o}
				streams = append(streams, l)
				go func() {
					defer func() {
						if p := recover(); p != nil {
							violate("panic-escapes-handler", fmt.Sprintf("open %+v: %v", o, p))
						}
						l.ended = true
						l.ss.returned = true
						l.ss.cancel()
					}()
					l.err = srv.StreamWorkflowReplicationMessages(l.ss)
				}()
				synctest.Wait()
				return l
			}
			blocked := func(when string) bool {
				if b := vrt.BlockedLockers(); len(b) > 0 {
					violate("stream-bookkeeping-lock-never-released", fmt.Sprintf("%s: %v", when, b))
					return true
				}
				return false
			}
			printActive := func() (string, bool) {
				gotCh := make(chan string, 1)
				go func() { gotCh <- observer.PrintActiveStreams() }()
				synctest.Wait()
				select {
				case got := <-gotCh:
					return got, true
				default:
					blocked("in PrintActiveStreams")
					return "", false
				}
			}
			var outcome []string
			wedged := false
			for _, o := range job.Opens {
				l := start(o)
				if blocked(fmt.Sprintf("after open %+v", o)) {
					wedged = true
					break
				}
				outcome = append(outcome, fmt.Sprintf("ended=%v err=%v", l.ended, l.err != nil))
				if l.ended && l.err == nil && !o.Intra && !o.Refused {
					// nobody ended this stream (the initiator sent nothing and did not hang up, no source stream ended): a
					// handler that returns at once without an error closes the stream with status OK - neither served nor rejected
					violate("stream-neither-served-nor-rejected", fmt.Sprintf("open %+v: the handler returned at once without an error (the initiator sees a clean end of stream)", o))
				}
				if o.Refused && strings.HasPrefix(job.Mode, "routing") && !l.ended {
					// the stream the proxy opened in return was refused: the proxy cannot serve this stream, so it ends it - by
					// itself, the initiator neither sends anything nor hangs up
					time.Sleep(2 * time.Second)
					synctest.Wait()
					if !l.ended && !blocked("after the refusal") {
						violate("stream-neither-served-nor-ended", fmt.Sprintf("open %+v: the stream the proxy opened in return was refused; 2 s later the handler is still running although nothing can be relayed on it", o))
					}
				}
				if !o.Keep && !l.ended {
					l.ss.cancel()
					synctest.Wait()
					time.Sleep(2 * time.Second)
					synctest.Wait()
					if !l.ended {
						violate("stream-does-not-end", fmt.Sprintf("open %+v: handler still running 2 s after the initiator's context was cancelled", o))
					}
				}
			}
			if !wedged {
				// the well-formed stream must be served normally
				nClient := len(clientStreams)
				good := start(vfOpen{ClientCluster: "2", ClientShard: "7", ServerCluster: "1", ServerShard: "7", Keep: true})
				if !blocked("after the well-formed open") {
					if good.ended {
						violate("well-formed-stream-refused", fmt.Sprintf("after opens %+v the well-formed stream ended at once: %v", job.Opens, good.err))
					} else if !strings.HasPrefix(job.Mode, "routing") {
						if len(clientStreams) != nClient+1 {
							violate("well-formed-stream-not-served", "no stream was opened towards the source for the well-formed open")
						} else {
							cs := clientStreams[nClient]
							var gotResp, gotAck int
							good.ss.onSend = func(*adminservice.StreamWorkflowReplicationMessagesResponse) error { gotResp++; return nil }
							cs.onSend = func(*adminservice.StreamWorkflowReplicationMessagesRequest) error { gotAck++; return nil }
							cs.deliver(vfItem{resp: vfFwdResp(0)})
							good.ss.deliver(vfItem{req: vfFwdAck(0)})
							synctest.Wait()
							if gotResp != 1 || gotAck != 1 {
								violate("well-formed-stream-not-served", fmt.Sprintf("relayed %d responses and %d acks, want 1 and 1", gotResp, gotAck))
							}
							// the other streams end one by one: the well-formed stream keeps being served after each of them
							for _, l := range streams {
								if l == good || l.ended {
									continue
								}
								l.ss.cancel()
								synctest.Wait()
								time.Sleep(2 * time.Second)
								synctest.Wait()
								if blocked(fmt.Sprintf("after the stream %+v ended next to the well-formed one", l.open)) {
									break
								}
								r0, a0 := gotResp, gotAck
								cs.deliver(vfItem{resp: vfFwdResp(0)})
								good.ss.deliver(vfItem{req: vfFwdAck(0)})
								synctest.Wait()
								if gotResp != r0+1 || gotAck != a0+1 {
									violate("well-formed-stream-disturbed-by-another-stream-ending", fmt.Sprintf("after the stream %+v ended, the well-formed stream relayed %d responses and %d acks of 1 and 1 (ended=%v)", l.open, gotResp-r0, gotAck-a0, good.ended))
									break
								}
							}
						}
					} else if len(sm.GetLocalShards()) == 0 {
						violate("well-formed-stream-not-served", "routing mode: the well-formed stream did not register its shard")
					}
					// bookkeeping of the well-formed stream is intact: its index is shown while it is live, and
					// every index shown belongs to some live stream (read as written or as the int32 Temporal decodes)
					allowed := map[string]bool{}
					for _, l := range streams {
						if !l.ended {
							var n int64
							if _, err := fmt.Sscan(l.open.ServerShard, &n); err == nil {
								allowed[fmt.Sprint(n)] = true
								allowed[fmt.Sprint(int32(n))] = true
							}
						}
					}
					if got, ok := printActive(); ok {
						shown := strings.Split(strings.Trim(got, "[],"), ",")
						has7 := false
						for _, x := range shown {
							if x == "7" {
								has7 = true
							}
							if x != "" && !allowed[x] {
								violate("active-stream-bookkeeping-wrong", fmt.Sprintf("opens %+v then well-formed: PrintActiveStreams()=%s shows index %s which no live stream has", job.Opens, got, x))
							}
						}
						if !has7 {
							violate("active-stream-bookkeeping-wrong", fmt.Sprintf("opens %+v then well-formed: PrintActiveStreams()=%s does not show the live well-formed stream 7", job.Opens, got))
						}
					}
				}
			}
			// teardown: the lifetime of the connection ends; in routing mode the handlers end with it, without waiting for
			// their initiators to hang up
			stop()
			if strings.HasPrefix(job.Mode, "routing") && !wedged {
				synctest.Wait()
				time.Sleep(2 * time.Second)
				synctest.Wait()
				for _, l := range streams {
					if !l.ended && !l.open.Intra && len(vrt.BlockedLockers()) == 0 {
						violate("stream-outlives-the-connection", fmt.Sprintf("open %+v: 2 s after the connection's lifetime ended the handler is still running (its initiator has not hung up)", l.open))
					}
				}
			}
			for _, l := range streams {
				l.ss.cancel()
			}
			for _, cs := range clientStreams {
				cs.breakNow()
			}
			synctest.Wait()
			time.Sleep(5 * time.Second)
			synctest.Wait()
			if len(vrt.BlockedLockers()) == 0 {
				// every stream has ended: nothing may remain counted as active
				if got, ok := printActive(); ok && got != "[]" {
					violate("active-stream-bookkeeping-wrong", fmt.Sprintf("opens %+v then well-formed, all streams ended: PrintActiveStreams()=%s, want []", job.Opens, got))
				}
			}
			out.Viol = viol
			out.Outcome = strings.Join(outcome, ";")
			// goroutines parked on a dead lock can never finish: make them exit so the bubble can end
			vrt.AbandonBlockedLockers()
			synctest.Wait()
		})
	}()
	<-done
	if len(out.Viol) > 0 && strings.Contains(out.Err, "blocked goroutines remain") {
		out.Err = ""
	}
	return out
}

var vfC20ServerShardAlphabet = []string{"-2147483648", "-1", "0", "1", "1023", "1024", "1025", "16384", "65536", "1048575", "1048576", "16777216",
	"238609293", "238609294", "477218588", "477218589", "2147483647", "2147483648", "4294967297", "", "abc", "1.5", "123456789012345678901234567890", vfMissing}
var vfC20OtherAlphabet = []string{"-2147483648", "-1", "0", "1", "65536", "2147483647", "2147483648", "", "abc", vfMissing}
var vfC20PairAlphabet = []string{"-1", "1024", "1025", "65536", "238609294", "477218588", "2147483647", "abc"}

func vfC20Histories(thorough bool) []vfC20Job {
	var jobs []vfC20Job
	good := vfOpen{ClientCluster: "2", ClientShard: "3", ServerCluster: "1", ServerShard: "3"}
	for _, mode := range []string{"default", "lcm", "routing", "routing-with-peers"} {
		for _, keep := range []bool{false, true} {
			for _, v := range vfC20ServerShardAlphabet {
				o := good
				o.ServerShard, o.Keep = v, keep
				jobs = append(jobs, vfC20Job{Mode: mode, Opens: []vfOpen{o}})
			}
			for _, v := range vfC20OtherAlphabet {
				for k := 0; k < 3; k++ {
					o := good
					o.Keep = keep
					switch k {
					case 0:
						o.ClientCluster = v
					case 1:
						o.ClientShard = v
					case 2:
						o.ServerCluster = v
					}
					jobs = append(jobs, vfC20Job{Mode: mode, Opens: []vfOpen{o}})
				}
			}
			// streams that share the server shard (the index all bookkeeping is keyed on) with the well-formed stream
			// opened afterwards, from the same and from other client shards
			for _, cs := range []string{"1", "5"} {
				o := good
				o.ServerShard, o.ClientShard, o.Keep = "7", cs, keep
				jobs = append(jobs, vfC20Job{Mode: mode, Opens: []vfOpen{o}})
				o2 := o
				o2.ClientShard = "2"
				jobs = append(jobs, vfC20Job{Mode: mode, Opens: []vfOpen{o, o2}})
			}
			// pairs on the index the bookkeeping uses, and on both shard ids together
			for _, a := range vfC20PairAlphabet {
				for _, b := range vfC20PairAlphabet {
					o1, o2 := good, good
					o1.ServerShard, o1.Keep = a, keep
					o2.ServerShard, o2.Keep = b, keep
					jobs = append(jobs, vfC20Job{Mode: mode, Opens: []vfOpen{o1, o2}})
					o3 := good
					o3.ServerShard, o3.ClientShard, o3.Keep = a, b, keep
					jobs = append(jobs, vfC20Job{Mode: mode, Opens: []vfOpen{o3}})
				}
			}
			if strings.HasPrefix(mode, "routing") {
				// the intra-proxy stream mode: an ordinary stream is up (its client shard is local to this instance), then a
				// peer instance opens a forwarded stream for that shard with every kind of id on its own side - equal and
				// different cluster ids included; the forwarded stream ends when its initiator goes away
				base := good
				base.Keep = true
				for _, cc := range []string{"2", "1", "0", "-1", "abc", vfMissing} {
					for _, cs := range []string{"9", "3", "0", "-1", "65536", "abc"} {
						in := vfOpen{ClientCluster: cc, ClientShard: cs, ServerCluster: "2", ServerShard: "3", Keep: keep, Intra: true}
						jobs = append(jobs, vfC20Job{Mode: mode, Opens: []vfOpen{base, in}})
						in2 := vfOpen{ClientCluster: "2", ClientShard: "3", ServerCluster: cc, ServerShard: cs, Keep: keep, Intra: true}
						jobs = append(jobs, vfC20Job{Mode: mode, Opens: []vfOpen{base, in2}})
					}
				}
				// the cluster behind the proxy refuses the stream opened in return (out-of-range ids on its side)
				for _, cs := range []string{"3", "0", "-1", "9", "2147483647", "-2147483648"} {
					o := good
					o.ClientShard, o.Keep, o.Refused = cs, keep, true
					jobs = append(jobs, vfC20Job{Mode: mode, Opens: []vfOpen{o}})
				}
				// a stream-open that reuses the ids of a stream that is still up (a reconnect overtaking the teardown, a
				// bogus duplicate)
				dup := good
				dup.Keep = true
				jobs = append(jobs, vfC20Job{Mode: mode, Opens: []vfOpen{dup, dup}})
				dup2 := dup
				dup2.Keep = keep
				jobs = append(jobs, vfC20Job{Mode: mode, Opens: []vfOpen{dup, dup2, dup2}})
			}
			if thorough {
				for _, a := range vfC20PairAlphabet {
					for _, b := range vfC20PairAlphabet {
						for _, c := range vfC20PairAlphabet {
							o1, o2, o3 := good, good, good
							o1.ServerShard, o1.Keep = a, keep
							o2.ServerShard, o2.Keep = b, !keep
							o3.ServerShard, o3.Keep = c, keep
							jobs = append(jobs, vfC20Job{Mode: mode, Opens: []vfOpen{o1, o2, o3}})
						}
					}
				}
			}
		}
	}
	return jobs
}

func TestVerifC20(t *testing.T) {
	if vrt.IsWorker() {
		vrt.ServeWorker(func(js string) string {
			var job vfC20Job
			if err := json.Unmarshal([]byte(js), &job); err != nil {
				return `{"err":"bad job"}`
			}
			out := vfRunC20(t, &job)
			b, _ := json.Marshal(out)
			return string(b)
		})
		return
	}
	res := vrt.NewResult("C20", "model_checking")
	defer func() {
		if err := res.Write(); err != nil {
			t.Fatal(err)
		}
	}()
	if p := vrt.ReplayPath(); p != "" {
		raw, _ := os.ReadFile(p)
		var job vfC20Job
		if err := json.Unmarshal(raw, &job); err != nil {
			t.Fatal(err)
		}
		out := vfRunC20(t, &job)
		for _, v := range out.Viol {
			res.Violate(v.Signature, v.Detail, job)
		}
		t.Logf("replay: %+v", out)
		return
	}
	const memLimitKB = 6 << 20 // 6 GiB of address space per worker
	pool := vrt.NewPool("TestVerifC20", vrt.Workers(), 60*time.Second)
	pool.MemLimitKB = memLimitKB
	jobsT := vfC20Histories(vrt.Thorough())
	jobs := make([]string, len(jobsT))
	for i, j := range jobsT {
		b, _ := json.Marshal(j)
		jobs[i] = string(b)
	}
	outcomes := map[string]bool{}
	var harnessErrs []string
	rejected := map[string]bool{}
	results := pool.Map(jobs, nil)
	for i, r := range results {
		job := jobsT[i]
		if r.TimedOut {
			// a wall-clock watchdog is never a verdict (a wedge is detected by the lock shim as a state)
			harnessErrs = append(harnessErrs, fmt.Sprintf("worker watchdog expired on %+v", job))
			continue
		}
		if r.Crashed {
			kind := "process-crash"
			tail := r.Stderr
			if len(tail) > 1500 {
				tail = tail[len(tail)-1500:]
			}
			res.Violate(kind+"/"+vfC20Class(job), fmt.Sprintf("mode %s opens %+v: worker %s (address-space limit %d KiB)\n%s", job.Mode, job.Opens, kind, memLimitKB, tail), job)
			continue
		}
		var out vfC20Out
		if err := json.Unmarshal([]byte(r.Out), &out); err != nil {
			harnessErrs = append(harnessErrs, "bad output: "+r.Out)
			continue
		}
		if out.Err != "" {
			harnessErrs = append(harnessErrs, fmt.Sprintf("%s on %+v", out.Err, job))
			continue
		}
		for _, v := range out.Viol {
			res.Violate(v.Signature+"/"+vfC20Class(job), fmt.Sprintf("mode %s: %s", job.Mode, v.Detail), job)
		}
		outcomes[job.Mode+":"+out.Outcome] = true
		if strings.Contains(out.Outcome, "err=true") {
			rejected[fmt.Sprintf("%s:%+v", job.Mode, job.Opens)] = true
		}
	}
	res.Set("states", int64(len(jobs)))
	res.Set("transitions", int64(len(jobs)))
	res.Set("traces_validated_against_impl", int64(len(jobs)))
	res.Set("evaluations", int64(len(jobs)))
	res.Set("distinct_nontrivial", int64(len(rejected)))
	res.Set("rule", "histories = sequences of stream opens over the metadata alphabet (each key over its alphabet with the others well-formed; pairs and, in thorough, triples over the boundary subset), each kept open or closed, in default/LCM/routing mode, followed by a well-formed open; non-trivial = distinct histories in which at least one open was rejected with an error")
	res.Set("distinct_outcomes", int64(len(outcomes)))
	res.Set("exhaustive", len(harnessErrs) == 0)
	res.Set("harness_errors", harnessErrs)
	res.Set("memory_limit_kib", int64(memLimitKB))
	res.Set("alphabet_server_shard", vfC20ServerShardAlphabet)
	res.Set("alphabet_other_keys", vfC20OtherAlphabet)
	res.Set("explanation", "each history is executed on the real stream handler and observer in a synctest bubble inside a worker process limited to 6 GiB of address space; a lock that is never released is detected by the parking lock shim, a process death by the worker pool")
	res.Sample(jobsT[0])
	res.Sample(jobsT[len(jobsT)/2])
	res.Sample(jobsT[len(jobsT)-1])
	res.Assume("a proxy that needs more than 6 GiB of address space to open one stream counts as crashed")
	_ = io.EOF
}

// vfC20Class names the input class of a history for violation signatures (so that a known finding on
// one class does not hide another).
func vfC20Class(j vfC20Job) string {
	cls := map[string]bool{}
	for _, o := range j.Opens {
		var n int64
		if _, err := fmt.Sscan(o.ServerShard, &n); err != nil || o.ServerShard == vfMissing {
			cls["server-shard-non-numeric"] = true
			continue
		}
		switch {
		case n < 0:
			cls["server-shard-negative"] = true
		case n < 1024:
			cls["server-shard-small"] = true
		case n < 238609294:
			cls["server-shard-1024..238609293"] = true
		case n <= 2147483647:
			cls["server-shard-238609294..maxint32"] = true
		default:
			cls["server-shard-above-int32"] = true
		}
	}
	var ks []string
	for k := range cls {
		ks = append(ks, k)
	}
	sort.Strings(ks)
	return strings.Join(ks, "+")
}
