//go:build verif

package proxy

import "fmt"

func (e *vfRouteExec) enabledFaults() []string { return nil }

func (e *vfRouteExec) applyFault(a string, f []string) error {
	return fmt.Errorf("unknown action %s", a)
}
