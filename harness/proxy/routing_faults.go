//go:build verif

package proxy

// Fault actions for C04 (and the full scenario of C08): stream breaks and reconnections.

import (
	"fmt"
	"strconv"
	"testing"
	"time"

	vrt "github.com/temporalio/s2s-proxy/internal/verifrt"
)

// needsOpen: the source shard has no live stream towards the proxy (never opened, or the last
// incarnation broke / was ended by the proxy).
func (s *vfSrc) needsOpen() bool {
	if len(s.incoming) == 0 {
		return true
	}
	in := s.incoming[len(s.incoming)-1]
	return in.broken || in.returned
}

func (e *vfRouteExec) faultKind(k string) bool {
	if len(e.sc.FaultKinds) == 0 {
		return true
	}
	for _, x := range e.sc.FaultKinds {
		if x == k {
			return true
		}
	}
	return false
}

func (e *vfRouteExec) enabledFaults() []string {
	if e.faults >= e.sc.MaxFaults {
		return nil
	}
	var out []string
	for _, t := range e.tgt {
		if c := t.cur(); c != nil && !c.broken && !c.returned && e.faultKind("breakT") {
			out = append(out, fmt.Sprintf("breakT:%d", t.idx))
		}
	}
	if len(e.inst) > 1 && !e.failIntraSend && e.faultKind("failIntraSend") {
		out = append(out, "failIntraSend:0")
	}
	for _, s := range e.src {
		if p := s.pull(); p != nil && p.alive() && !s.needsOpen() && e.faultKind("breakS") {
			out = append(out, fmt.Sprintf("breakS:%d", s.idx))
		}
		if !s.needsOpen() && e.faultKind("breakSin") {
			out = append(out, fmt.Sprintf("breakSin:%d", s.idx))
		}
	}
	return out
}

func (e *vfRouteExec) applyFault(a string, f []string) error {
	if len(f) < 2 {
		return fmt.Errorf("unknown action %s", a)
	}
	n, _ := strconv.Atoi(f[1])
	switch f[0] {
	case "failIntraSend":
		e.faults++
		e.hmu.Lock()
		e.failIntraSend = true
		e.hmu.Unlock()
		e.logf("the next task batch sent between the proxy instances will fail")
	case "breakT":
		t := e.tgt[n-1]
		if t.cur() == nil {
			return fmt.Errorf("action %s not enabled", a)
		}
		e.faults++
		e.logf("T%d#%d stream breaks", t.idx, len(t.incoming)-1)
		t.cur().breakNow()
	case "breakS":
		s := e.src[n-1]
		if s.pull() == nil {
			return fmt.Errorf("action %s not enabled", a)
		}
		e.faults++
		e.logf("S%d pull stream #%d breaks", s.idx, len(s.pulls)-1)
		s.pull().breakNow()
	case "breakSin":
		s := e.src[n-1]
		if len(s.incoming) == 0 {
			return fmt.Errorf("action %s not enabled", a)
		}
		e.faults++
		e.logf("S%d#%d stream (initiated by the source shard) breaks", s.idx, len(s.incoming)-1)
		s.incoming[len(s.incoming)-1].breakNow()
	default:
		return fmt.Errorf("unknown action %s", a)
	}
	return nil
}

func vfFaultScenarios(tier string) []*vfRouteScenario {
	var out []*vfRouteScenario
	add := func(name string, ns, nt int, scripts [][]vfBatch, maxWM, faults int, kinds ...string) {
		out = append(out, &vfRouteScenario{Name: name, NS: ns, NT: nt, Scripts: scripts, InitHigh: 5, MaxWM: maxWM, MaxAdv: 0, MaxRepeat: 0,
			InOrder: true, MaxFaults: faults, FaultKinds: kinds})
	}
	two := [][]vfBatch{{
		{IDs: []int64{10}, Tgt: []int{1}, High: 11},
		{IDs: []int64{11}, Tgt: []int{2}, High: 12},
	}}
	add("1x2-breakT", 1, 2, two, 0, 1, "breakT")
	add("1x2-breakS", 1, 2, two, 0, 1, "breakS", "breakSin")
	// after the reconnect only part of the unconfirmed tasks has been resent when a target confirms old deliveries
	add("1x2-breakS-3tasks", 1, 2, [][]vfBatch{{
		{IDs: []int64{10}, Tgt: []int{1}, High: 11},
		{IDs: []int64{11}, Tgt: []int{2}, High: 12},
		{IDs: []int64{12}, Tgt: []int{1}, High: 13},
	}}, 0, 1, "breakS")
	add("1x1-any-fault", 1, 1, [][]vfBatch{{
		{IDs: []int64{10}, Tgt: []int{1}, High: 11},
		{IDs: []int64{11}, Tgt: []int{1}, High: 12},
	}}, 1, 1)
	// back-pressure when the stream breaks: the only target is slow (accepts a message only on accept:1), its hand-off
	// channel holds one message, the source's receive loop is waiting in the hand-off - then the target stream breaks and
	// the shard reconnects
	add("1x1-back-pressure-breakT", 1, 1, [][]vfBatch{{
		{IDs: []int64{10}, Tgt: []int{1}, High: 11},
		{IDs: []int64{11}, Tgt: []int{1}, High: 12},
		{IDs: []int64{12}, Tgt: []int{1}, High: 13},
	}}, 0, 1, "breakT")
	out[len(out)-1].ChanCap = 1
	out[len(out)-1].Gated = []int{1}
	// two proxy instances (source and target 1 on n1, target 2 on n2): the intra-proxy stream fails while a task for
	// target 2 is handed over to the peer instance
	add("1x2-two-proxies-intra-send-fails", 1, 2, two, 0, 1, "failIntraSend")
	out[len(out)-1].Proxies, out[len(out)-1].PlaceT, out[len(out)-1].PlaceS = 2, []int{0, 1}, []int{0}
	if tier == "thorough" {
		add("1x2-two-faults", 1, 2, two, 0, 2)
		add("1x2-multi-fault", 1, 2, [][]vfBatch{{
			{IDs: []int64{10, 11}, Tgt: []int{1, 2}, High: 12},
			{IDs: []int64{12}, Tgt: []int{2}, High: 13},
		}}, 1, 1)
		add("2x2-fault", 2, 2, [][]vfBatch{
			{{IDs: []int64{10}, Tgt: []int{1}, High: 11}, {IDs: []int64{11}, Tgt: []int{2}, High: 12}},
			{{IDs: []int64{100}, Tgt: []int{2}, High: 101}},
		}, 0, 1)
	}
	return out
}

// TestVerifC03Faults: C03 over the fault scenarios of C04 - the bounded-liveness half (after the reconnections the fair
// closing phase still ends with the final watermark acknowledged) and the safety half of C03 (acknowledgements on one source stream never decrease and never
// exceed the largest exclusive high watermark received on that stream) over the fault scenarios of C04: a
// reconnected source stream starts with a lower high watermark than targets may re-acknowledge.
func TestVerifC03Faults(t *testing.T) {
	vfOnlySigs = map[string]bool{"ack-decreased": true, "ack-above-high": true, "final-ack-never-arrives-after-reconnects": true}
	vfFaultCheck(t, "C03", "TestVerifC03Faults")
}

func TestVerifC04(t *testing.T) { vfFaultCheck(t, "C04", "TestVerifC04") }

func vfFaultCheck(t *testing.T, property, testName string) {
	if vrt.IsWorker() {
		vfRouteWorker(t)
		return
	}
	res := vrt.NewResult(property, "model_checking")
	defer func() {
		if err := res.Write(); err != nil {
			t.Fatal(err)
		}
	}()
	props := map[string]bool{property: true}
	if p := vrt.ReplayPath(); p != "" {
		vfRouteReplay(t, p, props, res)
		return
	}
	pool := vrt.NewPool(testName, vrt.Workers(), 60*time.Second)
	deadline := vrt.Deadline()
	st := &vfBFSStats{Outcomes: map[string]bool{}, Exhaustive: true}
	var names []string
	for _, sc := range vfFaultScenarios(vrt.Tier()) {
		before := st.States
		vfRouteBFS(t, pool, sc, vfRouteDepth(vrt.Tier()), true, props, res, deadline, st)
		names = append(names, fmt.Sprintf("%s(states=%d)", sc.Name, st.States-before))
		if time.Now().After(deadline) {
			st.Exhaustive = false
			break
		}
	}
	vfRouteReport(res, st, names, pool)
	res.Assume("after a reconnect the source resends every task with id >= the highest acknowledgement it has received (Temporal's sender resumes from the acknowledged level); a reconnecting target starts with an empty tracker")
}
