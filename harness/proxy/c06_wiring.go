//go:build verif

package proxy

// C06 (wiring): a pass-through stream on a real ClusterConnection over loopback TCP (default and LCM mode): one
// message each way, a replication batch larger than gRPC's default 4 MiB limit, then the proxy shuts down (its
// lifetime ends) while the stream is open and neither peer ends it: both sides of the stream must end.

import (
	"context"
	"fmt"
	"testing"
	"time"

	commonpb "go.temporal.io/api/common/v1"
	"go.temporal.io/server/api/adminservice/v1"
	replicationv1 "go.temporal.io/server/api/replication/v1"
	"go.temporal.io/server/client/history"
	"google.golang.org/grpc"
	"google.golang.org/grpc/metadata"

	"github.com/temporalio/s2s-proxy/config"
	vrt "github.com/temporalio/s2s-proxy/internal/verifrt"
)

func TestVerifC06Wiring(t *testing.T) {
	res := vrt.NewResult("C06", "model_checking")
	defer func() {
		if err := res.Write(); err != nil {
			t.Fatal(err)
		}
	}()
	var evals int64
	for _, mode := range []string{"default", "lcm"} {
		replay := map[string]any{"part": "TestVerifC06Wiring", "mode": mode}
		cfg := config.ClusterConnConfig{}
		if mode == "lcm" {
			cfg.ShardCountConfig = config.ShardCountConfig{Mode: config.ShardCountLCM, LocalShardCount: 2, RemoteShardCount: 3}
		}
		cl, err := vfStartCluster(cfg)
		if err != nil {
			res.Violate("wiring/cluster-connection-fails", err.Error(), replay)
			continue
		}
		const big = 6 << 20
		gotAck := make(chan int64, 4)
		sendBig := make(chan struct{})
		sourceEnded := make(chan struct{})
		cl.Local.OnStream = func(method string, md metadata.MD, stream grpc.ServerStream) error {
			defer close(sourceEnded)
			small := &adminservice.StreamWorkflowReplicationMessagesResponse{Attributes: &adminservice.StreamWorkflowReplicationMessagesResponse_Messages{
				Messages: &replicationv1.WorkflowReplicationMessages{ExclusiveHighWatermark: 101, ReplicationTasks: []*replicationv1.ReplicationTask{{SourceTaskId: 100}}}}}
			if err := stream.SendMsg(small); err != nil {
				return err
			}
			go func() {
				for {
					var req adminservice.StreamWorkflowReplicationMessagesRequest
					if stream.RecvMsg(&req) != nil {
						return
					}
					gotAck <- req.GetSyncReplicationState().GetInclusiveLowWatermark()
				}
			}()
			select {
			case <-sendBig:
			case <-stream.Context().Done():
				return nil
			}
			large := &adminservice.StreamWorkflowReplicationMessagesResponse{Attributes: &adminservice.StreamWorkflowReplicationMessagesResponse_Messages{
				Messages: &replicationv1.WorkflowReplicationMessages{ExclusiveHighWatermark: 103, ReplicationTasks: []*replicationv1.ReplicationTask{{SourceTaskId: 102, Data: &commonpb.DataBlob{Data: make([]byte, big)}}}}}}
			if err := stream.SendMsg(large); err != nil {
				return err
			}
			<-stream.Context().Done()
			return nil
		}
		ctx, cancel := context.WithCancel(context.Background())
		md := metadata.New(map[string]string{
			history.MetadataKeyClientClusterID: "2", history.MetadataKeyClientShardID: "1",
			history.MetadataKeyServerClusterID: "1", history.MetadataKeyServerShardID: "1"})
		stream, err := adminservice.NewAdminServiceClient(cl.FromRemote).StreamWorkflowReplicationMessages(metadata.NewOutgoingContext(ctx, md), grpc.MaxCallRecvMsgSize(128<<20))
		if err != nil {
			res.Violate("wiring/stream-open-fails", err.Error(), replay)
			cancel()
			cl.Close()
			continue
		}
		type rcv struct {
			m   *adminservice.StreamWorkflowReplicationMessagesResponse
			err error
		}
		in := make(chan rcv, 8)
		go func() {
			for {
				m, err := stream.Recv()
				in <- rcv{m, err}
				if err != nil {
					return
				}
			}
		}()
		next := func(what string, d time.Duration) (rcv, bool) {
			select {
			case r := <-in:
				return r, true
			case <-time.After(d):
				res.Violate("wiring/relay-stalls/"+what, fmt.Sprintf("mode %s: %s did not arrive within %v", mode, what, d), replay)
				return rcv{}, false
			}
		}
		ok := true
		if r, got := next("first-response", 30*time.Second); !got || r.err != nil || r.m.GetMessages().GetExclusiveHighWatermark() != 101 {
			if got {
				res.Violate("wiring/relay/first-response", fmt.Sprintf("mode %s: got %v err %v", mode, r.m, r.err), replay)
			}
			ok = false
		}
		evals++
		if ok {
			_ = stream.Send(&adminservice.StreamWorkflowReplicationMessagesRequest{Attributes: &adminservice.StreamWorkflowReplicationMessagesRequest_SyncReplicationState{
				SyncReplicationState: &replicationv1.SyncReplicationState{InclusiveLowWatermark: 100}}})
			select {
			case a := <-gotAck:
				if a != 100 {
					res.Violate("wiring/relay/sync-state-changed", fmt.Sprintf("mode %s: the source received %d, sent 100", mode, a), replay)
				}
			case <-time.After(30 * time.Second):
				res.Violate("wiring/relay-stalls/sync-state", fmt.Sprintf("mode %s: the sync-state did not reach the source within 30 s", mode), replay)
				ok = false
			}
			evals++
		}
		if ok {
			close(sendBig)
			if r, got := next("large-batch", 60*time.Second); got {
				evals++
				n := 0
				if r.err == nil && len(r.m.GetMessages().GetReplicationTasks()) == 1 {
					n = len(r.m.GetMessages().GetReplicationTasks()[0].GetData().GetData())
				}
				if r.err != nil || n != big {
					res.Violate("wiring/relay/large-batch-not-delivered", fmt.Sprintf("mode %s: a replication batch of %d bytes from the source did not reach the initiator intact: err=%v payload=%d bytes", mode, big, r.err, n), replay)
					ok = false
				}
			} else {
				ok = false
			}
		}
		if ok {
			// proxy shutdown while the stream is open and neither peer ends it
			cl.stop()
			evals++
			select {
			case r := <-in:
				if r.err == nil {
					res.Violate("wiring/end/message-after-shutdown", fmt.Sprintf("mode %s: the initiator received another message after the proxy's lifetime ended", mode), replay)
				}
			case <-time.After(45 * time.Second):
				res.Violate("wiring/end/stream-survives-proxy-shutdown/initiator-side", fmt.Sprintf("mode %s: 45 s after the proxy's lifetime ended the initiator's stream is still open", mode), replay)
			}
			select {
			case <-sourceEnded:
			case <-time.After(45 * time.Second):
				res.Violate("wiring/end/stream-survives-proxy-shutdown/source-side", fmt.Sprintf("mode %s: 45 s after the proxy's lifetime ended the stream towards the source is still open", mode), replay)
			}
		}
		cancel()
		cl.Close()
	}
	res.Set("evaluations", evals)
	res.Set("states", evals)
	res.Set("transitions", evals)
	res.Set("traces_validated_against_impl", evals)
	res.Set("exhaustive", true)
	res.Sample(map[string]any{"wiring": "default and LCM mode: response, sync-state, 6 MiB batch, proxy shutdown with the stream open"})
	res.Assume("wiring part: real ClusterConnection over loopback TCP in real time; each step is awaited for 30-60 s before it is called stalled")
}
