//go:build verif

package proxy

// A real ClusterConnection (NewClusterConnection + Start) between two generic fake Temporal clusters on
// loopback TCP: used by the wiring clauses of C07, C13, C15, C16. The fake backend serves every method of
// AdminService and WorkflowService generically from the protobuf descriptors.

import (
	"context"
	"fmt"
	"io"
	"net"
	"sync"
	"time"

	"go.temporal.io/api/workflowservice/v1"
	"go.temporal.io/server/api/adminservice/v1"
	"google.golang.org/grpc"
	"google.golang.org/grpc/codes"
	"google.golang.org/grpc/credentials/insecure"
	"google.golang.org/grpc/metadata"
	"google.golang.org/grpc/status"
	"google.golang.org/protobuf/proto"
	"google.golang.org/protobuf/reflect/protoreflect"
	"google.golang.org/protobuf/reflect/protoregistry"

	"github.com/hashicorp/yamux"

	"github.com/temporalio/s2s-proxy/config"
	"github.com/temporalio/s2s-proxy/transport/mux"
)

type vfCall struct {
	Method string
	MD     metadata.MD
	Req    proto.Message
}

// vfBackend is a fake Temporal cluster front end.
type vfBackend struct {
	Name string
	mu   sync.Mutex
	// Calls recorded in arrival order.
	Calls []vfCall
	// Respond, if set, produces the response for a unary call (default: empty message of the right type).
	Respond func(method string, req proto.Message, resp proto.Message)
	// OnStream, if set, is invoked for streaming methods with the raw stream (default: return nil at once).
	OnStream func(method string, md metadata.MD, stream grpc.ServerStream) error
	srv      *grpc.Server
	lis      net.Listener
}

func (b *vfBackend) Addr() string { return b.lis.Addr().String() }

func (b *vfBackend) Reset() { b.mu.Lock(); b.Calls = nil; b.mu.Unlock() }

func (b *vfBackend) Recorded() []vfCall {
	b.mu.Lock()
	defer b.mu.Unlock()
	return append([]vfCall(nil), b.Calls...)
}

type vfMethodInfo struct {
	Full      string // /pkg.Service/Method
	Service   string
	Name      string
	In, Out   protoreflect.MessageType
	Streaming bool
}

var vfMethodsOnce sync.Once
var vfMethodTable map[string]*vfMethodInfo
var vfMethodList []*vfMethodInfo

// vfAllMethods enumerates both proxied services from their descriptors.
func vfAllMethods() []*vfMethodInfo {
	vfMethodsOnce.Do(func() {
		vfMethodTable = map[string]*vfMethodInfo{}
		for _, sd := range []protoreflect.ServiceDescriptor{
			adminservice.File_temporal_server_api_adminservice_v1_service_proto.Services().ByName("AdminService"),
			workflowservice.File_temporal_api_workflowservice_v1_service_proto.Services().ByName("WorkflowService"),
		} {
			ms := sd.Methods()
			for i := 0; i < ms.Len(); i++ {
				m := ms.Get(i)
				in, err1 := protoregistry.GlobalTypes.FindMessageByName(m.Input().FullName())
				out, err2 := protoregistry.GlobalTypes.FindMessageByName(m.Output().FullName())
				if err1 != nil || err2 != nil {
					panic(fmt.Sprintf("no Go type for %s", m.FullName()))
				}
				mi := &vfMethodInfo{Full: fmt.Sprintf("/%s/%s", sd.FullName(), m.Name()), Service: string(sd.Name()), Name: string(m.Name()),
					In: in, Out: out, Streaming: m.IsStreamingClient() || m.IsStreamingServer()}
				vfMethodTable[mi.Full] = mi
				vfMethodList = append(vfMethodList, mi)
			}
		}
	})
	return vfMethodList
}

func vfStartBackend(name string) (*vfBackend, error) {
	vfAllMethods()
	b := &vfBackend{Name: name}
	lis, err := net.Listen("tcp", "127.0.0.1:0")
	if err != nil {
		return nil, err
	}
	b.lis = lis
	b.srv = grpc.NewServer(grpc.UnknownServiceHandler(func(_ any, stream grpc.ServerStream) error {
		full, _ := grpc.MethodFromServerStream(stream)
		mi := vfMethodTable[full]
		if mi == nil {
			return status.Errorf(codes.Unimplemented, "fake backend: unknown method %s", full)
		}
		md, _ := metadata.FromIncomingContext(stream.Context())
		if mi.Streaming {
			b.mu.Lock()
			b.Calls = append(b.Calls, vfCall{Method: full, MD: md.Copy()})
			on := b.OnStream
			b.mu.Unlock()
			if on != nil {
				return on(full, md, stream)
			}
			return nil
		}
		req := mi.In.New().Interface()
		if err := stream.RecvMsg(req); err != nil {
			return err
		}
		resp := mi.Out.New().Interface()
		b.mu.Lock()
		b.Calls = append(b.Calls, vfCall{Method: full, MD: md.Copy(), Req: proto.Clone(req)})
		r := b.Respond
		b.mu.Unlock()
		if r != nil {
			r(full, req, resp)
		}
		return stream.SendMsg(resp)
	}))
	go func() { _ = b.srv.Serve(lis) }()
	return b, nil
}

func (b *vfBackend) Stop() { b.srv.Stop() }

// vfCluster is a running ClusterConnection between two fake backends.
type vfCluster struct {
	Local, Remote *vfBackend
	CC            *ClusterConnection
	stop          context.CancelFunc
	// FromRemote dials the proxy's inbound (remote-facing) server; FromLocal the outbound (local-facing) one.
	FromRemote, FromLocal *grpc.ClientConn
	closers               []func()
}

func (c *vfCluster) Close() {
	if c.FromRemote != nil {
		_ = c.FromRemote.Close()
	}
	if c.FromLocal != nil {
		_ = c.FromLocal.Close()
	}
	for _, f := range c.closers {
		f()
	}
	if c.stop != nil {
		c.stop()
	}
	if c.Local != nil {
		c.Local.Stop()
	}
	if c.Remote != nil {
		c.Remote.Stop()
	}
	time.Sleep(5 * time.Millisecond)
}

// vfStartCluster builds the connection from cfg after filling in the transport (TCP on loopback).
func vfStartCluster(cfg config.ClusterConnConfig) (*vfCluster, error) {
	return vfStartClusterOn(cfg, "tcp")
}

// vfStartClusterOn: transport of the remote-facing side is "tcp", "mux-server" (the proxy listens for the
// remote's mux connections) or "mux-client" (the proxy dials the remote). For the mux transports the harness
// is the remote peer: it owns the other end of one yamux session, calls the proxy's inbound server through
// streams it opens on that session and serves the remote fake cluster on streams the proxy opens.
func vfStartClusterOn(cfg config.ClusterConnConfig, transport string) (*vfCluster, error) {
	c := &vfCluster{}
	var err error
	if c.Local, err = vfStartBackend("local"); err != nil {
		return nil, err
	}
	if c.Remote, err = vfStartBackend("remote"); err != nil {
		c.Local.Stop()
		return nil, err
	}
	if cfg.Name == "" {
		cfg.Name = "verif"
	}
	cfg.Local.ConnectionType = config.ConnTypeTCP
	cfg.Local.TcpClient.ConnectionString = c.Local.Addr()
	cfg.Local.TcpServer.ConnectionString = "127.0.0.1:0"
	var peerListener net.Listener
	switch transport {
	case "tcp":
		cfg.Remote.ConnectionType = config.ConnTypeTCP
		cfg.Remote.TcpClient.ConnectionString = c.Remote.Addr()
		cfg.Remote.TcpServer.ConnectionString = "127.0.0.1:0"
	case "mux-server":
		cfg.Remote.ConnectionType = config.ConnTypeMuxServer
		cfg.Remote.MuxCount = 1
		cfg.Remote.MuxAddressInfo.ConnectionString = "127.0.0.1:0"
	case "mux-client":
		if peerListener, err = net.Listen("tcp", "127.0.0.1:0"); err != nil {
			c.Close()
			return nil, err
		}
		c.closers = append(c.closers, func() { _ = peerListener.Close() })
		cfg.Remote.ConnectionType = config.ConnTypeMuxClient
		cfg.Remote.MuxCount = 1
		cfg.Remote.MuxAddressInfo.ConnectionString = peerListener.Addr().String()
	default:
		c.Close()
		return nil, fmt.Errorf("unknown transport %q", transport)
	}
	lifetime, stop := context.WithCancel(context.Background())
	c.stop = stop
	cc, err := NewClusterConnection(lifetime, cfg, vfNoopLoggers())
	if err != nil {
		c.Close()
		return nil, err
	}
	c.CC = cc
	mux.MuxManagerStartDelay = 0
	cc.Start()
	outAddr := cc.outboundServer.(*simpleGRPCServer).listener.Addr().String()
	if c.FromLocal, err = grpc.NewClient(outAddr, grpc.WithTransportCredentials(insecure.NewCredentials())); err != nil {
		c.Close()
		return nil, err
	}
	if transport == "tcp" {
		inAddr := cc.inboundServer.(*simpleGRPCServer).listener.Addr().String()
		if c.FromRemote, err = grpc.NewClient(inAddr, grpc.WithTransportCredentials(insecure.NewCredentials())); err != nil {
			c.Close()
			return nil, err
		}
		return c, nil
	}
	// the harness end of the mux connection
	var conn net.Conn
	var sess *yamux.Session
	ycfg := yamux.DefaultConfig()
	ycfg.LogOutput = io.Discard
	if transport == "mux-server" {
		addr := cc.inboundServer.(mux.MultiMuxManager).Address()
		if conn, err = net.DialTimeout("tcp", addr, 20*time.Second); err == nil {
			sess, err = yamux.Client(conn, ycfg)
		}
	} else {
		_ = peerListener.(*net.TCPListener).SetDeadline(time.Now().Add(60 * time.Second))
		if conn, err = peerListener.Accept(); err == nil {
			sess, err = yamux.Server(conn, ycfg)
		}
	}
	if err != nil {
		c.Close()
		return nil, fmt.Errorf("%s: harness end of the mux connection: %w", transport, err)
	}
	c.closers = append(c.closers, func() { _ = sess.Close(); _ = conn.Close() })
	go func() { _ = c.Remote.srv.Serve(sess) }()
	c.FromRemote, err = grpc.NewClient("passthrough:///verif-mux",
		grpc.WithTransportCredentials(insecure.NewCredentials()),
		grpc.WithContextDialer(func(context.Context, string) (net.Conn, error) { return sess.Open() }))
	if err != nil {
		c.Close()
		return nil, err
	}
	return c, nil
}

// vfInvoke calls a unary method generically.
func vfInvoke(conn *grpc.ClientConn, mi *vfMethodInfo, req proto.Message, md metadata.MD) (proto.Message, error) {
	ctx, cancel := context.WithTimeout(context.Background(), 20*time.Second)
	defer cancel()
	if md != nil {
		ctx = metadata.NewOutgoingContext(ctx, md)
	}
	if req == nil {
		req = mi.In.New().Interface()
	}
	resp := mi.Out.New().Interface()
	err := conn.Invoke(ctx, mi.Full, req, resp)
	return resp, err
}

// vfOpenStream opens a bidirectional stream generically, waits until either the stream ends by itself
// (refused) or `seen` reports that the backend has the forwarded stream, then half-closes and returns the
// status the stream ends with (nil = served and ended cleanly).
func vfOpenStream(conn *grpc.ClientConn, mi *vfMethodInfo, md metadata.MD, seen func() bool) error {
	ctx, cancel := context.WithTimeout(context.Background(), 20*time.Second)
	defer cancel()
	if md != nil {
		ctx = metadata.NewOutgoingContext(ctx, md)
	}
	cs, err := conn.NewStream(ctx, &grpc.StreamDesc{StreamName: mi.Name, ServerStreams: true, ClientStreams: true}, mi.Full)
	if err != nil {
		return err
	}
	done := make(chan error, 1)
	go func() {
		resp := mi.Out.New().Interface()
		done <- cs.RecvMsg(resp)
	}()
	closed := false
	deadline := time.Now().Add(5 * time.Second)
	for {
		select {
		case err := <-done:
			if err != nil && err.Error() == "EOF" {
				return nil
			}
			return err
		case <-time.After(500 * time.Microsecond):
			if !closed && (seen == nil || seen() || time.Now().After(deadline)) {
				closed = true
				_ = cs.CloseSend()
			}
		}
	}
}
