//go:build verif

package proxy

// C09 conformance run: two real shardManagerImpl instances on a real hashicorp/memberlist (MockNetwork
// transport) in real time (no bubble). It validates what the delegate-seam exploration transcribes: that a
// claim produces exactly one reliable message per known peer with the payload the harness builds, stamped
// after the registration instant, that delivering it through memberlist's own receive path has the effect
// the seam model predicts, and that join / leave reach the delegates.

import (
	"encoding/json"
	"fmt"
	"io"
	"net"
	"runtime"
	"strings"
	"sync"
	"testing"
	"time"

	"github.com/hashicorp/memberlist"
	"go.temporal.io/server/client/history"

	"github.com/temporalio/s2s-proxy/config"
	"github.com/temporalio/s2s-proxy/encryption"
	vrt "github.com/temporalio/s2s-proxy/internal/verifrt"
)

// vfCaptureTransport wraps a MockTransport and records every stream the local node dials whose first byte
// says "user message" (that is what SendReliable produces); the stream is still forwarded.
type vfCaptureTransport struct {
	*memberlist.MockTransport
	mu       sync.Mutex
	userMsgs [][]byte
}

const vfUserMsgType = 8 // memberlist messageType userMsg

func (t *vfCaptureTransport) DialAddressTimeout(a memberlist.Address, timeout time.Duration) (net.Conn, error) {
	real, err := t.MockTransport.DialAddressTimeout(a, timeout)
	if err != nil {
		return nil, err
	}
	local, remote := net.Pipe()
	go func() {
		defer real.Close()
		defer remote.Close()
		first := make([]byte, 1)
		if _, err := io.ReadFull(remote, first); err != nil {
			return
		}
		if first[0] == vfUserMsgType {
			rest, _ := io.ReadAll(remote)
			t.mu.Lock()
			t.userMsgs = append(t.userMsgs, rest)
			t.mu.Unlock()
			_, _ = real.Write(append(first, rest...))
			return
		}
		// any other stream (push/pull): proxy both directions
		_, _ = real.Write(first)
		done := make(chan struct{}, 2)
		go func() { _, _ = io.Copy(real, remote); done <- struct{}{} }()
		go func() { _, _ = io.Copy(remote, real); done <- struct{}{} }()
		<-done
	}()
	return local, nil
}

func (t *vfCaptureTransport) DialTimeout(addr string, timeout time.Duration) (net.Conn, error) {
	return t.DialAddressTimeout(memberlist.Address{Addr: addr}, timeout)
}

type vfMLOut struct {
	Validated int64         `json:"validated"`
	Viol      []vfViolation `json:"viol,omitempty"`
	Err       string        `json:"err,omitempty"`
}

// TestVerifC09Memberlist: the conformance scenario runs in a worker process, so that a crash of the code under
// test (a panic in a goroutine memberlist or the shard manager started) is attributed to it instead of taking
// the check down.
func TestVerifC09Memberlist(t *testing.T) {
	if vrt.IsWorker() {
		vrt.ServeWorker(func(string) string {
			out := vfMemberlistScenario()
			b, _ := json.Marshal(out)
			return string(b)
		})
		return
	}
	res := vrt.NewResult("C09", "model_checking")
	defer func() {
		if err := res.Write(); err != nil {
			t.Fatal(err)
		}
	}()
	pool := vrt.NewPool("TestVerifC09Memberlist", 1, 10*time.Minute)
	r := pool.Map([]string{"{}"}, nil)[0]
	var out vfMLOut
	replay := map[string]any{"part": "TestVerifC09Memberlist"}
	switch {
	case r.Crashed && vrt.CrashInCodeUnderTest(r.Stderr):
		tail := r.Stderr
		if len(tail) > 2500 {
			tail = tail[len(tail)-2500:]
		}
		res.Violate("conformance/process-crash", "two instances on a real memberlist (join, claim, newer claim, leave, stop): the process died in the code under test\n"+tail, replay)
	case r.Crashed || r.TimedOut:
		res.Set("memberlist_run_error", fmt.Sprintf("worker crashed=%v timedOut=%v: %.500s", r.Crashed, r.TimedOut, r.Stderr))
		res.Set("exhaustive", false)
	default:
		_ = json.Unmarshal([]byte(r.Out), &out)
		for _, v := range out.Viol {
			res.Violate(v.Signature, v.Detail, replay)
		}
		if out.Err != "" {
			res.Set("memberlist_run_error", out.Err)
		}
	}
	validated := out.Validated
	res.Set("states", validated)
	res.Set("transitions", validated)
	res.Set("traces_validated_against_impl", validated)
	res.Set("memberlist_conformance_steps", validated)
	res.Sample(map[string]any{"conformance": "join merges state; RegisterShard -> 1 reliable message {type,node,shard,timestamp>=registration}; newer claim evicts through memberlist's receive path; leave removes the node; Stop of the remaining instance completes without a crash"})
	res.Assume("the conformance run uses memberlist's MockNetwork transport in real time; conditions are polled for up to 30 s, a deadlock verdict additionally requires the blocked NotifyLeave frame in the goroutine dump")
}

func vfMemberlistScenario() (out vfMLOut) {
	var validated int64
	fail := func(sig, detail string) {
		out.Viol = append(out.Viol, vfViolation{"C09", "conformance/" + sig, detail})
	}
	done := make(chan struct{})
	go func() {
		defer close(done)
		defer func() {
			if p := recover(); p != nil {
				out.Err = fmt.Sprint(p)
			}
		}()
		func() {
			network := &memberlist.MockNetwork{}
			type inst struct {
				sm *shardManagerImpl
				ml *memberlist.Memberlist
				tr *vfCaptureTransport
			}
			var nodes []*inst
			for i := 0; i < 2; i++ {
				name := vfNode(i)
				mc := &config.MemberlistConfig{Enabled: true, NodeName: name, ProxyAddresses: map[string]string{"n1": "a1", "n2": "a2"}}
				sm := NewShardManager(mc, config.ShardCountConfig{Mode: config.ShardCountRouting}, encryption.TLSConfig{}, vfNoopLoggers()).(*shardManagerImpl)
				sm.SetupCallbacks()
				tr := &vfCaptureTransport{MockTransport: network.NewTransport(name)}
				cfg := memberlist.DefaultLocalConfig()
				cfg.Name = name
				cfg.Transport = tr
				cfg.Delegate = sm.delegate
				cfg.Events = &shardEventDelegate{manager: sm, logger: sm.logger}
				cfg.LogOutput = io.Discard
				cfg.BindAddr = "127.0.0.1"
				cfg.BindPort = 0
				cfg.AdvertisePort = 0
				cfg.EnableCompression = false
				cfg.PushPullInterval = 0 // state merges only at join
				cfg.ProbeInterval = time.Hour
				ml, err := memberlist.Create(cfg)
				if err != nil {
					fail("memberlist-create", err.Error())
					return
				}
				sm.ml = ml
				sm.started = true
				nodes = append(nodes, &inst{sm, ml, tr})
			}
			defer func() {
				for _, n := range nodes {
					go func(ml *memberlist.Memberlist) { _ = ml.Shutdown() }(n.ml)
				}
			}()
			// real time, no bubble: poll a condition (up to 30 s) instead of sleeping a fixed amount
			until := func(cond func() bool) bool {
				deadline := time.Now().Add(30 * time.Second)
				for time.Now().Before(deadline) {
					if cond() {
						return true
					}
					time.Sleep(10 * time.Millisecond)
				}
				return cond()
			}
			known := func(n *inst, name string) bool {
				n.sm.remoteNodeStatesMu.RLock()
				defer n.sm.remoteNodeStatesMu.RUnlock()
				_, ok := n.sm.remoteNodeStates[name]
				return ok
			}
			if _, err := nodes[1].ml.Join([]string{nodes[0].tr.addrString()}); err != nil {
				fail("join", err.Error())
				return
			}
			// join: both delegates merged the other's state
			for i, n := range nodes {
				i, n := i, n
				if !until(func() bool { return known(n, vfNode(1-i)) }) {
					fail("join-does-not-merge-state", fmt.Sprintf("%s does not know %s after the join", vfNode(i), vfNode(1-i)))
					return
				}
			}
			validated++
			// claim on n1: exactly one user message to the known peer, payload as transcribed
			x := vfShard9(1)
			before := time.Now()
			at := nodes[0].sm.RegisterShard(x)
			userMsgs := func() [][]byte {
				nodes[0].tr.mu.Lock()
				defer nodes[0].tr.mu.Unlock()
				return append([][]byte(nil), nodes[0].tr.userMsgs...)
			}
			until(func() bool { return len(userMsgs()) >= 1 })
			time.Sleep(200 * time.Millisecond)
			msgs := userMsgs()
			if len(msgs) != 1 {
				fail("announcement-count", fmt.Sprintf("RegisterShard produced %d reliable messages towards 1 known peer", len(msgs)))
				return
			}
			raw := msgs[0]
			// msgpack header (user message length) precedes the JSON payload: find the JSON object
			start := -1
			for i, b := range raw {
				if b == '{' {
					start = i
					break
				}
			}
			var m ShardMessage
			if start < 0 || json.Unmarshal(raw[start:], &m) != nil {
				fail("announcement-payload", fmt.Sprintf("cannot decode the announcement: %q", raw))
				return
			}
			if m.Type != "register" || m.NodeName != "n1" || m.ClientShard != x {
				fail("announcement-payload", fmt.Sprintf("announcement %+v differs from what the seam exploration transcribes", m))
			}
			if m.Timestamp.Before(at) || m.Timestamp.Before(before) {
				fail("announcement-timestamp", fmt.Sprintf("announcement stamped %v, registration at %v", m.Timestamp, at))
			}
			validated++
			// later claim on n2 delivered through memberlist's own receive path evicts n1 (what the seam model predicts)
			nodes[1].sm.RegisterShard(x)
			until(func() bool { _, ok := nodes[0].sm.GetLocalShards()[ClusterShardIDtoShortString(x)]; return !ok })
			if _, ok := nodes[0].sm.GetLocalShards()[ClusterShardIDtoShortString(x)]; ok {
				fail("newer-claim-does-not-evict", "n2 claimed the shard later and its announcement was delivered by memberlist, but n1 still lists the shard")
			}
			if _, ok := nodes[1].sm.GetLocalShards()[ClusterShardIDtoShortString(x)]; !ok {
				fail("newest-claim-lost", "n2 made the newest claim but does not list the shard")
			}
			validated++
			// a claim whose local listeners are slow (a receiver handing its pending watermark to a full queue) while the other
			// instance claims the same shard: the announcement of the older claim carries the older instant, whenever it is
			// delivered, so the newer claim keeps the shard
			y := vfShard9(2)
			gate := make(chan struct{})
			orig := nodes[0].sm.onLocalShardChange
			nodes[0].sm.setOnLocalShardChange(func(sh history.ClusterShardID, added bool) {
				if added && sh == y {
					<-gate
				}
				if orig != nil {
					orig(sh, added)
				}
			})
			regDone := make(chan struct{})
			go func() { nodes[0].sm.RegisterShard(y); close(regDone) }()
			hasY := func(n *inst) bool { _, ok := n.sm.GetLocalShards()[ClusterShardIDtoShortString(y)]; return ok }
			if !until(func() bool { return hasY(nodes[0]) }) {
				fail("slow-listener/claim-not-recorded", "n1's RegisterShard did not record the shard")
				close(gate)
				return
			}
			time.Sleep(200 * time.Millisecond) // (an announcement n1 has already issued reaches n2)
			nodes[1].sm.RegisterShard(y)
			until(func() bool { return !hasY(nodes[0]) })
			close(gate)
			select {
			case <-regDone:
			case <-time.After(30 * time.Second):
				fail("slow-listener/register-does-not-return", "n1's RegisterShard did not return after its listener was released")
				return
			}
			time.Sleep(time.Second) // whatever n1 announces after its listeners returned has been delivered by now
			if hasY(nodes[0]) || !hasY(nodes[1]) {
				fail("slow-listener/newest-claim-lost", fmt.Sprintf("n1 claimed the shard (its listeners were slow), n2 claimed it afterwards: at the end n1 lists it: %v, n2 lists it: %v (the newest claim, n2's, must own it)", hasY(nodes[0]), hasY(nodes[1])))
			}
			nodes[0].sm.setOnLocalShardChange(orig)
			validated++
			// leave: must complete on the leaving instance and reach the other instance's event delegate
			leaveDone := make(chan struct{})
			go func() {
				_ = nodes[1].ml.Leave(time.Second)
				close(leaveDone)
			}()
			select {
			case <-leaveDone:
			case <-time.After(30 * time.Second):
				buf := make([]byte, 1<<20)
				stacks := string(buf[:runtime.Stack(buf, true)])
				if strings.Contains(stacks, "shardEventDelegate).NotifyLeave") && strings.Contains(stacks, "RWMutex).RLock") {
					fail("leave-deadlocks-in-NotifyLeave", "memberlist.Leave never returns: memberlist invokes NotifyLeave with its node lock held and shardEventDelegate.NotifyLeave calls back into memberlist (NumMembers), which needs the same lock")
				} else {
					fail("leave-does-not-return", "memberlist.Leave did not return within 30 s")
				}
				return
			}
			if !until(func() bool { return !known(nodes[0], "n2") }) {
				buf := make([]byte, 1<<20)
				stacks := string(buf[:runtime.Stack(buf, true)])
				if strings.Contains(stacks, "shardEventDelegate).NotifyLeave") && strings.Contains(stacks, "RWMutex).RLock") {
					fail("leave-deadlocks-in-NotifyLeave", "n1 observed n2's departure but its NotifyLeave is blocked calling back into memberlist (NumMembers) under memberlist's node lock; memberlist on n1 is wedged")
				} else {
					fail("leave-not-observed", "n2 left the cluster but n1 still lists it")
				}
				return
			}
			// the observing instance must still be responsive afterwards (its memberlist is not wedged)
			respDone := make(chan int, 1)
			go func() { respDone <- nodes[0].ml.NumMembers() }()
			select {
			case <-respDone:
			case <-time.After(30 * time.Second):
				fail("leave-deadlocks-in-NotifyLeave", "after n2's departure n1's memberlist no longer answers NumMembers(): NotifyLeave is blocked under memberlist's node lock")
				return
			}
			validated++
			// the remaining instance stops the way the proxy does (shardManagerImpl.Stop: leave, shutdown, pointer cleared):
			// it must return, and nothing it started may crash afterwards
			stopDone := make(chan struct{})
			go func() {
				nodes[0].sm.Stop()
				close(stopDone)
			}()
			select {
			case <-stopDone:
			case <-time.After(60 * time.Second):
				buf := make([]byte, 1<<20)
				stacks := string(buf[:runtime.Stack(buf, true)])
				var rel []string
				for _, g := range strings.Split(stacks, "\n\n") {
					if strings.Contains(g, "shardManagerImpl") || strings.Contains(g, "shardEventDelegate") {
						rel = append(rel, g)
					}
				}
				if strings.Contains(stacks, "Memberlist).UpdateNode") {
					fail("memberlist-lock-held-by-unbounded-UpdateNode", "shardManagerImpl.Stop never returns: a shard change is still inside memberlist.UpdateNode (waiting without limit for a broadcast no peer is left to receive) and holds the manager's memberlist lock, which Stop, announcements and joins need\n"+strings.Join(rel, "\n\n"))
				} else if strings.Contains(stacks, "shardEventDelegate).NotifyLeave") {
					fail("stop-deadlocks-in-NotifyLeave", "shardManagerImpl.Stop never returns: memberlist's own Leave calls NotifyLeave, which is blocked\n"+strings.Join(rel, "\n\n"))
				} else {
					fail("stop-does-not-return", "shardManagerImpl.Stop did not return within 60 s")
				}
				return
			}
			time.Sleep(500 * time.Millisecond) // goroutines started by the leave notification run now (a crash ends this process)
			validated++
		}()
	}()
	<-done
	out.Validated = validated
	return out
}

func (t *vfCaptureTransport) addrString() string {
	ip, port, _ := t.MockTransport.FinalAdvertiseAddr("", 0)
	return net.JoinHostPort(ip.String(), fmt.Sprint(port))
}
