//go:build verif

package proxy

// C02 (wiring): routing mode on a real ClusterConnection (NewClusterConnection + Start, loopback TCP) between two
// fake Temporal clusters, both replication directions at once. What the handler-level exploration transcribes -
// the routing parameters NewClusterConnection gives each direction - is real here: every shard of each cluster
// opens its stream towards the proxy, each fake cluster serves the pull streams the proxy opens as a source shard
// (one batch with a task for every workflow of a fixed set), and every task must come out exactly once, on the
// stream of the shard that owns its workflow under the receiving cluster's own shard count.

import (
	"context"
	"fmt"
	"sort"
	"sync"
	"testing"
	"time"

	"go.temporal.io/server/api/adminservice/v1"
	enumsspb "go.temporal.io/server/api/enums/v1"
	persistencespb "go.temporal.io/server/api/persistence/v1"
	replicationv1 "go.temporal.io/server/api/replication/v1"
	"go.temporal.io/server/client/history"
	servercommon "go.temporal.io/server/common"
	"google.golang.org/grpc"
	"google.golang.org/grpc/metadata"

	"github.com/temporalio/s2s-proxy/config"
	vrt "github.com/temporalio/s2s-proxy/internal/verifrt"
)

const vfC02WFCount = 12

func vfC02WF(i int) string { return fmt.Sprintf("verif-wf-%02d", i) }

// vfC02Source makes a fake cluster answer every pull stream the proxy opens as source shard <server shard id>:
// one batch with a task per workflow (ids strictly increasing), then silence until the stream ends.
func vfC02Source(b *vfBackend, side string) {
	b.OnStream = func(method string, md metadata.MD, stream grpc.ServerStream) error {
		shard := "?"
		if v := md.Get(history.MetadataKeyServerShardID); len(v) > 0 {
			shard = v[0]
		}
		var tasks []*replicationv1.ReplicationTask
		for i := 0; i < vfC02WFCount; i++ {
			id := int64(100 + i)
			tasks = append(tasks, &replicationv1.ReplicationTask{
				TaskType: enumsspb.REPLICATION_TASK_TYPE_HISTORY_TASK, SourceTaskId: id, Priority: enumsspb.TASK_PRIORITY_HIGH,
				RawTaskInfo: &persistencespb.ReplicationTaskInfo{NamespaceId: vfNamespace, WorkflowId: vfC02WF(i), RunId: side + "-shard-" + shard, TaskId: id, Version: 7},
			})
		}
		msg := &adminservice.StreamWorkflowReplicationMessagesResponse{Attributes: &adminservice.StreamWorkflowReplicationMessagesResponse_Messages{
			Messages: &replicationv1.WorkflowReplicationMessages{ReplicationTasks: tasks, ExclusiveHighWatermark: 100 + vfC02WFCount, Priority: enumsspb.TASK_PRIORITY_HIGH}}}
		if err := stream.SendMsg(msg); err != nil {
			return err
		}
		go func() {
			for {
				var req adminservice.StreamWorkflowReplicationMessagesRequest
				if stream.RecvMsg(&req) != nil {
					return
				}
			}
		}()
		<-stream.Context().Done()
		return nil
	}
}

type vfC02Got struct {
	mu    sync.Mutex
	tasks map[int][]string // receiving shard -> "source-run-id/workflow"
}

func (g *vfC02Got) total() int {
	g.mu.Lock()
	defer g.mu.Unlock()
	n := 0
	for _, ts := range g.tasks {
		n += len(ts)
	}
	return n
}

// vfC02Open opens the stream of shard `shard` (of a cluster with `count` shards, cluster id cc) towards the proxy
// server reached through conn and collects what arrives.
func vfC02Open(ctx context.Context, conn *grpc.ClientConn, cc, sc int32, shard int, got *vfC02Got) error {
	md := metadata.New(map[string]string{
		history.MetadataKeyClientClusterID: fmt.Sprint(cc), history.MetadataKeyClientShardID: fmt.Sprint(shard),
		history.MetadataKeyServerClusterID: fmt.Sprint(sc), history.MetadataKeyServerShardID: fmt.Sprint(shard)})
	stream, err := adminservice.NewAdminServiceClient(conn).StreamWorkflowReplicationMessages(metadata.NewOutgoingContext(ctx, md))
	if err != nil {
		return err
	}
	go func() {
		for {
			resp, err := stream.Recv()
			if err != nil {
				return
			}
			got.mu.Lock()
			for _, t := range resp.GetMessages().GetReplicationTasks() {
				got.tasks[shard] = append(got.tasks[shard], t.GetRawTaskInfo().GetRunId()+"/"+t.GetRawTaskInfo().GetWorkflowId())
			}
			got.mu.Unlock()
		}
	}()
	return nil
}

func TestVerifC02Wiring(t *testing.T) {
	res := vrt.NewResult("C02", "model_checking")
	defer func() {
		if err := res.Write(); err != nil {
			t.Fatal(err)
		}
	}()
	pairs := [][2]int32{{4, 2}, {2, 4}, {3, 3}}
	if vrt.Thorough() {
		pairs = append(pairs, [2]int32{1, 3}, [2]int32{5, 2}, [2]int32{2, 5}, [2]int32{6, 4})
	}
	var evals int64
	for _, pr := range pairs {
		local, remote := pr[0], pr[1]
		replay := map[string]any{"part": "TestVerifC02Wiring", "local": local, "remote": remote}
		cl, err := vfStartCluster(config.ClusterConnConfig{ShardCountConfig: config.ShardCountConfig{Mode: config.ShardCountRouting, LocalShardCount: local, RemoteShardCount: remote}})
		if err != nil {
			res.Violate("routing-wiring/cluster-connection-fails", fmt.Sprintf("local=%d remote=%d: %v", local, remote, err), replay)
			continue
		}
		vfC02Source(cl.Local, "local")
		vfC02Source(cl.Remote, "remote")
		ctx, cancel := context.WithCancel(context.Background())
		atRemote := &vfC02Got{tasks: map[int][]string{}} // what the remote cluster's shards receive (tasks of local sources)
		atLocal := &vfC02Got{tasks: map[int][]string{}}
		for j := 1; j <= int(remote); j++ {
			if err := vfC02Open(ctx, cl.FromRemote, 2, 1, j, atRemote); err != nil {
				res.Violate("routing-wiring/stream-open-fails", fmt.Sprintf("remote shard %d: %v", j, err), replay)
			}
		}
		for i := 1; i <= int(local); i++ {
			if err := vfC02Open(ctx, cl.FromLocal, 1, 2, i, atLocal); err != nil {
				res.Violate("routing-wiring/stream-open-fails", fmt.Sprintf("local shard %d: %v", i, err), replay)
			}
		}
		// every source shard sends one task per workflow: local sources -> remote shards, remote sources -> local shards
		wantAtRemote, wantAtLocal := int(local)*vfC02WFCount, int(remote)*vfC02WFCount
		deadline := time.Now().Add(60 * time.Second)
		for time.Now().Before(deadline) && (atRemote.total() < wantAtRemote || atLocal.total() < wantAtLocal) {
			time.Sleep(20 * time.Millisecond)
		}
		time.Sleep(300 * time.Millisecond) // anything delivered twice shows up now
		check := func(dir string, got *vfC02Got, count int32, want int) {
			got.mu.Lock()
			defer got.mu.Unlock()
			seen := map[string]int{}
			total := 0
			for shard, ts := range got.tasks {
				for _, k := range ts {
					evals++
					total++
					seen[k]++
					wf := k[len(k)-len(vfC02WF(0)):]
					if own := int(servercommon.WorkflowIDToHistoryShard(vfNamespace, wf, count)); own != shard {
						res.Violate("routing-wiring/task-on-the-stream-of-a-shard-that-does-not-own-it/"+dir, fmt.Sprintf("local=%d remote=%d, %s: task %s arrived on the stream of shard %d; under the receiving cluster's %d shards its workflow belongs to shard %d", local, remote, dir, k, shard, count, own), replay)
					}
				}
			}
			var dup []string
			for k, n := range seen {
				if n != 1 {
					dup = append(dup, fmt.Sprintf("%s x%d", k, n))
				}
			}
			sort.Strings(dup)
			if len(dup) > 0 {
				res.Violate("routing-wiring/task-delivered-more-than-once/"+dir, fmt.Sprintf("local=%d remote=%d, %s: %v", local, remote, dir, dup), replay)
			}
			if total < want {
				res.Violate("routing-wiring/tasks-not-delivered/"+dir, fmt.Sprintf("local=%d remote=%d, %s: %d of %d tasks arrived within 60 s (per receiving shard: %v)", local, remote, dir, total, want, vfC02Counts(got.tasks)), replay)
			}
		}
		check("local->remote", atRemote, remote, wantAtRemote)
		check("remote->local", atLocal, local, wantAtLocal)
		cancel()
		cl.Close()
	}
	res.Set("evaluations", evals)
	res.Set("states", int64(len(pairs)))
	res.Set("transitions", evals)
	res.Set("traces_validated_against_impl", evals)
	res.Set("routing_wiring_pairs", fmt.Sprint(pairs))
	res.Set("exhaustive", true)
	res.Sample(map[string]any{"pair": pairs[0], "workflows": vfC02WFCount})
	res.Assume("wiring part: real ClusterConnection in routing mode over loopback TCP; deliveries are awaited for up to 60 s of real time (a shortfall after that is reported), ownership and exactly-once are judged on what arrived")
}

func vfC02Counts(m map[int][]string) map[int]int {
	out := map[int]int{}
	for k, v := range m {
		out[k] = len(v)
	}
	return out
}
