//go:build verif

package proxy

import (
	"testing"

	vrt "github.com/temporalio/s2s-proxy/internal/verifrt"
)

// placeholder until the wiring part is written (direction rules end to end); reports nothing.
func TestVerifC14Wiring(t *testing.T) {
	res := vrt.NewResult("C14", "exploration")
	res.Set("evaluations", int64(0))
	res.Set("distinct_nontrivial", int64(0))
	if err := res.Write(); err != nil {
		t.Fatal(err)
	}
}
