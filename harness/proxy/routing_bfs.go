//go:build verif

package proxy

// Macro exploration for routing mode: explicit-state BFS over environment events. A state is the
// action path reaching it; the successor is computed by replaying the path on a fresh instance
// of the real proxy objects inside a synctest bubble (virtual time) and appending one action.

import (
	"crypto/sha1"
	"encoding/json"
	"fmt"
	"os"
	"runtime"
	"sort"
	"strconv"
	"strings"
	"testing"
	"testing/synctest"
	"time"

	vrt "github.com/temporalio/s2s-proxy/internal/verifrt"
)

type vfRouteJob struct {
	Scenario *vfRouteScenario `json:"sc"`
	Path     []string         `json:"path"`
	Closing  bool             `json:"closing"`
	Trace    bool             `json:"trace"`
}

type vfRouteOut struct {
	Key        string        `json:"key"`
	Enabled    []string      `json:"enabled"`
	Violations []vfViolation `json:"viol,omitempty"`
	Events     []string      `json:"events,omitempty"`
	Rounds     int           `json:"rounds"` // closing-phase rounds needed for the final ack
	Outcome    string        `json:"outcome"`
	Err        string        `json:"err,omitempty"`
}

// overlapLive: some target shard has two live stream incarnations at the moment.
func (e *vfRouteExec) overlapLive() bool {
	for _, t := range e.tgt {
		if n := len(t.incoming); n >= 2 {
			old := t.incoming[n-2]
			if !old.broken && !old.returned {
				return true
			}
		}
	}
	return false
}

func (e *vfRouteExec) enabled() []string {
	var out []string
	sc := e.sc
	if sc.LatePeers && !e.peersUp {
		out = append(out, "peers")
	}
	if sc.Overlap {
		for _, t := range e.tgt {
			c := t.cur()
			// the shard moves only when it holds nothing unconfirmed (everything it received is completed and its last
			// acknowledgement covers its last watermark): a reconnect with tasks in flight is C04's subject
			settled := c != nil && (c.high == nil || (len(c.acks) > 0 && c.acks[len(c.acks)-1] == *c.high))
			if c != nil {
				for _, q := range c.queue {
					if !q.done {
						settled = false
					}
				}
			}
			moves := t.idx-1 < len(sc.PlaceTNext) && sc.PlaceTNext[t.idx-1] != sc.PlaceT[t.idx-1]
			if sc.OverlapInPlace > 0 {
				moves = t.idx == sc.OverlapInPlace
			}
			if c != nil && !c.broken && !c.returned && settled && len(t.incoming) == 1 && moves {
				out = append(out, fmt.Sprintf("reopenT:%d", t.idx))
			}
			if n := len(t.incoming); n >= 2 && !t.incoming[n-2].broken && !t.incoming[n-2].returned {
				out = append(out, fmt.Sprintf("breakOldT:%d", t.idx))
			}
		}
		if e.overlapLive() {
			// while a shard has two live streams only the end of the old one (and acknowledgements) may happen: tasks sent
			// into the overlap are the subject of C04/C08
			return out
		}
	}
	for _, t := range e.tgt {
		if c := t.cur(); c == nil || c.broken || c.returned {
			out = append(out, fmt.Sprintf("openT:%d", t.idx))
		}
	}
	for _, s := range e.src {
		if s.needsOpen() {
			out = append(out, fmt.Sprintf("openS:%d", s.idx))
		}
	}
	for _, s := range e.src {
		p := s.pull()
		if p == nil || !p.alive() {
			continue
		}
		if s.pos < len(s.script) {
			out = append(out, fmt.Sprintf("emit:%d", s.idx))
		}
		if s.wmUsed < sc.MaxWM {
			out = append(out, fmt.Sprintf("wm:%d", s.idx))
		}
	}
	for _, t := range e.tgt {
		ts := t.cur()
		if ts == nil || ts.broken || ts.returned {
			continue
		}
		for _, q := range ts.queue {
			if q.done {
				continue
			}
			out = append(out, fmt.Sprintf("done:%d:%d", t.idx, q.id))
			if sc.InOrder {
				break
			}
		}
		if ts.inSend > 0 {
			out = append(out, fmt.Sprintf("accept:%d", t.idx))
		}
		if w, ok := ts.peekLow(); ok {
			if len(ts.acks) == 0 || w != ts.lastTick || ts.repeats < sc.MaxRepeat {
				out = append(out, fmt.Sprintf("tick:%d", t.idx))
			}
		}
	}
	if e.now < sc.MaxAdv {
		out = append(out, "adv")
	}
	out = append(out, e.enabledFaults()...)
	return out
}

func (e *vfRouteExec) apply(a string) error {
	f := strings.Split(a, ":")
	arg := func(i int) int { n, _ := strconv.Atoi(f[i]); return n }
	switch f[0] {
	case "openT":
		e.openTarget(e.tgt[arg(1)-1])
	case "openS":
		e.openSource(e.src[arg(1)-1])
	case "reopenT":
		// the target shard opens a new stream while its previous one is still alive (overlapping incarnations)
		e.openTarget(e.tgt[arg(1)-1])
	case "reopenS":
		e.openSource(e.src[arg(1)-1])
	case "breakOldT":
		t := e.tgt[arg(1)-1]
		if len(t.incoming) < 2 {
			return fmt.Errorf("action %s not enabled", a)
		}
		e.logf("T%d#%d (the older stream) breaks", t.idx, len(t.incoming)-2)
		t.incoming[len(t.incoming)-2].breakNow()
	case "breakOldSin":
		s := e.src[arg(1)-1]
		if len(s.incoming) < 2 {
			return fmt.Errorf("action %s not enabled", a)
		}
		e.logf("S%d#%d (the older stream initiated by the source shard) breaks", s.idx, len(s.incoming)-2)
		s.incoming[len(s.incoming)-2].breakNow()
	case "failopenS":
		e.src[arg(1)-1].failNextOpen = true
	case "peers":
		e.peersUp = true
		e.logf("the proxy instances may connect to each other")
	case "emit":
		s := e.src[arg(1)-1]
		if s.pull() == nil || s.pos >= len(s.script) {
			return fmt.Errorf("action %s not enabled", a)
		}
		e.emit(s)
	case "wm":
		s := e.src[arg(1)-1]
		if s.pull() == nil {
			return fmt.Errorf("action %s not enabled", a)
		}
		s.wmUsed++
		e.watermark(s)
	case "done":
		t := e.tgt[arg(1)-1]
		id := int64(arg(2))
		ts := t.cur()
		found := false
		for i := range ts.queue {
			if ts.queue[i].id == id && !ts.queue[i].done {
				ts.queue[i].done = true
				found = true
			}
		}
		if !found {
			return fmt.Errorf("action %s not enabled", a)
		}
		e.logf("T%d completes task %d", t.idx, id)
	case "cleanbreakT":
		// the target shard's stream breaks at a moment at which it holds nothing unconfirmed and nothing is on its way to
		// it: not a fault in the sense of C04 (no task can be lost by it)
		t := e.tgt[arg(1)-1]
		if t.cur() == nil || len(t.cur().queue) > 0 {
			return fmt.Errorf("action %s not enabled", a)
		}
		e.logf("T%d#%d stream breaks (nothing in flight)", t.idx, len(t.incoming)-1)
		t.cur().breakNow()
	case "awaitT":
		// (micro scripts: a step whose precondition is that every older incarnation of the shard's stream has ended)
	case "doneall":
		// the target completes everything it has received so far (micro scripts)
		ts := e.tgt[arg(1)-1].cur()
		for i := range ts.queue {
			ts.queue[i].done = true
		}
		e.logf("T%d completes everything it has received", arg(1))
	case "tick":
		e.tick(e.tgt[arg(1)-1])
	case "accept":
		e.accept(e.tgt[arg(1)-1])
	case "adv":
		e.now++
		time.Sleep(time.Second)
	default:
		return e.applyFault(a, f)
	}
	return nil
}

// closingPhase: every stream opened, every remaining batch emitted, then fair rounds in which
// every target completes and acknowledges what it has, every source sends its periodic
// watermark, and one second of virtual time passes. Returns the number of rounds after which
// every source had received an ack equal to its final high watermark (0 = never within K).
func (e *vfRouteExec) closingPhase(wait func(), K int) int {
	e.closing = true
	e.peersUp = true
	e.ungate(wait)
	// a shard with two live streams (macro scenarios with Overlap): the old one ends first - what is sent into an
	// overlap is the subject of C04/C08, not of the closing phase
	for _, t := range e.tgt {
		if n := len(t.incoming); n >= 2 && !t.incoming[n-2].broken && !t.incoming[n-2].returned && e.sc.Overlap {
			e.logf("T%d#%d (the older stream) breaks", t.idx, n-2)
			t.incoming[n-2].breakNow()
			wait()
		}
	}
	e.syncInstances(wait)
	for _, t := range e.tgt {
		if c := t.cur(); c == nil || c.returned || c.broken {
			e.openTarget(t)
			wait()
		}
	}
	for _, s := range e.src {
		if s.needsOpen() {
			e.openSource(s)
			wait()
		}
	}
	e.syncInstances(wait)
	for _, s := range e.src {
		for s.pull() != nil && s.pull().alive() && s.pos < len(s.script) {
			e.emit(s)
			wait()
		}
	}
	for round := 1; round <= K; round++ {
		// a stream that ended in the meantime (a break noticed late) is opened again, as its shard would
		for _, t := range e.tgt {
			if c := t.cur(); c == nil || c.returned || c.broken {
				e.openTarget(t)
				wait()
			}
		}
		for _, s := range e.src {
			if s.needsOpen() {
				e.openSource(s)
				wait()
			}
		}
		for _, t := range e.tgt {
			ts := t.cur()
			for i := range ts.queue {
				ts.queue[i].done = true
			}
			e.tick(t)
			wait()
		}
		for _, s := range e.src {
			if s.pull() != nil {
				e.watermark(s)
				wait()
			}
		}
		e.now++
		time.Sleep(time.Second)
		wait()
		e.syncInstances(wait)
		all := true
		for _, s := range e.src {
			p := s.pull()
			if p == nil {
				all = false
				continue
			}
			if n := len(p.acks); n == 0 || p.acks[n-1] != s.curHigh {
				all = false
			}
		}
		if all {
			return round
		}
	}
	return 0
}

func (e *vfRouteExec) checkEnd(rounds int) {
	if rounds == 0 && e.faults == 0 {
		var st []string
		for _, s := range e.src {
			last := int64(-1)
			if p := s.pull(); p != nil && len(p.acks) > 0 {
				last = p.acks[len(p.acks)-1]
			}
			st = append(st, fmt.Sprintf("source %d: final high %d, last ack %d", s.idx, s.curHigh, last))
		}
		if bl := vrt.BlockedLockers(); len(bl) > 0 {
			st = append(st, fmt.Sprintf("goroutines waiting for a lock: %v", bl))
		}
		e.violate("C03", "final-ack-never-arrives", "after the fair closing phase (every target acknowledged everything, sources kept sending their watermark): "+strings.Join(st, "; "))
	}
	if rounds == 0 && e.faults > 0 {
		// after stream breaks and reconnections too the fair closing phase (every stream up again, targets acknowledge
		// what they hold, sources keep sending their watermark) ends with the final watermark acknowledged: which tasks
		// were lost on the way is C04's subject, that the acknowledgements keep flowing is C03's
		var st []string
		for _, s := range e.src {
			last := int64(-1)
			if p := s.pull(); p != nil && len(p.acks) > 0 {
				last = p.acks[len(p.acks)-1]
			}
			st = append(st, fmt.Sprintf("source %d: final high %d, last ack %d", s.idx, s.curHigh, last))
		}
		if bl := vrt.BlockedLockers(); len(bl) > 0 {
			st = append(st, fmt.Sprintf("goroutines waiting for a lock: %v", bl))
		}
		e.violate("C03", "final-ack-never-arrives-after-reconnects", "after the fair closing phase that follows the stream breaks: "+strings.Join(st, "; "))
	}
	if e.faults == 0 {
		for _, r := range e.returned {
			if n := len(e.deliv[r.Tag]); n != 1 {
				e.violate("C02", fmt.Sprintf("task-delivered-%d-times", n), fmt.Sprintf("task %s (target shard %d) was delivered %d times by the end of a complete run", r.Tag, r.Tgt, n))
			}
		}
	}
	for _, p := range e.panics {
		e.violate("C08", "handler-panic", p)
	}
}

// vfRunRoute executes one path (and optionally the closing phase) in a fresh bubble.
func vfRunRoute(t *testing.T, job *vfRouteJob) (out vfRouteOut) {
	done := make(chan struct{})
	go func() {
		defer close(done)
		defer func() {
			if p := recover(); p != nil {
				out.Err = fmt.Sprintf("bubble: %v", p)
			}
		}()
		synctest.Test(t, func(t *testing.T) {
			vrt.ResetLocks()
			e := vfNewRouteExec(job.Scenario)
			wait := synctest.Wait
			wait()
			for _, a := range job.Path {
				if err := e.apply(a); err != nil {
					out.Err = err.Error()
					break
				}
				wait()
				e.syncInstances(wait)
				e.checkBookkeeping()
			}
			if out.Err == "" {
				out.Key = e.stateKey()
				out.Enabled = e.enabled()
				if job.Closing {
					out.Rounds = e.closingPhase(wait, 6)
					e.checkEnd(out.Rounds)
				}
			}
			var acks []string
			for _, s := range e.src {
				for _, p := range s.pulls {
					acks = append(acks, fmt.Sprint(p.acks))
				}
			}
			out.Outcome = strings.Join(acks, "|")
			if stuck := e.teardown(wait); len(stuck) > 0 {
				e.violate("C08", "handler-stuck-after-shutdown", fmt.Sprintf("handlers still running after lifetime cancel and stream cancel: %v", stuck))
			}
			if job.Trace && os.Getenv("VERIF_DEBUG_STACKS") != "" {
				buf := make([]byte, 1<<20)
				os.Stderr.Write(buf[:runtime.Stack(buf, true)])
			}
			out.Violations = e.viol
			if job.Trace || len(e.viol) > 0 {
				out.Events = e.events
			}
			// goroutines parked on a lock nobody will release can never finish: make them exit so the bubble can end
			vrt.AbandonBlockedLockers()
			wait()
		})
	}()
	<-done
	return out
}

func vfRouteWorker(t *testing.T) {
	vrt.ServeWorker(func(js string) string {
		var job vfRouteJob
		if err := json.Unmarshal([]byte(js), &job); err != nil {
			return `{"err":"bad job"}`
		}
		out := vfRunRoute(t, &job)
		b, _ := json.Marshal(out)
		return string(b)
	})
}

type vfBFSStats struct {
	States, Transitions, MaxDepth int
	Outcomes                      map[string]bool
	MaxRounds                     int
	Exhaustive                    bool
	HarnessErrors                 []string
	Crashes, Timeouts             int
}

// vfRouteBFS explores one scenario; violations are reported through res (filtered by property).
func vfRouteBFS(t *testing.T, pool *vrt.Pool, sc *vfRouteScenario, maxDepth int, closing bool, props map[string]bool, res *vrt.Result, deadline time.Time, st *vfBFSStats) {
	type node struct {
		path    []string
		enabled []string
	}
	mk := func(path []string) string {
		b, _ := json.Marshal(vfRouteJob{Scenario: sc, Path: path, Closing: closing})
		return string(b)
	}
	seen := map[[20]byte]bool{}
	handle := func(path []string, r vrt.JobResult) (*node, bool) {
		if r.Crashed || r.TimedOut {
			kind := "process-crash"
			if r.TimedOut {
				kind = "execution-hang"
			}
			tail := r.Stderr
			if len(tail) > 3000 {
				tail = tail[len(tail)-3000:]
			}
			if r.Crashed && vrt.CrashInCodeUnderTest(r.Stderr) {
				res.Violate("routing/"+kind, fmt.Sprintf("scenario %s path %v: worker %s\n%s", sc.Name, path, kind, tail), map[string]any{"scenario": sc, "path": path})
			} else {
				st.HarnessErrors = append(st.HarnessErrors, fmt.Sprintf("%s on %v", kind, path))
			}
			return nil, false
		}
		var out vfRouteOut
		if err := json.Unmarshal([]byte(r.Out), &out); err != nil {
			st.HarnessErrors = append(st.HarnessErrors, "bad worker output: "+r.Out)
			return nil, false
		}
		// a goroutine of the code under test that stays blocked after everything was cancelled makes the bubble end with
		// "blocked goroutines remain"; the oracles of that execution have run by then, so its violations count
		leftover := strings.Contains(out.Err, "blocked goroutines remain") && len(out.Violations) > 0
		if out.Err != "" && !leftover {
			st.HarnessErrors = append(st.HarnessErrors, fmt.Sprintf("%s on %v", out.Err, path))
			return nil, false
		}
		for _, v := range out.Violations {
			if props[v.Property] && (vfOnlySigs == nil || vfOnlySigs[v.Signature]) {
				res.Violate(vfSigPrefix+v.Signature, fmt.Sprintf("scenario %s, actions %v: %s\ntrace:\n  %s", sc.Name, path, v.Detail, strings.Join(out.Events, "\n  ")),
					map[string]any{"scenario": sc, "path": path, "closing": closing})
			}
		}
		if leftover {
			return nil, false
		}
		if out.Rounds > st.MaxRounds {
			st.MaxRounds = out.Rounds
		}
		if len(st.Outcomes) < 200000 {
			st.Outcomes[out.Outcome] = true
		}
		hk := sha1.Sum([]byte(out.Key))
		if seen[hk] {
			return nil, true
		}
		seen[hk] = true
		return &node{path: path, enabled: out.Enabled}, true
	}
	root := pool.Map([]string{mk(nil)}, nil)
	n0, _ := handle(nil, root[0])
	if n0 == nil {
		st.Exhaustive = false
		return
	}
	frontier := []*node{n0}
	for depth := 1; depth <= maxDepth && len(frontier) > 0; depth++ {
		var jobs []string
		var paths [][]string
		for _, n := range frontier {
			for _, a := range n.enabled {
				p := append(append([]string(nil), n.path...), a)
				paths = append(paths, p)
				jobs = append(jobs, mk(p))
			}
		}
		if time.Now().After(deadline) {
			st.Exhaustive = false
			return
		}
		var next []*node
		results := pool.Map(jobs, nil)
		for i, r := range results {
			st.Transitions++
			if n, _ := handle(paths[i], r); n != nil {
				next = append(next, n)
			}
		}
		st.MaxDepth = depth
		frontier = next
		if res.NumViolations() >= 12 {
			st.Exhaustive = false
			break
		}
	}
	if len(frontier) > 0 {
		// depth bound reached with unexpanded states: exhaustive up to the bound only
		res.Set("frontier_at_bound_"+sc.Name, int64(len(frontier)))
	}
	st.States += len(seen)
}

// ---------------------------------------------------------------------------------------------
// scenario families

func vfScenarios(tier string, faults bool) []*vfRouteScenario {
	var out []*vfRouteScenario
	add := func(name string, ns, nt int, scripts [][]vfBatch, maxWM, maxAdv int) {
		out = append(out, &vfRouteScenario{Name: name, NS: ns, NT: nt, Scripts: scripts, InitHigh: 5, MaxWM: maxWM, MaxAdv: maxAdv, MaxRepeat: 1, InOrder: tier != "thorough"})
	}
	thorough := tier == "thorough"
	// 1 source x 2 targets: single-task batches alternating between the targets (what Temporal >= 1.24 sends)
	single := []vfBatch{
		{IDs: []int64{10}, Tgt: []int{1}, High: 11},
		{IDs: []int64{11}, Tgt: []int{2}, High: 12},
		{IDs: []int64{12}, Tgt: []int{1}, High: 13},
	}
	if thorough {
		add("1x2-single3", 1, 2, [][]vfBatch{single}, 1, 1)
	} else {
		add("1x2-single3-nowm", 1, 2, [][]vfBatch{single}, 0, 0)
		add("1x2-single2", 1, 2, [][]vfBatch{single[:2]}, 1, 1)
	}
	// multi-task batch spanning both targets, then a gap between last id and high
	add("1x2-multi", 1, 2, [][]vfBatch{{
		{IDs: []int64{10, 11}, Tgt: []int{1, 2}, High: 12},
		{IDs: []int64{14}, Tgt: []int{2}, High: 20},
	}}, 1, map[bool]int{true: 1, false: 0}[thorough])
	// a target that never gets a task from this source
	add("1x2-idle-target", 1, 2, [][]vfBatch{{
		{IDs: []int64{10}, Tgt: []int{1}, High: 11},
		{IDs: []int64{11}, Tgt: []int{1}, High: 12},
	}}, 1, 1)
	// the source's watermark advances beyond the last task batch; a source shard that is idle from the start
	add("1x2-wm-advances", 1, 2, [][]vfBatch{{
		{IDs: []int64{10}, Tgt: []int{1}, High: 11},
		{IDs: []int64{11}, Tgt: []int{2}, High: 12},
	}}, 1, 0)
	out[len(out)-1].WMAdvance = 7
	add("1x1-idle-source", 1, 1, [][]vfBatch{{}}, 1, 1)
	out[len(out)-1].WMAdvance = 7
	// targets that acknowledge per priority lane (the high-priority lane is ahead of the flat watermark)
	add("1x2-lane-acks", 1, 2, [][]vfBatch{{
		{IDs: []int64{10, 11}, Tgt: []int{1, 2}, High: 12},
		{IDs: []int64{12}, Tgt: []int{1}, High: 13},
	}}, 0, 0)
	out[len(out)-1].LaneAcks = true
	// two proxy instances: the source shard and target shard 1 are connected to instance n1, target shard 2 to n2, so
	// tasks for T2 and its acknowledgements cross the intra-proxy streams
	add("1x2-two-proxies", 1, 2, [][]vfBatch{{
		{IDs: []int64{10}, Tgt: []int{1}, High: 11},
		{IDs: []int64{11}, Tgt: []int{2}, High: 12},
	}}, 1, 0)
	out[len(out)-1].Proxies, out[len(out)-1].PlaceT, out[len(out)-1].PlaceS = 2, []int{0, 1}, []int{0}
	// the peer that owns target shard 2 is slow to connect: the owner is known, the intra-proxy stream is not there yet,
	// and virtual time passes (the forwarder's own 2 s wait for the peer expires)
	add("1x2-late-peer", 1, 2, [][]vfBatch{{
		{IDs: []int64{10}, Tgt: []int{2}, High: 11},
		{IDs: []int64{11}, Tgt: []int{1}, High: 12},
	}}, 0, 3)
	out[len(out)-1].Proxies, out[len(out)-1].PlaceT, out[len(out)-1].PlaceS, out[len(out)-1].LatePeers = 2, []int{0, 1}, []int{0}, true
	// one instance: target shard 2 opens a new stream while its old one is still alive (the new sender registers before
	// the old one has deregistered), then the old stream ends; the shard holds nothing unconfirmed at that moment
	// (one watermark-only batch may be broadcast at any point: before the reconnect it is what a per-cluster view of
	// the delivery channels would be built from)
	add("1x2-target-reconnects-in-place", 1, 2, [][]vfBatch{{
		{IDs: []int64{10}, Tgt: []int{2}, High: 11},
		{IDs: []int64{11}, Tgt: []int{2}, High: 12},
	}}, 1, 0)
	out[len(out)-1].Overlap, out[len(out)-1].OverlapInPlace = true, 2
	// three instances: target shard 2 reconnects to another instance (n3) while its old stream on n2 is still alive
	// (both instances claim the shard for a while), then the old stream ends
	add("1x2-target-moves-between-proxies", 1, 2, [][]vfBatch{{
		{IDs: []int64{10}, Tgt: []int{2}, High: 11},
		{IDs: []int64{11}, Tgt: []int{2}, High: 12},
	}}, 0, 0)
	out[len(out)-1].Proxies, out[len(out)-1].PlaceT, out[len(out)-1].PlaceS = 3, []int{0, 1}, []int{0}
	out[len(out)-1].PlaceTNext, out[len(out)-1].Overlap = []int{0, 2}, true
	// two sources feeding the same target
	if thorough {
		add("2x1-shared-target", 2, 1, [][]vfBatch{
			{{IDs: []int64{10}, Tgt: []int{1}, High: 11}, {IDs: []int64{11}, Tgt: []int{1}, High: 12}},
			{{IDs: []int64{100}, Tgt: []int{1}, High: 101}},
		}, 1, 1)
	} else {
		add("2x1-shared-target", 2, 1, [][]vfBatch{
			{{IDs: []int64{10}, Tgt: []int{1}, High: 11}},
			{{IDs: []int64{100}, Tgt: []int{1}, High: 101}},
		}, 1, 0)
	}
	// same workflow id in two namespaces owned by different shards, inside one batch
	add("1x2-two-namespaces", 1, 2, [][]vfBatch{{
		{IDs: []int64{10, 11}, Tgt: []int{1, 2}, NS: []int{2, 1}, High: 12},
		{IDs: []int64{12}, Tgt: []int{1}, NS: []int{2}, High: 13},
	}}, 0, 0)
	// slow target: hand-off channel of capacity 1 and a target stream that accepts a message only on accept:2
	add("1x2-slow-target", 1, 2, [][]vfBatch{{
		{IDs: []int64{10}, Tgt: []int{2}, High: 11},
		{IDs: []int64{11}, Tgt: []int{2}, High: 12},
	}}, 1, 0)
	out[len(out)-1].ChanCap = 1
	out[len(out)-1].Gated = []int{2}
	// back-pressure: the only target is slow (accepts a message only on accept:1), its hand-off channel holds one
	// message, so from the third batch on the source's receive loop waits in the hand-off while virtual time passes
	add("1x1-back-pressure", 1, 1, [][]vfBatch{{
		{IDs: []int64{10}, Tgt: []int{1}, High: 11},
		{IDs: []int64{11}, Tgt: []int{1}, High: 12},
		{IDs: []int64{12}, Tgt: []int{1}, High: 13},
	}}, 0, 2)
	out[len(out)-1].ChanCap = 1
	out[len(out)-1].Gated = []int{1}
	// two source shards hold a pending watermark when the only target shard registers late; its hand-off channel holds one
	// message (the replay of pending watermarks to a new target must not wait for room)
	add("2x1-late-target-queue1", 2, 1, [][]vfBatch{
		{{IDs: []int64{10}, Tgt: []int{1}, High: 11}},
		{},
	}, 1, 0)
	out[len(out)-1].ChanCap = 1
	// small ring: growth while wrapped, discard across the wrap point
	add("1x1-ring3", 1, 1, [][]vfBatch{{
		{IDs: []int64{10}, Tgt: []int{1}, High: 11},
		{IDs: []int64{11}, Tgt: []int{1}, High: 12},
		{IDs: []int64{12}, Tgt: []int{1}, High: 13},
		{IDs: []int64{13, 14}, Tgt: []int{1, 1}, High: 15},
	}}, 1, 0)
	out[len(out)-1].RingCap = 3
	if thorough {
		add("2x2", 2, 2, [][]vfBatch{
			{{IDs: []int64{10}, Tgt: []int{1}, High: 11}, {IDs: []int64{11}, Tgt: []int{2}, High: 12}},
			{{IDs: []int64{100, 101}, Tgt: []int{2, 1}, High: 102}},
		}, 0, 1)
		add("1x3", 1, 3, [][]vfBatch{{
			{IDs: []int64{10}, Tgt: []int{1}, High: 11},
			{IDs: []int64{11}, Tgt: []int{3}, High: 12},
			{IDs: []int64{12, 13}, Tgt: []int{2, 1}, High: 14},
		}}, 1, 0)
		add("3x2", 3, 2, [][]vfBatch{
			{{IDs: []int64{10}, Tgt: []int{1}, High: 11}},
			{{IDs: []int64{20}, Tgt: []int{2}, High: 21}},
			{{IDs: []int64{30}, Tgt: []int{1}, High: 31}},
		}, 0, 0)
	}
	return out
}

// vfOnlySigs, when set, restricts what a check reports to these signatures of its property.
var vfOnlySigs map[string]bool

// vfSigPrefix is put in front of every signature a check reports (a check that reports another property's oracles).
var vfSigPrefix string

func vfRouteDepth(tier string) int {
	d := 60 // scenarios are finite: the search normally ends with an empty frontier
	_ = tier
	if s := os.Getenv("VERIF_ROUTE_DEPTH"); s != "" {
		fmt.Sscan(s, &d)
	}
	return d
}

// vfRouteCheck is the shared body of TestVerifC01..C03.
// vfOnlyScenarios restricts vfRouteCheck to the named scenarios (nil = all).
var vfOnlyScenarios map[string]bool

// TestVerifC05Routing: the proxy-id table inside real senders (third part of C05) - the routing scenarios in which
// several sources share a target, watermark-only batches are broadcast and the ring wraps, with the sender-table oracle.
func TestVerifC05Routing(t *testing.T) {
	vfOnlyScenarios = map[string]bool{"2x1-shared-target": true, "1x2-single2": true, "1x2-single3": true, "1x2-idle-target": true, "1x1-ring3": true,
		"1x2-wm-advances": true, "1x2-lane-acks": true, "2x2": true}
	vfRouteCheck(t, "C05", "TestVerifC05Routing")
}

func vfRouteCheck(t *testing.T, property string, testName string) {
	if vrt.IsWorker() {
		vfRouteWorker(t)
		return
	}
	res := vrt.NewResult(property, "model_checking")
	defer func() {
		if err := res.Write(); err != nil {
			t.Fatal(err)
		}
	}()
	props := map[string]bool{property: true}
	if property == "C05" {
		// a translation that reaches a source shard with the wrong value shows as an acknowledgement that is too high
		// (C01's and C03's oracles): in the table's own check these count against the table
		props["C01"], props["C03"] = true, true
	}
	if p := vrt.ReplayPath(); p != "" {
		vfRouteReplay(t, p, props, res)
		return
	}
	pool := vrt.NewPool(testName, vrt.Workers(), 60*time.Second)
	deadline := vrt.Deadline()
	st := &vfBFSStats{Outcomes: map[string]bool{}, Exhaustive: true}
	var names []string
	for _, sc := range vfScenarios(vrt.Tier(), false) {
		if vfOnlyScenarios != nil && !vfOnlyScenarios[sc.Name] {
			continue
		}
		before := st.States
		vfRouteBFS(t, pool, sc, vfRouteDepth(vrt.Tier()), true, props, res, deadline, st)
		names = append(names, fmt.Sprintf("%s(states=%d)", sc.Name, st.States-before))
		if time.Now().After(deadline) {
			st.Exhaustive = false
			break
		}
	}
	vfRouteReport(res, st, names, pool)
}

func vfRouteReport(res *vrt.Result, st *vfBFSStats, names []string, pool *vrt.Pool) {
	res.Set("states", int64(st.States))
	res.Set("transitions", int64(st.Transitions))
	res.Set("traces_validated_against_impl", int64(st.Transitions))
	res.Set("max_depth", int64(st.MaxDepth))
	res.Set("distinct_outcomes", int64(len(st.Outcomes)))
	res.Set("closing_phase_max_rounds", int64(st.MaxRounds))
	res.Set("scenarios", names)
	res.Set("exhaustive", st.Exhaustive && len(st.HarnessErrors) == 0)
	res.Set("harness_errors", st.HarnessErrors)
	res.Set("worker_crashes", int64(pool.Crashes))
	res.Set("worker_timeouts", int64(pool.Timeouts))
	res.Set("explanation", "every transition is an execution of the real routing-mode handlers (StreamWorkflowReplicationMessages -> streamRouting -> proxyStreamSender/Receiver on one shardManagerImpl) in a synctest bubble against fake Temporal endpoints; states are de-duplicated on the environment model plus the private fields later steps read; there is no separate model, so every transition counts as a trace validated against the implementation")
	res.Assume("cascades triggered by one environment event are confluent (one event at a time, run to quiescence); goroutine interleavings inside a cascade are the subject of the instrumented micro level")
	res.Assume("Temporal's receiver follows ExecutableTaskTrackerImpl (v1.31.2); the source emits strictly increasing task ids and non-decreasing exclusive high watermarks")
	outs := make([]string, 0, 3)
	for o := range st.Outcomes {
		outs = append(outs, o)
	}
	sort.Strings(outs)
	for i := 0; i < len(outs) && i < 3; i++ {
		res.Sample(map[string]any{"ack_sequences_seen_by_sources": outs[len(outs)-1-i]})
	}
}

func vfRouteReplay(t *testing.T, path string, props map[string]bool, res *vrt.Result) {
	raw, err := os.ReadFile(path)
	if err != nil {
		t.Fatal(err)
	}
	var rp struct {
		Scenario *vfRouteScenario `json:"scenario"`
		Path     []string         `json:"path"`
		Closing  bool             `json:"closing"`
	}
	if err := json.Unmarshal(raw, &rp); err != nil {
		t.Fatal(err)
	}
	out := vfRunRoute(t, &vfRouteJob{Scenario: rp.Scenario, Path: rp.Path, Closing: rp.Closing, Trace: true})
	for _, v := range out.Violations {
		if props[v.Property] && (vfOnlySigs == nil || vfOnlySigs[v.Signature]) {
			res.Violate(vfSigPrefix+v.Signature, v.Detail+"\ntrace:\n  "+strings.Join(out.Events, "\n  "), rp)
		}
	}
	t.Logf("replay: err=%q violations=%d\n  %s", out.Err, len(out.Violations), strings.Join(out.Events, "\n  "))
}

// TestVerifC09MultiProxy: the routing clause of C09 end to end - the scenarios with several proxy instances only, any
// delivery / acknowledgement oracle of the routing checks reported under C09 (a message addressed to a shard owned by
// another instance must reach it through the intra-proxy streams, exactly once, and its acknowledgement must come back).
func TestVerifC09MultiProxy(t *testing.T) {
	if vrt.IsWorker() {
		vfRouteWorker(t)
		return
	}
	res := vrt.NewResult("C09", "model_checking")
	defer func() {
		if err := res.Write(); err != nil {
			t.Fatal(err)
		}
	}()
	props := map[string]bool{"C01": true, "C02": true, "C03": true}
	if p := vrt.ReplayPath(); p != "" {
		vfRouteReplay(t, p, props, res)
		return
	}
	vfSigPrefix = "multi-proxy/"
	pool := vrt.NewPool("TestVerifC09MultiProxy", vrt.Workers(), 60*time.Second)
	deadline := vrt.Deadline()
	st := &vfBFSStats{Outcomes: map[string]bool{}, Exhaustive: true}
	var names []string
	for _, sc := range vfScenarios(vrt.Tier(), false) {
		if sc.Proxies < 2 {
			continue
		}
		before := st.States
		vfRouteBFS(t, pool, sc, vfRouteDepth(vrt.Tier()), true, props, res, deadline, st)
		names = append(names, fmt.Sprintf("%s(states=%d)", sc.Name, st.States-before))
	}
	vfRouteReport(res, st, names, pool)
	res.Assume("several proxy instances: ownership views are synchronised by a full state exchange after every environment action (the convergent outcome the first clause of C09 is about) and intra-proxy streams are in-memory pairs served by the peer's real handler; reconciliation of the intra-proxy streams is an explicit step after every action")
}

func TestVerifC01(t *testing.T) { vfRouteCheck(t, "C01", "TestVerifC01") }
func TestVerifC02(t *testing.T) { vfRouteCheck(t, "C02", "TestVerifC02") }
func TestVerifC03(t *testing.T) { vfRouteCheck(t, "C03", "TestVerifC03") }
