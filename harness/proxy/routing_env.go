//go:build verif

package proxy

// Environment for the routing-mode explorations (C01-C04, C08 full scenario): fake gRPC stream
// endpoints, the Temporal source-shard and target-shard models, and the topology builder.
// Nothing in the environment has its own thread of control: every environment behaviour is an
// explorer action executed by the bubble's root goroutine between two quiescent states.

import (
	"context"
	"errors"
	"fmt"
	"io"
	"os"
	"runtime"
	"sort"
	"strings"
	"sync"
	"time"

	"go.temporal.io/server/api/adminservice/v1"
	enumsspb "go.temporal.io/server/api/enums/v1"
	persistencespb "go.temporal.io/server/api/persistence/v1"
	replicationv1 "go.temporal.io/server/api/replication/v1"
	"go.temporal.io/server/client/history"
	servercommon "go.temporal.io/server/common"
	"go.temporal.io/server/common/log"
	"google.golang.org/grpc"
	"google.golang.org/grpc/codes"
	"google.golang.org/grpc/metadata"
	"google.golang.org/grpc/status"
	"google.golang.org/protobuf/proto"

	"github.com/temporalio/s2s-proxy/config"
	"github.com/temporalio/s2s-proxy/encryption"
	vrt "github.com/temporalio/s2s-proxy/internal/verifrt"
	"github.com/temporalio/s2s-proxy/logging"
)

const (
	vfSrcCluster = int32(1) // cluster whose shards emit replication tasks
	vfTgtCluster = int32(2) // cluster whose shards receive them
	vfNamespace  = "ns-verif"
)

// ---------------------------------------------------------------------------------------------
// fake stream endpoints

type vfItem struct {
	req  *adminservice.StreamWorkflowReplicationMessagesRequest
	resp *adminservice.StreamWorkflowReplicationMessagesResponse
	err  error
}

var errVfBroken = status.Error(codes.Unavailable, "verif: stream broken")

// vfServerStream is the proxy-side view of a stream initiated by a Temporal shard.
type vfServerStream struct {
	grpc.ServerStream
	ctx       context.Context
	cancel    context.CancelFunc
	recvQ     chan vfItem
	recvCalls int
	delivered int
	broken    bool
	returned  bool // handler returned
	retErr    error
	onSend    func(*adminservice.StreamWorkflowReplicationMessagesResponse) error
	// onEnterSend sees a message when the proxy calls Send, before the (possibly slow) write
	onEnterSend func(*adminservice.StreamWorkflowReplicationMessagesResponse)
	sendGate    chan error // non-nil: Send parks until the environment accepts or fails it
	inSend      int
	brk         chan struct{}
}

func (s *vfServerStream) breakNow() {
	if !s.broken {
		s.broken = true
		close(s.brk)
		s.cancel()
	}
}

func vfNewServerStream(client, server history.ClusterShardID, extraMD map[string]string) *vfServerStream {
	md := metadata.New(map[string]string{})
	md.Set(history.MetadataKeyClientClusterID, fmt.Sprint(client.ClusterID))
	md.Set(history.MetadataKeyClientShardID, fmt.Sprint(client.ShardID))
	md.Set(history.MetadataKeyServerClusterID, fmt.Sprint(server.ClusterID))
	md.Set(history.MetadataKeyServerShardID, fmt.Sprint(server.ShardID))
	for k, v := range extraMD {
		md.Set(k, v)
	}
	ctx, cancel := context.WithCancel(metadata.NewIncomingContext(context.Background(), md))
	return &vfServerStream{ctx: ctx, cancel: cancel, recvQ: make(chan vfItem, 256), brk: make(chan struct{})}
}

func (s *vfServerStream) Context() context.Context { return s.ctx }
func (s *vfServerStream) Recv() (*adminservice.StreamWorkflowReplicationMessagesRequest, error) {
	s.recvCalls++
	if s.broken {
		return nil, errVfBroken
	}
	select {
	case it := <-s.recvQ:
		return it.req, it.err
	case <-s.brk:
		return nil, errVfBroken
	case <-s.ctx.Done():
		return nil, status.Error(codes.Canceled, "verif: stream context cancelled")
	}
}
func (s *vfServerStream) Send(m *adminservice.StreamWorkflowReplicationMessagesResponse) error {
	// gRPC serialises the message inside Send: under the scheduler the moment the message is read is a
	// scheduling point of its own (a no-op for goroutines the scheduler does not manage)
	vrt.Point("stream", "send")
	if s.broken || s.ctx.Err() != nil {
		return errVfBroken
	}
	if s.onEnterSend != nil {
		s.onEnterSend(m)
	}
	if g := s.sendGate; g != nil {
		s.inSend++
		err := <-g
		s.inSend--
		if err != nil {
			return err
		}
		if s.broken || s.ctx.Err() != nil {
			return errVfBroken // the stream ended while the message was waiting to be written
		}
	}
	if s.onSend != nil {
		return s.onSend(m)
	}
	return nil
}
func (s *vfServerStream) deliver(it vfItem) { s.delivered++; s.recvQ <- it }
func (s *vfServerStream) atHome() bool      { return s.recvCalls == s.delivered+1 }

// vfClientStream is the proxy-side view of a stream the proxy opened towards a Temporal cluster.
type vfClientStream struct {
	grpc.ClientStream
	ctx            context.Context
	md             metadata.MD
	recvQ          chan vfItem
	recvCalls      int
	delivered      int
	broken         bool
	closeSent      bool
	ended          bool // peer ended the stream (EOF queued)
	onSend         func(*adminservice.StreamWorkflowReplicationMessagesRequest) error
	client, sv     history.ClusterShardID
	brk            chan struct{}
	noAutoEOF      bool // the peer does not end the stream when the proxy half-closes it
	blockCloseSend bool // CloseSend blocks until the stream's context ends
}

func (c *vfClientStream) breakNow() {
	if !c.broken {
		c.broken = true
		close(c.brk)
	}
}

func (c *vfClientStream) Context() context.Context     { return c.ctx }
func (c *vfClientStream) Header() (metadata.MD, error) { return metadata.MD{}, nil }
func (c *vfClientStream) Trailer() metadata.MD         { return metadata.MD{} }
func (c *vfClientStream) Recv() (*adminservice.StreamWorkflowReplicationMessagesResponse, error) {
	c.recvCalls++
	if c.broken {
		return nil, errVfBroken
	}
	select {
	case it := <-c.recvQ:
		return it.resp, it.err
	case <-c.brk:
		return nil, errVfBroken
	case <-c.ctx.Done():
		return nil, status.Error(codes.Canceled, "verif: stream context cancelled")
	}
}
func (c *vfClientStream) Send(m *adminservice.StreamWorkflowReplicationMessagesRequest) error {
	vrt.Point("stream", "send")
	if c.broken || c.ctx.Err() != nil {
		return errVfBroken
	}
	if c.closeSent {
		return errors.New("verif: Send after CloseSend")
	}
	if c.onSend != nil {
		return c.onSend(m)
	}
	return nil
}

// CloseSend half-closes; a well-behaved Temporal sender then ends the stream, so the peer's EOF
// is queued behind whatever was already delivered.
func (c *vfClientStream) CloseSend() error {
	if c.blockCloseSend {
		// the half-close cannot be written (the connection is wedged): the call returns only when the stream's context ends
		<-c.ctx.Done()
		return c.ctx.Err()
	}
	if !c.closeSent {
		c.closeSent = true
		if !c.ended && !c.noAutoEOF {
			c.ended = true
			c.delivered++
			c.recvQ <- vfItem{err: io.EOF}
		}
	}
	return nil
}
func (c *vfClientStream) deliver(it vfItem) { c.delivered++; c.recvQ <- it }
func (c *vfClientStream) atHome() bool      { return c.recvCalls == c.delivered+1 }
func (c *vfClientStream) alive() bool {
	return !c.broken && !c.ended && !c.closeSent && c.ctx.Err() == nil
}

// vfAdminClient hands out client streams and records them.
type vfAdminClient struct {
	adminservice.AdminServiceClient
	onOpen   func(*vfClientStream) error
	describe func() (*adminservice.DescribeClusterResponse, error)
}

func (a *vfAdminClient) StreamWorkflowReplicationMessages(ctx context.Context, _ ...grpc.CallOption) (adminservice.AdminService_StreamWorkflowReplicationMessagesClient, error) {
	md, _ := metadata.FromOutgoingContext(ctx)
	cs := &vfClientStream{ctx: ctx, md: md.Copy(), recvQ: make(chan vfItem, 256), brk: make(chan struct{})}
	get := func(k string) int32 {
		var n int32
		if v := md.Get(k); len(v) > 0 {
			fmt.Sscan(v[0], &n)
		}
		return n
	}
	cs.client = history.ClusterShardID{ClusterID: get(history.MetadataKeyClientClusterID), ShardID: get(history.MetadataKeyClientShardID)}
	cs.sv = history.ClusterShardID{ClusterID: get(history.MetadataKeyServerClusterID), ShardID: get(history.MetadataKeyServerShardID)}
	if a.onOpen != nil {
		if err := a.onOpen(cs); err != nil {
			return nil, err
		}
	}
	return cs, nil
}

func (a *vfAdminClient) DescribeCluster(ctx context.Context, in *adminservice.DescribeClusterRequest, _ ...grpc.CallOption) (*adminservice.DescribeClusterResponse, error) {
	if a.describe != nil {
		return a.describe()
	}
	return &adminservice.DescribeClusterResponse{}, nil
}

// ---------------------------------------------------------------------------------------------
// scenario and models

type vfBatch struct {
	IDs  []int64 `json:"ids"`
	Tgt  []int   `json:"tgt"`          // owning target shard of each task
	NS   []int   `json:"ns,omitempty"` // namespace variant per task (same workflow id, different namespace id)
	High int64   `json:"high"`
}

type vfRouteScenario struct {
	Name       string      `json:"name"`
	NS         int         `json:"ns"`
	NT         int         `json:"nt"`
	Scripts    [][]vfBatch `json:"scripts"`
	InitHigh   int64       `json:"init_high"`
	MaxWM      int         `json:"max_wm"`
	MaxAdv     int         `json:"max_adv"`
	MaxRepeat  int         `json:"max_tick_repeat"`
	InOrder    bool        `json:"in_order"`
	MaxFaults  int         `json:"max_faults"`
	ChanCap    int         `json:"chan_cap,omitempty"` // capacity of the hand-off channels (0 = the code's 100)
	RingCap    int         `json:"ring_cap,omitempty"` // initial capacity of the proxy-id ring (0 = the code's 1024)
	Gated      []int       `json:"gated,omitempty"`    // target shards whose stream accepts a Send only on the action accept:k (slow target)
	FaultKinds []string    `json:"fault_kinds,omitempty"`
	// Proxies > 1: several proxy instances (own shard manager, own servers) share the two Temporal clusters; PlaceT /
	// PlaceS say which instance (0-based) each target / source shard's stream connects to (default: instance 0).
	// Instances learn each other's ownership by a state exchange after every environment action (the convergent
	// outcome of C09) and their intra-proxy streams are in-memory pairs.
	Proxies int   `json:"proxies,omitempty"`
	PlaceT  []int `json:"place_t,omitempty"`
	PlaceS  []int `json:"place_s,omitempty"`
	// PlaceTNext: the instance a target shard's LATER streams (reconnects) go to; Overlap enables, in the macro search,
	// a reconnect while the old stream is still alive (reopenT) and the later end of the old stream (breakOldT).
	PlaceTNext []int `json:"place_t_next,omitempty"`
	Overlap    bool  `json:"overlap,omitempty"`
	// LaneAcks: targets acknowledge as Temporal's tiered receiver does (a state per priority lane next to the flat field)
	LaneAcks bool `json:"lane_acks,omitempty"`
	// WMAdvance: the first watermark-only batch after the last scripted batch carries a high watermark this much
	// above the last batch's (the source's watermark advances without tasks for this cluster)
	WMAdvance int64 `json:"wm_advance,omitempty"`
	// WMStep: EVERY watermark-only batch carries a high watermark this much above the previous message's (so a stale
	// watermark can be told from the current one)
	WMStep int64 `json:"wm_step,omitempty"`
	// EagerAck: the targets complete and acknowledge every task batch the moment it is written to their stream
	EagerAck bool `json:"eager_ack,omitempty"`
	// OverlapInPlace (with Overlap): target shard k reconnects on the instance it is already connected to
	OverlapInPlace int `json:"overlap_in_place,omitempty"`
	// HungSource: the source cluster does not end a pull stream when the proxy half-closes it (an unresponsive or dead
	// source stream: Recv returns only when the stream's context is cancelled)
	HungSource bool `json:"hung_source,omitempty"`
	// LatePeers: the instances know each other's shards from the start, but the intra-proxy streams between them come
	// up only on the action "peers" (a peer that is slow to connect)
	LatePeers bool `json:"late_peers,omitempty"`
}

type vfTaskRec struct {
	Src  int
	ID   int64
	Tag  string
	Tgt  int
	NSV  int
	Pull int // pull-stream incarnation that returned it
}

type vfDelivery struct {
	Tgt, Inc int
	ProxyID  int64
}

type vfSentMsg struct {
	IDs  []int64
	Tags []string
	High int64
}

type vfTrk struct {
	id   int64
	done bool
}

// vfTgtStream is one incarnation of a target shard's stream with its Temporal receiver model.
type vfTgtStream struct {
	*vfServerStream
	sent      []vfSentMsg
	high      *int64
	queue     []vfTrk
	acks      []int64
	lastTick  int64
	repeats   int
	malformed string
}

type vfSrc struct {
	lastWasWM    bool // the last message this source sent was a watermark-only batch
	wmAdvanced   bool
	failNextOpen bool // the next stream the proxy opens towards this source shard fails (C08 scenarios)
	idx          int
	script       []vfBatch // what the source will send on the current pull stream (resumes from its acked level after a reconnect)
	pos          int
	wmUsed       int
	curHigh      int64
	incoming     []*vfServerStream
	pulls        []*vfSrcPull
}

type vfSrcPull struct {
	*vfClientStream
	acks      []int64
	maxHigh   int64 // largest ExclusiveHighWatermark returned on this stream so far
	anyReturn bool
}

type vfTgt struct {
	idx      int
	incoming []*vfTgtStream
	pulls    []*vfClientStream
}

type vfViolation struct {
	Property  string
	Signature string
	Detail    string
}

type vfInst struct {
	name     string
	addr     string
	sm       *shardManagerImpl
	inbound  adminservice.AdminServiceServer
	outbound adminservice.AdminServiceServer
}

type vfRouteExec struct {
	sc     *vfRouteScenario
	sm     *shardManagerImpl // instance 0's
	inst   []*vfInst
	intraN int // intra-proxy streams opened so far
	hmu    sync.Mutex
	// cbmu serialises the environment's callbacks (they run on goroutines of the code under test, which run freely
	// once the scheduler is detached); lmu protects the event log and the violation list
	cbmu, lmu     sync.Mutex
	regOps        []vfRegOp
	handoff       []chan RoutedMessage
	handoffEnded  map[chan RoutedMessage]bool
	stranded      map[string]bool
	inbound       adminservice.AdminServiceServer
	outbound      adminservice.AdminServiceServer
	stop          context.CancelFunc
	now           int
	src           []*vfSrc
	tgt           []*vfTgt
	returned      []vfTaskRec
	deliv         map[string][]vfDelivery
	viol          []vfViolation
	events        []string // human-readable observation log
	faults        int
	panics        []string
	closing       bool
	failIntraSend bool                // fault: the next task batch sent on an intra-proxy stream fails (and the stream with it)
	entered       map[string][][2]int // task tag -> (target, stream incarnation) whose Send the proxy has called with it
	settleProp    string              // non-empty: the settled oracle reports under this property
	wmSent        map[[2]int64]bool   // (source shard, high watermark) of every watermark-only batch a source has sent
	peersUp       bool                // LatePeers scenarios: the intra-proxy streams may be established
	// spawn starts a handler goroutine (plain go at the macro level, a managed goroutine at the micro level)
	spawn func(name string, f func())
	// changed is closed (and replaced) on every environment-visible event, for goroutines waiting on a condition
	changed chan struct{}
}

// accept lets one parked Send on target k's stream proceed (the slow target reads one message).
func (e *vfRouteExec) accept(t *vfTgt) {
	ts := t.cur()
	if ts != nil && ts.inSend > 0 {
		ts.sendGate <- nil
	}
}

// ungate releases every parked Send and turns gating off (closing phase: targets keep up).
func (e *vfRouteExec) ungate(wait func()) {
	for _, t := range e.tgt {
		for _, ts := range t.incoming {
			g := ts.sendGate
			if g == nil {
				continue
			}
			ts.sendGate = nil
			for ts.inSend > 0 {
				g <- nil
				wait()
			}
		}
	}
}

var vfWorkflowForShard = map[[2]int]string{}

// vfWorkflowID returns a workflow id that Temporal's own function hashes to shard k of n.
func vfWorkflowID(n, k int) string {
	key := [2]int{n, k}
	if w, ok := vfWorkflowForShard[key]; ok {
		return w
	}
	for i := 0; ; i++ {
		w := fmt.Sprintf("wf-%d", i)
		if int(servercommon.WorkflowIDToHistoryShard(vfNamespace, w, int32(n))) == k {
			vfWorkflowForShard[key] = w
			return w
		}
	}
}

const vfNamespace1 = "ns-verif-other"

var vfSharedWFCache = map[int]string{}

// vfSharedWF returns one workflow id that shard 1 owns under namespace variant 2 (= vfNamespace) and
// shard 2 owns under namespace variant 1 (= vfNamespace1): same workflow id, two namespaces, two owners.
func vfSharedWF(n int) string {
	if w, ok := vfSharedWFCache[n]; ok {
		return w
	}
	for i := 0; ; i++ {
		w := fmt.Sprintf("shared-wf-%d", i)
		if servercommon.WorkflowIDToHistoryShard(vfNamespace, w, int32(n)) == 1 && servercommon.WorkflowIDToHistoryShard(vfNamespace1, w, int32(n)) == 2 {
			vfSharedWFCache[n] = w
			return w
		}
	}
}

func vfNoopLoggers() logging.LoggerProvider {
	return logging.NewLoggerProvider(log.NewNoopLogger(), config.NewMockConfigProvider(config.S2SProxyConfig{}))
}

func vfNewRouteExec(sc *vfRouteScenario) *vfRouteExec {
	e := &vfRouteExec{sc: sc, deliv: map[string][]vfDelivery{}}
	vrt.SetCaps(sc.ChanCap, sc.RingCap)
	loggers := vfNoopLoggers()
	lifetime, cancel := context.WithCancel(context.Background())
	e.stop = cancel
	scc := config.ShardCountConfig{Mode: config.ShardCountRouting}
	for i := 1; i <= sc.NS; i++ {
		e.src = append(e.src, &vfSrc{idx: i, curHigh: sc.InitHigh, script: sc.Scripts[i-1]})
	}
	for k := 1; k <= sc.NT; k++ {
		e.tgt = append(e.tgt, &vfTgt{idx: k})
	}
	// adminClientReverse of the outbound server = the source cluster; of the inbound = the target.
	srcClient := &vfAdminClient{onOpen: e.onSourcePullOpen}
	tgtClient := &vfAdminClient{onOpen: e.onTargetPullOpen}
	n := sc.Proxies
	if n < 1 {
		n = 1
	}
	addrs := map[string]string{}
	for i := 0; i < n; i++ {
		addrs[fmt.Sprintf("n%d", i+1)] = fmt.Sprintf("verif-n%d:7233", i+1)
	}
	for i := 0; i < n; i++ {
		in := &vfInst{name: fmt.Sprintf("n%d", i+1)}
		in.addr = addrs[in.name]
		if n == 1 {
			in.sm = NewShardManager(nil, scc, encryption.TLSConfig{}, loggers).(*shardManagerImpl)
			if err := in.sm.Start(lifetime); err != nil {
				panic(err)
			}
		} else {
			// what Start does, minus opening memberlist sockets and minus the reconcile timer loop (reconciliation is an
			// explicit step of the harness): callbacks wired, manager marked started
			mc := &config.MemberlistConfig{Enabled: true, NodeName: in.name, ProxyAddresses: addrs}
			in.sm = NewShardManager(mc, scc, encryption.TLSConfig{}, loggers).(*shardManagerImpl)
			in.sm.SetupCallbacks()
			in.sm.started = true
		}
		smw := &vfSMRecorder{shardManagerImpl: in.sm, e: e}
		observer := NewReplicationStreamObserver(log.NewNoopLogger())
		// the parameters NewClusterConnection gives the two directions (see getRoutingParameters)
		in.outbound = NewAdminServiceProxyServer("outbound", tgtClient, srcClient, AdminServiceOverrides{}, []string{"outbound"},
			observer.ReportStreamValue, scc, LCMParameters{},
			RoutingParameters{OverrideShardCount: int32(sc.NS), RoutingLocalShardCount: int32(sc.NT), DirectionLabel: "outbound"},
			loggers, smw, lifetime)
		in.inbound = NewAdminServiceProxyServer("inbound", srcClient, tgtClient, AdminServiceOverrides{}, []string{"inbound"},
			observer.ReportStreamValue, scc, LCMParameters{},
			RoutingParameters{OverrideShardCount: int32(sc.NT), RoutingLocalShardCount: int32(sc.NS), DirectionLabel: "inbound"},
			loggers, smw, lifetime)
		e.inst = append(e.inst, in)
	}
	e.sm, e.inbound, e.outbound = e.inst[0].sm, e.inst[0].inbound, e.inst[0].outbound
	if n > 1 {
		vrt.SetHook("intra-admin-client", func(c any) any {
			conn, ok := c.(*grpc.ClientConn)
			if !ok {
				return nil
			}
			for _, in := range e.inst {
				if strings.Contains(conn.Target(), in.addr) {
					return &vfIntraClient{e: e, to: in}
				}
			}
			return nil
		})
	} else {
		vrt.SetHook("intra-admin-client", nil)
	}
	return e
}

// vfIntraClient is the client an instance uses towards a peer instance (rewriter rule intraclient): a stream it
// opens is an in-memory pair whose server end is served by the peer's real handler; messages are copied on the
// hop, as a gRPC hop would.
type vfIntraClient struct {
	adminservice.AdminServiceClient
	e  *vfRouteExec
	to *vfInst
}

func (c *vfIntraClient) StreamWorkflowReplicationMessages(ctx context.Context, _ ...grpc.CallOption) (adminservice.AdminService_StreamWorkflowReplicationMessagesClient, error) {
	md, _ := metadata.FromOutgoingContext(ctx)
	cs := &vfClientStream{ctx: ctx, md: md.Copy(), recvQ: make(chan vfItem, 256), brk: make(chan struct{})}
	sctx, cancel := context.WithCancel(metadata.NewIncomingContext(context.Background(), md.Copy()))
	ss := &vfServerStream{ctx: sctx, cancel: cancel, recvQ: make(chan vfItem, 256), brk: make(chan struct{})}
	cs.onSend = func(m *adminservice.StreamWorkflowReplicationMessagesRequest) error {
		ss.deliver(vfItem{req: proto.Clone(m).(*adminservice.StreamWorkflowReplicationMessagesRequest)})
		return nil
	}
	ss.onSend = func(m *adminservice.StreamWorkflowReplicationMessagesResponse) error {
		c.e.hmu.Lock()
		fail := c.e.failIntraSend && len(m.GetMessages().GetReplicationTasks()) > 0
		if fail {
			c.e.failIntraSend = false
		}
		c.e.hmu.Unlock()
		if fail {
			// the connection between the two instances fails while this message is being written: the Send reports an
			// error, both ends of the stream are gone
			c.e.logf("intra-proxy stream towards %s fails while a task batch is being sent", c.to.name)
			ss.breakNow()
			cs.breakNow()
			return errVfBroken
		}
		cs.deliver(vfItem{resp: proto.Clone(m).(*adminservice.StreamWorkflowReplicationMessagesResponse)})
		return nil
	}
	stop := context.AfterFunc(ctx, cancel) // the client going away cancels the server side
	c.e.hmu.Lock()
	c.e.intraN++
	name := fmt.Sprintf("intra#%d->%s", c.e.intraN, c.to.name)
	c.e.hmu.Unlock()
	start := c.e.spawn
	if start == nil {
		start = func(_ string, f func()) { go f() }
	}
	start(name, func() {
		defer func() {
			if p := recover(); p != nil {
				c.e.panics = append(c.e.panics, fmt.Sprintf("%s: %v", name, p))
			}
			stop()
			ss.returned = true
			cancel()
			cs.deliver(vfItem{err: io.EOF})
		}()
		_ = c.to.outbound.StreamWorkflowReplicationMessages(ss)
	})
	return cs, nil
}

// syncInstances: the instances exchange their ownership state (what memberlist's push/pull converges to) and run
// the reconciliation of their intra-proxy streams (what the manager's timer does every second).
func (e *vfRouteExec) syncInstances(wait func()) {
	if len(e.inst) < 2 {
		return
	}
	for round := 0; round < 2; round++ {
		for _, a := range e.inst {
			st := a.sm.delegate.LocalState(false)
			for _, b := range e.inst {
				if a != b {
					b.sm.delegate.MergeRemoteState(st, false)
				}
			}
		}
		wait()
		if e.sc.LatePeers && !e.peersUp {
			continue
		}
		for _, in := range e.inst {
			in.sm.GetIntraProxyManager().ReconcilePeerStreams("")
			wait()
		}
	}
}

// vfSMRecorder is the shard manager handed to the handlers: the real one, plus a record of every hand-off
// channel a target sender ever registered (the early-ack oracle looks into the buffers of ended senders to
// tell "accepted by a sender that then ended" from "vanished").
type vfSMRecorder struct {
	*shardManagerImpl
	e *vfRouteExec
}

func (r *vfSMRecorder) SetRemoteSendChan(shardID history.ClusterShardID, ch chan RoutedMessage) {
	r.e.hmu.Lock()
	r.e.handoff = append(r.e.handoff, ch)
	r.e.hmu.Unlock()
	r.shardManagerImpl.SetRemoteSendChan(shardID, ch)
}

// registry operations of the receiver side, with the root thread (= stream incarnation) that performed them
type vfRegOp struct {
	Op, Shard, By string
}

func (r *vfSMRecorder) note(op string, shard history.ClusterShardID) {
	by := vrt.CurName()
	if i := strings.Index(by, "/"); i >= 0 {
		by = by[:i]
	}
	r.e.hmu.Lock()
	r.e.regOps = append(r.e.regOps, vfRegOp{op, ClusterShardIDtoShortString(shard), by})
	r.e.hmu.Unlock()
}

func (r *vfSMRecorder) RegisterActiveReceiver(shard history.ClusterShardID, recv ActiveReceiver) {
	r.shardManagerImpl.RegisterActiveReceiver(shard, recv)
	r.note("register-active-receiver", shard) // after the call: the log is in the order of the effects (no scheduling point lies between)
}
func (r *vfSMRecorder) UnregisterActiveReceiver(shard history.ClusterShardID) {
	r.shardManagerImpl.UnregisterActiveReceiver(shard)
	r.note("unregister-active-receiver", shard) // after the call: the log is in the order of the effects (no scheduling point lies between)
}
func (r *vfSMRecorder) SetLocalReceiverCancelFunc(shard history.ClusterShardID, f context.CancelFunc) {
	r.shardManagerImpl.SetLocalReceiverCancelFunc(shard, f)
	r.note("set-cancel-func", shard) // after the call: the log is in the order of the effects (no scheduling point lies between)
}
func (r *vfSMRecorder) RemoveLocalReceiverCancelFunc(shard history.ClusterShardID) {
	r.shardManagerImpl.RemoveLocalReceiverCancelFunc(shard)
	r.note("remove-cancel-func", shard) // after the call: the log is in the order of the effects (no scheduling point lies between)
}

// registryKeys: which shards have an entry in each table of the shard manager (keys only).
func (e *vfRouteExec) registryKeys() map[string][]string {
	sm := e.sm
	out := map[string][]string{}
	keys := func(name string, ks []history.ClusterShardID) {
		xs := []string{}
		for _, k := range ks {
			xs = append(xs, ClusterShardIDtoShortString(k))
		}
		sort.Strings(xs)
		out[name] = xs
	}
	sm.mutex.RLock()
	ls := []string{}
	for k := range sm.localShards {
		ls = append(ls, k)
	}
	sm.mutex.RUnlock()
	sort.Strings(ls)
	out["ownership"] = ls
	var ks []history.ClusterShardID
	sm.remoteSendChannelsMu.RLock()
	for k := range sm.remoteSendChannels {
		ks = append(ks, k)
	}
	sm.remoteSendChannelsMu.RUnlock()
	keys("delivery-channel", ks)
	ks = nil
	sm.localAckChannelsMu.RLock()
	for k := range sm.localAckChannels {
		ks = append(ks, k)
	}
	sm.localAckChannelsMu.RUnlock()
	keys("ack-channel", ks)
	ks = nil
	sm.localReceiverCancelFuncsMu.RLock()
	for k := range sm.localReceiverCancelFuncs {
		ks = append(ks, k)
	}
	sm.localReceiverCancelFuncsMu.RUnlock()
	keys("cancel-func", ks)
	ks = nil
	sm.activeReceiversMu.RLock()
	for k := range sm.activeReceivers {
		ks = append(ks, k)
	}
	sm.activeReceiversMu.RUnlock()
	keys("active-receiver", ks)
	return out
}

func (r *vfSMRecorder) RemoveRemoteSendChan(shardID history.ClusterShardID, ch chan RoutedMessage) {
	r.shardManagerImpl.RemoveRemoteSendChan(shardID, ch)
	r.e.hmu.Lock()
	if r.e.handoffEnded == nil {
		r.e.handoffEnded = map[chan RoutedMessage]bool{}
	}
	r.e.handoffEnded[ch] = true
	r.e.hmu.Unlock()
}

// strandedInEndedHandoff drains the hand-off channels whose sender has deregistered them (it has ended)
// and remembers the task tags found there.
func (e *vfRouteExec) strandedInEndedHandoff(tag string) bool {
	e.hmu.Lock()
	defer e.hmu.Unlock()
	if e.stranded == nil {
		e.stranded = map[string]bool{}
	}
	for _, ch := range e.handoff {
		if !e.handoffEnded[ch] {
			continue
		}
	drain:
		for {
			select {
			case m, ok := <-ch:
				if !ok {
					break drain
				}
				for _, task := range m.Resp.GetMessages().GetReplicationTasks() {
					e.stranded[task.GetRawTaskInfo().GetRunId()] = true
				}
			default:
				break drain
			}
		}
	}
	return e.stranded[tag]
}

func (e *vfRouteExec) logf(f string, a ...any) {
	e.lmu.Lock()
	defer e.lmu.Unlock()
	e.events = append(e.events, fmt.Sprintf(f, a...))
	if e.changed != nil {
		close(e.changed)
		e.changed = make(chan struct{})
	}
}

func (e *vfRouteExec) violate(prop, sig, detail string) {
	e.lmu.Lock()
	defer e.lmu.Unlock()
	for _, v := range e.viol {
		if v.Property == prop && v.Signature == sig {
			return
		}
	}
	e.viol = append(e.viol, vfViolation{prop, sig, detail})
}

// --- source side

func (e *vfRouteExec) onSourcePullOpen(cs *vfClientStream) error {
	e.cbmu.Lock()
	defer e.cbmu.Unlock()
	if cs.sv.ClusterID != vfSrcCluster || int(cs.sv.ShardID) < 1 || int(cs.sv.ShardID) > len(e.src) {
		e.violate("C02", "pull-stream-bad-metadata", fmt.Sprintf("proxy opened a pull stream with metadata client=%v server=%v", cs.client, cs.sv))
		return nil
	}
	s := e.src[cs.sv.ShardID-1]
	if s.failNextOpen {
		s.failNextOpen = false
		e.logf("S%d: the proxy's attempt to open a pull stream fails", s.idx)
		return errors.New("verif: cannot open the stream towards the source")
	}
	cs.noAutoEOF = e.sc.HungSource
	p := &vfSrcPull{vfClientStream: cs}
	inc := len(s.pulls)
	s.pulls = append(s.pulls, p)
	if inc > 0 {
		// Temporal's sender resumes reading from the level the receiver acknowledged
		level := int64(-1)
		for _, old := range s.pulls[:inc] {
			for _, a := range old.acks {
				if a > level {
					level = a
				}
			}
		}
		var rest []vfBatch
		for _, b := range e.sc.Scripts[s.idx-1] {
			nb := vfBatch{High: b.High}
			for i, id := range b.IDs {
				if id >= level {
					nb.IDs = append(nb.IDs, id)
					nb.Tgt = append(nb.Tgt, b.Tgt[i])
					if i < len(b.NS) {
						nb.NS = append(nb.NS, b.NS[i])
					}
				}
			}
			if len(nb.IDs) > 0 {
				rest = append(rest, nb)
			}
		}
		s.script, s.pos = rest, 0
		// a watermark-only batch says "nothing below this is unsent": on a new stream that is the resume level
		s.curHigh = e.sc.InitHigh
		if level > s.curHigh {
			s.curHigh = level
		}
		e.logf("S%d resumes from acknowledged level %d: %d batches to (re)send", s.idx, level, len(rest))
	}
	cs.onSend = func(m *adminservice.StreamWorkflowReplicationMessagesRequest) error {
		st := m.GetSyncReplicationState()
		if st == nil {
			e.violate("C03", "non-sync-request-to-source", fmt.Sprintf("source %d received %v", s.idx, m))
			return nil
		}
		e.onSourceAck(s, inc, st.InclusiveLowWatermark)
		return nil
	}
	e.logf("S%d: proxy opened pull stream #%d", s.idx, inc)
	return nil
}

func (e *vfRouteExec) onTargetPullOpen(cs *vfClientStream) error {
	if int(cs.sv.ShardID) >= 1 && int(cs.sv.ShardID) <= len(e.tgt) {
		t := e.tgt[cs.sv.ShardID-1]
		t.pulls = append(t.pulls, cs)
	}
	return nil
}

func (s *vfSrc) pull() *vfSrcPull {
	if len(s.pulls) == 0 {
		return nil
	}
	return s.pulls[len(s.pulls)-1]
}

func vfTag(src int, id int64) string { return fmt.Sprintf("s%d-t%d", src, id) }

func (e *vfRouteExec) makeTask(src int, id int64, tgt int, nsVariant int) *replicationv1.ReplicationTask {
	if nsVariant != 0 {
		t := e.makeTask(src, id, tgt, 0)
		t.RawTaskInfo.WorkflowId = vfSharedWF(e.sc.NT)
		if nsVariant == 1 {
			t.RawTaskInfo.NamespaceId = vfNamespace1
		}
		if own := int(servercommon.WorkflowIDToHistoryShard(t.RawTaskInfo.NamespaceId, t.RawTaskInfo.WorkflowId, int32(e.sc.NT))); own != tgt {
			panic(fmt.Sprintf("scenario error: task %d variant %d is owned by shard %d, scenario says %d", id, nsVariant, own, tgt))
		}
		return t
	}
	return &replicationv1.ReplicationTask{
		TaskType:     enumsspb.REPLICATION_TASK_TYPE_HISTORY_TASK,
		SourceTaskId: id,
		Priority:     enumsspb.TASK_PRIORITY_HIGH,
		RawTaskInfo: &persistencespb.ReplicationTaskInfo{
			NamespaceId: vfNamespace,
			WorkflowId:  vfWorkflowID(e.sc.NT, tgt),
			RunId:       vfTag(src, id),
			TaskId:      id,
			Version:     7,
		},
	}
}

// emit sends the next script batch (resending from the acknowledged level is modelled by the
// fault actions, which rewind pos).
func (e *vfRouteExec) emit(s *vfSrc) {
	p := s.pull()
	b := s.script[s.pos]
	s.pos++
	msgs := &replicationv1.WorkflowReplicationMessages{ExclusiveHighWatermark: b.High, Priority: enumsspb.TASK_PRIORITY_HIGH}
	for i, id := range b.IDs {
		nsv := 0
		if i < len(b.NS) {
			nsv = b.NS[i]
		}
		msgs.ReplicationTasks = append(msgs.ReplicationTasks, e.makeTask(s.idx, id, b.Tgt[i], nsv))
		known := false
		for _, r := range e.returned {
			if r.Src == s.idx && r.ID == id {
				known = true
			}
		}
		if !known {
			e.returned = append(e.returned, vfTaskRec{Src: s.idx, ID: id, Tag: vfTag(s.idx, id), Tgt: b.Tgt[i], NSV: nsv, Pull: len(s.pulls) - 1})
		}
	}
	s.curHigh = b.High
	s.lastWasWM = false
	if b.High > p.maxHigh {
		p.maxHigh = b.High
	}
	p.anyReturn = true
	e.logf("S%d emits ids=%v high=%d", s.idx, b.IDs, b.High)
	p.deliver(vfItem{resp: &adminservice.StreamWorkflowReplicationMessagesResponse{
		Attributes: &adminservice.StreamWorkflowReplicationMessagesResponse_Messages{Messages: msgs}}})
}

func (e *vfRouteExec) watermark(s *vfSrc) {
	p := s.pull()
	if e.sc.WMAdvance > 0 && !s.wmAdvanced && s.pos >= len(s.script) {
		// the source's high watermark moves on without tasks for this cluster (tasks of other clusters, filtered
		// tasks): once every scripted batch has been sent, the next watermark-only batch carries a higher value
		s.wmAdvanced = true
		s.curHigh += e.sc.WMAdvance
	}
	s.curHigh += e.sc.WMStep
	if s.curHigh > p.maxHigh {
		p.maxHigh = s.curHigh
	}
	p.anyReturn = true
	s.lastWasWM = true
	if e.wmSent == nil {
		e.wmSent = map[[2]int64]bool{}
	}
	e.wmSent[[2]int64{int64(s.idx), s.curHigh}] = true
	e.logf("S%d sends watermark-only batch high=%d", s.idx, s.curHigh)
	p.deliver(vfItem{resp: &adminservice.StreamWorkflowReplicationMessagesResponse{
		Attributes: &adminservice.StreamWorkflowReplicationMessagesResponse_Messages{
			Messages: &replicationv1.WorkflowReplicationMessages{ExclusiveHighWatermark: s.curHigh, Priority: enumsspb.TASK_PRIORITY_HIGH}}}})
}

// checkBookkeeping (C05 at the level of a real sender): the proxy-id table of every target stream's sender, as the
// production debug snapshot shows it, maps each outstanding proxy id back to where it came from - an entry that belongs
// to a task seen on the wire names that task's source shard and original id; any other entry names a source shard and a
// value that this source has sent as a watermark-only batch (or a task of it that is still on its way to this target).
func (e *vfRouteExec) checkBookkeeping() {
	streams := GetGlobalStreamTracker().GetActiveStreams()
	sort.Slice(streams, func(i, j int) bool { return streams[i].ID < streams[j].ID })
	for _, t := range e.tgt {
		live := 0
		for _, in := range t.incoming {
			if !in.returned {
				live++
			}
		}
		ts := t.cur()
		if ts == nil || ts.broken || ts.returned || live != 1 {
			continue
		}
		inc := len(t.incoming) - 1
		me := ClusterShardIDtoString(history.ClusterShardID{ClusterID: vfTgtCluster, ShardID: int32(t.idx)})
		for _, si := range streams {
			if si.SenderDebug == nil || (si.ClientShard != me && si.ServerShard != me) || si.Role != StreamRoleSender {
				continue
			}
			for _, en := range si.SenderDebug.EntriesPreview {
				want := ""
				for tag, ds := range e.deliv {
					for _, d := range ds {
						if d.Tgt == t.idx && d.Inc == inc && d.ProxyID == en.ProxyID {
							for _, r := range e.returned {
								if r.Tag == tag {
									want = fmt.Sprintf("%s/%d", ClusterShardIDtoString(history.ClusterShardID{ClusterID: vfSrcCluster, ShardID: int32(r.Src)}), r.ID)
								}
							}
						}
					}
				}
				got := fmt.Sprintf("%s/%d", en.SourceShard, en.SourceTask)
				if want != "" {
					if got != want {
						e.violate("C05", "sender-table/task-entry-maps-to-the-wrong-origin", fmt.Sprintf("target %d stream #%d: proxy id %d was given to task %s, the sender's table maps it to %s", t.idx, inc, en.ProxyID, want, got))
					}
					continue
				}
				ok := false
				for _, src := range e.src {
					ss := ClusterShardIDtoString(history.ClusterShardID{ClusterID: vfSrcCluster, ShardID: int32(src.idx)})
					if en.SourceShard != ss {
						continue
					}
					if e.wmSent[[2]int64{int64(src.idx), en.SourceTask}] {
						ok = true
					}
					for _, r := range e.returned {
						if r.Src == src.idx && r.ID == en.SourceTask && r.Tgt == t.idx {
							ok = true // a task that is still on its way to this target
						}
					}
				}
				if !ok {
					e.violate("C05", "sender-table/entry-names-an-origin-that-never-sent-it", fmt.Sprintf("target %d stream #%d: the sender's table maps proxy id %d to %s - no task seen on this stream has that proxy id, and that source shard has sent neither a watermark-only batch nor a task for this target with that value", t.idx, inc, en.ProxyID, got))
				}
			}
		}
	}
}

// onSourceAck is the C01/C03/C04 safety oracle, evaluated at every SyncReplicationState the
// proxy sends towards a source shard.
func (e *vfRouteExec) onSourceAck(s *vfSrc, inc int, a int64) {
	e.cbmu.Lock()
	defer e.cbmu.Unlock()
	p := s.pulls[inc]
	e.logf("S%d (pull #%d) receives ack %d", s.idx, inc, a)
	// C03 safety
	if n := len(p.acks); n > 0 && a < p.acks[n-1] {
		e.violate("C03", "ack-decreased", fmt.Sprintf("source %d stream #%d: ack %d after %d", s.idx, inc, a, p.acks[n-1]))
	}
	if a > p.maxHigh {
		e.violate("C03", "ack-above-high", fmt.Sprintf("source %d stream #%d: ack %d exceeds the largest exclusive high watermark returned on that stream (%d)", s.idx, inc, a, p.maxHigh))
	}
	p.acks = append(p.acks, a)
	// C01 / C04
	prop := "C01"
	if e.faults > 0 {
		prop = "C04"
	}
	for _, r := range e.returned {
		if r.Src != s.idx || r.ID >= a {
			continue
		}
		ds := e.deliv[r.Tag]
		kind := "not-forwarded"
		ok := false
		liveHolder := false
		for _, d := range ds {
			ts := e.tgt[d.Tgt-1].incoming[d.Inc]
			if !ts.broken && !ts.returned {
				liveHolder = true
			}
			for _, w := range ts.acks {
				if w > d.ProxyID {
					ok = true
				}
			}
		}
		enteredDead := -1
		if len(ds) == 0 {
			// the proxy had called Send with the task on a stream that then ended before the write completed: it was in
			// flight on that (dead) stream
			for _, en := range e.entered[r.Tag] {
				ts := e.tgt[en[0]-1].incoming[en[1]]
				if ts.broken || ts.returned {
					kind = "unconfirmed-task-on-dead-target-stream"
					enteredDead = en[1]
				}
			}
		}
		if len(ds) == 0 && enteredDead < 0 {
			for _, ts := range e.tgt[r.Tgt-1].incoming {
				if ts.broken && e.strandedInEndedHandoff(r.Tag) {
					// the owner's stream ended at some point and the task sits in the hand-off queue of its ended sender:
					// it was accepted by (the queue of) a stream that never put it on the wire
					kind = "task-lost-in-handoff-to-ended-target-stream"
				}
			}
		}
		if len(ds) > 0 {
			switch {
			case !liveHolder:
				// forwarded only on target streams that have since ended; the target's later stream(s) never saw it
				kind = "unconfirmed-task-on-dead-target-stream"
			default:
				kind = "live-target-has-not-confirmed"
			}
		}
		if !ok && (kind == "unconfirmed-task-on-dead-target-stream" || kind == "task-lost-in-handoff-to-ended-target-stream") {
			// which history let the acknowledgement pass: the owner shard came back and its next stream (a new sender, whose
			// proxy ids start over) acknowledged something - or the owner has not acknowledged anything since, and the level
			// moved for another reason
			firstEnded := -1
			for i, ts := range e.tgt[r.Tgt-1].incoming {
				if ts.broken || ts.returned {
					firstEnded = i
					break
				}
			}
			if len(ds) > 0 {
				firstEnded = ds[len(ds)-1].Inc
			} else if enteredDead >= 0 {
				firstEnded = enteredDead
			}
			sub := "owner-shard-has-not-acknowledged-since"
			for i, ts := range e.tgt[r.Tgt-1].incoming {
				if firstEnded >= 0 && i > firstEnded && len(ts.acks) > 0 {
					sub = "acknowledged-by-the-owner-shards-next-stream"
				}
			}
			kind += "/" + sub
		}
		if !ok {
			e.violate(prop, "early-ack/"+kind, fmt.Sprintf("source %d received ack %d covering its task %d (owner: target shard %d) which no target stream has acknowledged [%s]; deliveries=%v",
				s.idx, a, r.ID, r.Tgt, kind, ds))
		}
	}
}

// --- target side

func (e *vfRouteExec) onTargetSend(t *vfTgt, inc int, m *adminservice.StreamWorkflowReplicationMessagesResponse) {
	e.cbmu.Lock()
	defer e.cbmu.Unlock()
	ts := t.incoming[inc]
	msgs := m.GetMessages()
	if msgs == nil {
		e.violate("C02", "non-messages-response-to-target", fmt.Sprintf("target %d received %v", t.idx, m))
		return
	}
	sm := vfSentMsg{High: msgs.ExclusiveHighWatermark}
	for _, task := range msgs.ReplicationTasks {
		tag := task.GetRawTaskInfo().GetRunId()
		sm.IDs = append(sm.IDs, task.SourceTaskId)
		sm.Tags = append(sm.Tags, tag)
		e.checkDeliveredTask(t, inc, task)
		e.deliv[tag] = append(e.deliv[tag], vfDelivery{Tgt: t.idx, Inc: inc, ProxyID: task.SourceTaskId})
	}
	e.logf("T%d#%d receives ids=%v tags=%v high=%d", t.idx, inc, sm.IDs, sm.Tags, sm.High)
	// C02 well-formedness on the wire
	if len(sm.IDs) > 0 {
		last := int64(-1)
		for _, prev := range ts.sent {
			for _, id := range prev.IDs {
				if id > last {
					last = id
				}
			}
		}
		for _, id := range sm.IDs {
			if id <= last {
				e.violate("C02", "task-ids-not-increasing", fmt.Sprintf("target %d stream #%d: task id %d after %d", t.idx, inc, id, last))
			}
			last = id
		}
		if sm.High <= last {
			e.violate("C02", "high-not-above-last-task", fmt.Sprintf("target %d stream #%d: exclusive high %d with last task id %d", t.idx, inc, sm.High, last))
		}
		for _, prev := range ts.sent {
			if sm.High <= prev.High {
				e.violate("C02", "high-not-above-earlier-high", fmt.Sprintf("target %d stream #%d: task-bearing message with high %d after a message with high %d", t.idx, inc, sm.High, prev.High))
			}
		}
	}
	ts.sent = append(ts.sent, sm)
	// Temporal's ExecutableTaskTracker.TrackTasks
	if ts.high != nil && sm.High <= *ts.high {
		if len(sm.IDs) > 0 {
			e.violate("C02", "receiver-drops-tasks", fmt.Sprintf("target %d stream #%d: Temporal's tracker drops the message ids=%v high=%d because high <= previous high %d", t.idx, inc, sm.IDs, sm.High, *ts.high))
		}
		return
	}
	lastQ := int64(-1)
	if n := len(ts.queue); n > 0 {
		lastQ = ts.queue[n-1].id
	}
	for _, id := range sm.IDs {
		if lastQ >= id {
			e.violate("C02", "receiver-drops-tasks", fmt.Sprintf("target %d stream #%d: Temporal's tracker drops task %d (last tracked %d)", t.idx, inc, id, lastQ))
			continue
		}
		ts.queue = append(ts.queue, vfTrk{id: id})
		lastQ = id
	}
	if sm.High <= lastQ {
		ts.malformed = fmt.Sprintf("ExecutableTaskTracker encountered lower high watermark: %d < %d", sm.High, lastQ)
		e.violate("C02", "receiver-panics", fmt.Sprintf("target %d stream #%d: %s", t.idx, inc, ts.malformed))
	}
	h := sm.High
	ts.high = &h
	if e.sc.EagerAck && len(sm.IDs) > 0 && !e.closing {
		// a target that has processed the batch by the time the proxy's Send returns: it completes the tasks and
		// acknowledges at once (the acknowledgement travels while the proxy is still inside Send)
		for i := range ts.queue {
			ts.queue[i].done = true
		}
		e.tick(t)
	}
}

func (e *vfRouteExec) checkDeliveredTask(t *vfTgt, inc int, task *replicationv1.ReplicationTask) {
	tag := task.GetRawTaskInfo().GetRunId()
	var rec *vfTaskRec
	for i := range e.returned {
		if e.returned[i].Tag == tag {
			rec = &e.returned[i]
		}
	}
	if rec == nil {
		e.violate("C02", "unknown-task-delivered", fmt.Sprintf("target %d received a task nobody emitted: %v", t.idx, task))
		return
	}
	if rec.Tgt != t.idx {
		e.violate("C02", "wrong-target-shard", fmt.Sprintf("task %s owned by target shard %d was delivered to shard %d", tag, rec.Tgt, t.idx))
	}
	if e.faults == 0 {
		for _, d := range e.deliv[tag] {
			e.violate("C02", "task-delivered-twice", fmt.Sprintf("task %s delivered again to target %d (earlier: %+v)", tag, t.idx, d))
		}
	}
	want := e.makeTask(rec.Src, rec.ID, rec.Tgt, rec.NSV)
	got := proto.Clone(task).(*replicationv1.ReplicationTask)
	if got.RawTaskInfo != nil && got.RawTaskInfo.TaskId != got.SourceTaskId {
		e.violate("C02", "task-id-fields-disagree", fmt.Sprintf("task %s: SourceTaskId=%d RawTaskInfo.TaskId=%d", tag, got.SourceTaskId, got.RawTaskInfo.TaskId))
	}
	got.SourceTaskId, want.SourceTaskId = 0, 0
	if got.RawTaskInfo != nil {
		got.RawTaskInfo.TaskId = 0
	}
	want.RawTaskInfo.TaskId = 0
	if !proto.Equal(got, want) {
		e.violate("C02", "payload-changed", fmt.Sprintf("task %s: got %v want %v", tag, got, want))
	}
	// per (source,target) order = emission order
	for _, prev := range t.incoming[inc].sent {
		for _, ptag := range prev.Tags {
			var prec *vfTaskRec
			for i := range e.returned {
				if e.returned[i].Tag == ptag {
					prec = &e.returned[i]
				}
			}
			if prec != nil && prec.Src == rec.Src && prec.ID > rec.ID && e.faults == 0 {
				e.violate("C02", "source-order-broken", fmt.Sprintf("target %d received %s after %s", t.idx, tag, ptag))
			}
		}
	}
}

func (ts *vfTgtStream) lowWatermark() (int64, bool) {
	q := ts.queue[:0]
	for _, x := range ts.queue {
		if !x.done {
			q = append(q, x)
		}
	}
	ts.queue = q
	if len(ts.queue) > 0 {
		return ts.queue[0].id, true
	}
	if ts.high != nil {
		return *ts.high, true
	}
	return 0, false
}

func (ts *vfTgtStream) peekLow() (int64, bool) {
	for _, x := range ts.queue {
		if !x.done {
			return x.id, true
		}
	}
	if ts.high != nil {
		return *ts.high, true
	}
	return 0, false
}

func (t *vfTgt) cur() *vfTgtStream {
	if len(t.incoming) == 0 {
		return nil
	}
	return t.incoming[len(t.incoming)-1]
}

func (e *vfRouteExec) tick(t *vfTgt) {
	ts := t.cur()
	w, ok := ts.lowWatermark()
	if !ok {
		return
	}
	if len(ts.acks) > 0 && ts.lastTick == w {
		ts.repeats++
	} else {
		ts.repeats = 0
	}
	ts.lastTick = w
	ts.acks = append(ts.acks, w)
	e.logf("T%d#%d acks inclusive_low=%d", t.idx, len(t.incoming)-1, w)
	st := &replicationv1.SyncReplicationState{InclusiveLowWatermark: w}
	if e.sc.LaneAcks && ts.high != nil {
		// Temporal's tiered receiver: one state per priority lane, the flat field is the lane that is further behind
		st.HighPriorityState = &replicationv1.ReplicationState{InclusiveLowWatermark: *ts.high}
		st.LowPriorityState = &replicationv1.ReplicationState{InclusiveLowWatermark: w}
	}
	ts.deliver(vfItem{req: &adminservice.StreamWorkflowReplicationMessagesRequest{
		Attributes: &adminservice.StreamWorkflowReplicationMessagesRequest_SyncReplicationState{SyncReplicationState: st}}})
}

// --- opening streams

func (e *vfRouteExec) runHandler(name string, srv adminservice.AdminServiceServer, ss *vfServerStream) {
	start := e.spawn
	if start == nil {
		start = func(_ string, f func()) { go f() }
	}
	start(name, func() {
		defer func() {
			if p := recover(); p != nil {
				e.panics = append(e.panics, fmt.Sprintf("%s: %v", name, p))
			}
			ss.returned = true
			ss.cancel() // gRPC cancels the server-stream context when the handler returns
			e.logf("handler of %s returned", name)
		}()
		ss.retErr = srv.StreamWorkflowReplicationMessages(ss)
	})
}

func (e *vfRouteExec) openTarget(t *vfTgt) {
	me := history.ClusterShardID{ClusterID: vfTgtCluster, ShardID: int32(t.idx)}
	peer := history.ClusterShardID{ClusterID: vfSrcCluster, ShardID: int32(t.idx)} // inbound DescribeCluster override = remote count
	ss := vfNewServerStream(me, peer, nil)
	ts := &vfTgtStream{vfServerStream: ss}
	inc := len(t.incoming)
	t.incoming = append(t.incoming, ts)
	ss.onSend = func(m *adminservice.StreamWorkflowReplicationMessagesResponse) error {
		e.onTargetSend(t, inc, m)
		return nil
	}
	ss.onEnterSend = func(m *adminservice.StreamWorkflowReplicationMessagesResponse) {
		e.cbmu.Lock()
		defer e.cbmu.Unlock()
		if e.entered == nil {
			e.entered = map[string][][2]int{}
		}
		for _, task := range m.GetMessages().GetReplicationTasks() {
			tag := task.GetRawTaskInfo().GetRunId()
			e.entered[tag] = append(e.entered[tag], [2]int{t.idx, inc})
		}
	}
	for _, g := range e.sc.Gated {
		if g == t.idx && !e.closing {
			ss.sendGate = make(chan error)
		}
	}
	e.logf("T%d opens stream #%d", t.idx, inc)
	srv := e.inbound
	if t.idx-1 < len(e.sc.PlaceT) {
		srv = e.inst[e.sc.PlaceT[t.idx-1]].inbound
	}
	if inc > 0 && t.idx-1 < len(e.sc.PlaceTNext) {
		srv = e.inst[e.sc.PlaceTNext[t.idx-1]].inbound
	}
	e.runHandler(fmt.Sprintf("T%d#%d", t.idx, inc), srv, ss)
}

func (e *vfRouteExec) openSource(s *vfSrc) {
	me := history.ClusterShardID{ClusterID: vfSrcCluster, ShardID: int32(s.idx)}
	peer := history.ClusterShardID{ClusterID: vfTgtCluster, ShardID: int32(s.idx)} // outbound DescribeCluster override = local count
	ss := vfNewServerStream(me, peer, nil)
	inc := len(s.incoming)
	s.incoming = append(s.incoming, ss)
	ss.onSend = func(m *adminservice.StreamWorkflowReplicationMessagesResponse) error {
		msgs := m.GetMessages()
		if msgs != nil && len(msgs.ReplicationTasks) > 0 {
			e.violate("C02", "task-sent-to-source-cluster", fmt.Sprintf("source shard %d received tasks %v", s.idx, msgs))
		}
		if msgs != nil && !ss.broken && !ss.returned {
			// the shard that initiated this stream is a replication receiver too (for the opposite direction): whatever
			// arrives on its stream it processes and acknowledges, as any Temporal shard does. Nothing replicates in that
			// direction here, so anything that arrives was sent to the wrong cluster - and its acknowledgement comes back.
			e.logf("S%d#%d (stream initiated by the source shard) receives a message with high=%d and acknowledges it", s.idx, inc, msgs.ExclusiveHighWatermark)
			ss.deliver(vfItem{req: &adminservice.StreamWorkflowReplicationMessagesRequest{
				Attributes: &adminservice.StreamWorkflowReplicationMessagesRequest_SyncReplicationState{SyncReplicationState: &replicationv1.SyncReplicationState{InclusiveLowWatermark: msgs.ExclusiveHighWatermark}}}})
		}
		return nil
	}
	e.logf("S%d opens stream #%d", s.idx, inc)
	srv := e.outbound
	if s.idx-1 < len(e.sc.PlaceS) {
		srv = e.inst[e.sc.PlaceS[s.idx-1]].outbound
	}
	e.runHandler(fmt.Sprintf("S%d#%d", s.idx, inc), srv, ss)
}

// ---------------------------------------------------------------------------------------------
// canonical state key: environment model + every proxy field later steps read.

func (e *vfRouteExec) stateKey() string {
	var sb strings.Builder
	fmt.Fprintf(&sb, "t=%d f=%d p=%v|", e.now, e.faults, e.peersUp)
	for _, s := range e.src {
		fmt.Fprintf(&sb, "S%d pos=%d/%v wm=%d high=%d in=%d[", s.idx, s.pos, s.script, s.wmUsed, s.curHigh, len(s.incoming))
		for _, in := range s.incoming {
			fmt.Fprintf(&sb, "%v/%v/%v,", in.returned, in.broken, in.atHome())
		}
		fmt.Fprintf(&sb, "] pulls=%d[", len(s.pulls))
		for _, p := range s.pulls {
			last := int64(-1)
			if n := len(p.acks); n > 0 {
				last = p.acks[n-1]
			}
			fmt.Fprintf(&sb, "%v/%v/%v/%v/%d/%d/%d,", p.broken, p.closeSent, p.ctx.Err() != nil, p.atHome(), last, len(p.acks), p.maxHigh)
		}
		sb.WriteString("]|")
	}
	for _, t := range e.tgt {
		fmt.Fprintf(&sb, "T%d in=%d[", t.idx, len(t.incoming))
		for _, ts := range t.incoming {
			fmt.Fprintf(&sb, "%v/%v/%v/%d sent=%v high=%v q=%v acks=%v rep=%d;", ts.returned, ts.broken, ts.atHome(), ts.inSend, ts.sent, vfPtr(ts.high), ts.queue, ts.acks, ts.repeats)
		}
		fmt.Fprintf(&sb, "] pulls=%d|", len(t.pulls))
	}
	sb.WriteString(e.proxyDump())
	return sb.String()
}

func vfPtr(p *int64) string {
	if p == nil {
		return "nil"
	}
	return fmt.Sprint(*p)
}

func vfShardMapString[V any](m map[history.ClusterShardID]V, f func(V) string) string {
	keys := make([]history.ClusterShardID, 0, len(m))
	for k := range m {
		keys = append(keys, k)
	}
	sort.Slice(keys, func(i, j int) bool {
		if keys[i].ClusterID != keys[j].ClusterID {
			return keys[i].ClusterID < keys[j].ClusterID
		}
		return keys[i].ShardID < keys[j].ShardID
	})
	var sb strings.Builder
	for _, k := range keys {
		fmt.Fprintf(&sb, "%d:%d=%s,", k.ClusterID, k.ShardID, f(m[k]))
	}
	return sb.String()
}

// proxyDump reads the private state of the shard manager, the live receivers and (through the
// debug snapshots the senders publish) the senders.
func (e *vfRouteExec) proxyDump() string {
	if len(e.inst) < 2 {
		return e.proxyDumpOf(e.sm)
	}
	var sb strings.Builder
	for _, in := range e.inst {
		sb.WriteString(in.name + "{")
		sb.WriteString(e.proxyDumpOf(in.sm))
		// intra-proxy streams of this instance
		mgr := in.sm.GetIntraProxyManager()
		mgr.streamsMu.RLock()
		var ks []string
		for peer, ps := range mgr.peers {
			for k := range ps.senders {
				ks = append(ks, fmt.Sprintf("snd:%s:%v>%v", peer, k.sourceShard, k.targetShard))
			}
			for k, r := range ps.receivers {
				ks = append(ks, fmt.Sprintf("rcv:%s:%v>%v:%v", peer, k.sourceShard, k.targetShard, r != nil && r.streamClient != nil))
			}
		}
		mgr.streamsMu.RUnlock()
		sort.Strings(ks)
		fmt.Fprintf(&sb, " intra=%v remote=", ks)
		in.sm.remoteNodeStatesMu.RLock()
		var rs []string
		for name, st := range in.sm.remoteNodeStates {
			var sh []string
			for k := range st.Shards {
				sh = append(sh, k)
			}
			sort.Strings(sh)
			rs = append(rs, name+fmt.Sprint(sh))
		}
		in.sm.remoteNodeStatesMu.RUnlock()
		sort.Strings(rs)
		fmt.Fprintf(&sb, "%v} ", rs)
	}
	return sb.String()
}

func (e *vfRouteExec) proxyDumpOf(sm *shardManagerImpl) string {
	var sb strings.Builder
	sm.mutex.RLock()
	ls := make([]string, 0, len(sm.localShards))
	for k := range sm.localShards {
		ls = append(ls, k)
	}
	sm.mutex.RUnlock()
	sort.Strings(ls)
	fmt.Fprintf(&sb, "local=%v ", ls)
	sm.remoteSendChannelsMu.RLock()
	fmt.Fprintf(&sb, "send={%s} ", vfShardMapString(sm.remoteSendChannels, func(c chan RoutedMessage) string { return fmt.Sprint(len(c)) }))
	sm.remoteSendChannelsMu.RUnlock()
	sm.localAckChannelsMu.RLock()
	fmt.Fprintf(&sb, "ack={%s} ", vfShardMapString(sm.localAckChannels, func(c chan RoutedAck) string { return fmt.Sprint(len(c)) }))
	sm.localAckChannelsMu.RUnlock()
	sm.localReceiverCancelFuncsMu.RLock()
	fmt.Fprintf(&sb, "cancel={%s} ", vfShardMapString(sm.localReceiverCancelFuncs, func(context.CancelFunc) string { return "" }))
	sm.localReceiverCancelFuncsMu.RUnlock()
	sm.activeReceiversMu.RLock()
	fmt.Fprintf(&sb, "recv={%s} ", vfShardMapString(sm.activeReceivers, func(ar ActiveReceiver) string {
		r, ok := ar.(*proxyStreamReceiver)
		if !ok {
			return "?"
		}
		r.ackMu.RLock()
		defer r.ackMu.RUnlock()
		lw := int64(-1)
		if w := r.GetLastWatermark(); w != nil {
			lw = w.ExclusiveHighWatermark
		}
		lsa := int64(-1)
		if r.lastSentAck != nil {
			lsa = r.lastSentAck.GetSyncReplicationState().GetInclusiveLowWatermark()
		}
		return fmt.Sprintf("[abt{%s} min=%d high=%d lw=%d lsa=%d q=%d]",
			vfShardMapString(r.ackByTarget, func(v int64) string { return fmt.Sprint(v) }), r.lastSentMin, r.lastExclusiveHighOriginal, lw, lsa, len(r.ackChan))
	}))
	sm.activeReceiversMu.RUnlock()
	infos := GetGlobalStreamTracker().GetActiveStreams()
	sort.Slice(infos, func(i, j int) bool { return infos[i].ID < infos[j].ID })
	for _, in := range infos {
		if in.Role != StreamRoleSender || in.SenderDebug == nil {
			continue
		}
		d := in.SenderDebug
		prev := make([]string, 0, len(d.PrevAckBySource))
		for k, v := range d.PrevAckBySource {
			prev = append(prev, fmt.Sprintf("%s=%d", k, v))
		}
		sort.Strings(prev)
		fmt.Fprintf(&sb, "snd[%s next=%d prev=%v ring=%d+%d:", in.ID, d.NextProxyTaskID, prev, d.RingStartProxyID, d.RingSize)
		for _, en := range d.EntriesPreview {
			fmt.Fprintf(&sb, "%s/%d,", en.SourceShard, en.SourceTask)
		}
		sb.WriteString("] ")
	}
	return sb.String()
}

// ---------------------------------------------------------------------------------------------
// teardown

// teardown cancels the connection lifetime and lets every handler return; reports handlers that
// do not.
func (e *vfRouteExec) teardown(wait func()) []string {
	e.stop()
	wait()
	if len(e.inst) > 1 {
		// the per-peer gRPC client objects of the intra-proxy managers are never dialled here (their streams are
		// in-memory pairs); close them so that their internal goroutines leave the bubble
		for _, in := range e.inst {
			mgr := in.sm.GetIntraProxyManager()
			mgr.streamsMu.Lock()
			for _, ps := range mgr.peers {
				if ps != nil && ps.conn != nil {
					_ = ps.conn.Close()
				}
			}
			mgr.streamsMu.Unlock()
		}
		wait()
	}
	if e.sc.HungSource {
		// an unresponsive source never ends its side of a pull stream by itself: "all streams have ended" includes that
		// these connections are finally torn down (the newest incarnation has no successor that would cancel it)
		for _, src := range e.src {
			for _, pl := range src.pulls {
				pl.breakNow()
			}
		}
		wait()
	}
	// streams whose handler is still running get their context cancelled (client went away)
	var stuck []string
	for round := 0; round < 3; round++ {
		stuck = stuck[:0]
		for _, s := range e.src {
			for i, in := range s.incoming {
				if !in.returned {
					stuck = append(stuck, fmt.Sprintf("S%d#%d", s.idx, i))
					in.cancel()
				}
			}
		}
		for _, t := range e.tgt {
			for i, in := range t.incoming {
				if !in.returned {
					stuck = append(stuck, fmt.Sprintf("T%d#%d", t.idx, i))
					in.cancel()
				}
			}
		}
		if len(stuck) == 0 {
			break
		}
		time.Sleep(3 * time.Second)
		wait()
	}
	// workers that outlive their handler (the sender's ack loop is deliberately not waited for) may sit in
	// a back-off sleep of up to 1.28 s before they look at the shutdown signal again
	time.Sleep(3 * time.Second)
	wait()
	if len(stuck) > 0 && os.Getenv("VERIF_DEBUG_STACKS") != "" {
		buf := make([]byte, 1<<20)
		os.Stderr.Write(buf[:runtime.Stack(buf, true)])
	}
	return stuck
}
