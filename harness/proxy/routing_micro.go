//go:build verif

package proxy

// Micro level for routing mode (C01-C04): the real streamRouting handlers (sender, receiver, their worker
// goroutines and the shard manager) run under the cooperative scheduler; a short environment script runs
// as one more managed goroutine, so every environment step - including stream breaks - is taken at every
// scheduling point of the code under test (lock acquisitions, channel operations, goroutine starts of the
// rewritten proxy_streams.go / shard_manager.go / admin_stream_transfer.go). After the explored part the
// scheduler is detached and the usual closing phase runs; the oracles are those of the macro level.

import (
	"encoding/json"
	"fmt"
	"os"
	"sort"
	"strings"
	"testing"
	"testing/synctest"
	"time"

	vrt "github.com/temporalio/s2s-proxy/internal/verifrt"
)

type vfMicroScript struct {
	Name     string
	Scenario *vfRouteScenario
	// Setup actions are applied one at a time to quiescence before exploration starts.
	Setup []string
	// Steps are the environment's actions during the explored part.
	Steps []string
	// SettleAck: at the end every target stream is live again and the source's last message was a watermark-only
	// batch: the settled oracle applies (reported under the property of the run)
	SettleAck bool
}

func vfRoutingMicroScripts(property string) []vfMicroScript {
	two := [][]vfBatch{{
		{IDs: []int64{10}, Tgt: []int{1}, High: 11},
		{IDs: []int64{11}, Tgt: []int{2}, High: 12},
	}}
	base := func(name string, faults int) *vfRouteScenario {
		return &vfRouteScenario{Name: name, NS: 1, NT: 2, Scripts: two, InitHigh: 5, MaxWM: 1, MaxRepeat: 1, InOrder: true, MaxFaults: faults}
	}
	hung := func(sc *vfRouteScenario) *vfRouteScenario { sc.HungSource = true; return sc }
	wmStep := func(sc *vfRouteScenario) *vfRouteScenario { sc.WMStep = 3; return sc }
	twoProxies := func(sc *vfRouteScenario) *vfRouteScenario {
		sc.Proxies, sc.PlaceT, sc.PlaceS = 2, []int{0, 1}, []int{0}
		return sc
	}
	switch property {
	case "C05":
		// the proxy-id table as the sender uses it: an acknowledgement translated while the next entry is appended
		return []vfMicroScript{vfSoloAckRace(), vfSoloEagerAck()}
	case "C08":
		// overlapping incarnations on the real handlers; "@baseline" marks the set-up state whose registry the state
		// reached after the explored steps must equal (same set of live streams, newer incarnations)
		return []vfMicroScript{
			// (the receiver holds a last watermark - wm:1 in the set-up - so a sender that registers later is owed a replay)
			{Name: "target-reconnects-while-old-stream-alive", Scenario: base("micro-c08-T", 0), Setup: []string{"openT:1", "openT:2", "openS:1", "wm:1", "@baseline"},
				Steps: []string{"reopenT:1", "emit:1", "breakOldT:1"}},
			{Name: "source-reconnects-while-old-stream-alive", Scenario: base("micro-c08-S", 0), Setup: []string{"openT:1", "openT:2", "openS:1", "wm:1", "@baseline"},
				Steps: []string{"reopenS:1", "emit:1", "breakOldSin:1"}},
			// the same with a source that does not answer the half-close of the old pull stream, and the old stream the source
			// shard initiated is never broken: the superseded incarnation must be ended by its successor
			{Name: "source-reconnects-while-old-pull-stream-is-unresponsive", Scenario: hung(base("micro-c08-H", 0)), Setup: []string{"openT:1", "openT:2", "openS:1", "wm:1", "@baseline"},
				Steps: []string{"reopenS:1", "emit:1"}},
			// the old target stream breaks and the shard reconnects while the old sender is still shutting down
			{Name: "target-breaks-and-reconnects-at-once", Scenario: base("micro-c08-B", 0), Setup: []string{"openT:1", "openT:2", "openS:1", "wm:1", "@baseline"},
				Steps: []string{"breakT:1", "openT:1", "emit:1"}},
			// two proxy instances: target shard 2 lives on n2, the source on n1; T2's stream breaks and the shard reconnects on
			// n2 while a task for it crosses the intra-proxy stream (the peer's hand-off meets the old sender's shutdown)
			{Name: "two-proxies-target-breaks-and-reconnects", Scenario: twoProxies(base("micro-c08-P", 0)), Setup: []string{"openT:1", "openT:2", "openS:1", "wm:1"},
				Steps: []string{"breakT:2", "emit:1", "emit:1", "openT:2"}},
			// a watermark-only batch is broadcast while a target stream is shutting down (its hand-off channel is closed but
			// still registered for a moment), then the shard reconnects
			{Name: "watermark-broadcast-while-target-stream-shuts-down", Scenario: wmStep(base("micro-c08-W", 0)), Setup: []string{"openT:1", "openT:2", "openS:1", "wm:1"},
				Steps: []string{"breakT:1", "wm:1", "openT:1"}, SettleAck: true},
			// the receiver holds a pending watermark when target shard 1 registers late (it gets the replay), then that shard
			// reconnects while its stream is alive: the newest incarnation is owed the replay again
			{Name: "late-target-got-the-replay-then-reconnects", Scenario: base("micro-c08-L", 0), Setup: []string{"openT:2", "openS:1", "wm:1", "openT:1", "@baseline"},
				Steps: []string{"reopenT:1", "breakOldT:1"}},
			// a flapping reconnect: the old stream breaks, the shard reconnects and that stream breaks again at once
			{Name: "target-flaps", Scenario: base("micro-c08-X", 0), Setup: []string{"openT:1", "openT:2", "openS:1", "wm:1"},
				Steps: []string{"breakT:1", "openT:1", "breakT:1"}},
			// a target acknowledges while the source shard's receiver is between incarnations, then the target stream ends:
			// the sender's ack worker must not outlive its stream
			{Name: "ack-retried-while-source-is-away-then-target-stream-ends", Scenario: base("micro-c08-A", 0), Setup: []string{"openT:1", "openT:2", "openS:1", "emit:1"},
				Steps: []string{"breakSin:1", "tick:1", "breakT:1"}},
			{Name: "source-stream-ends-then-reopen-fails", Scenario: base("micro-c08-F", 0), Setup: []string{"openT:1", "openT:2", "@baseline", "openS:1"},
				Steps: []string{"breakSin:1", "failopenS:1", "openS:1", "breakSin:1"}},
		}
	case "C20":
		// stream opens that coincide (many shard streams reopen together after a restart or a failover): the bookkeeping
		// one open does may not corrupt what the others do. The writes of the shard manager's tables are windows with a
		// scheduling point inside (rule mapwrite).
		return []vfMicroScript{
			{Name: "two-target-streams-and-the-source-stream-open-at-once", Scenario: base("micro-c20-O", 0), Setup: nil,
				Steps: []string{"openT:1", "openT:2", "openS:1"}},
			{Name: "a-target-stream-opens-while-another-ends", Scenario: base("micro-c20-E", 0), Setup: []string{"openT:1", "openS:1"},
				Steps: []string{"breakT:1", "openT:2"}},
			// a stream is opened with the ids of a stream that is still up (an initiator that reconnects before the proxy has
			// noticed the old stream's end): the new stream is served - tasks relayed on it are acknowledged to the end
			{Name: "source-stream-reopened-with-the-ids-of-a-live-stream", Scenario: base("micro-c20-R", 0), Setup: []string{"openT:1", "openT:2", "openS:1"},
				Steps: []string{"reopenS:1", "emit:1", "breakOldSin:1"}},
		}
	case "C04":
		return []vfMicroScript{
			// a target stream breaks while a task for it is being routed, then reconnects
			{Name: "break-target-while-routing", Scenario: base("micro-breakT", 1), Setup: []string{"openT:1", "openT:2", "openS:1"},
				Steps: []string{"breakT:1", "emit:1", "openT:1"}},
			// the source's pull stream breaks after both tasks were forwarded; a target acks during the reconnect
			{Name: "break-source-while-acking", Scenario: base("micro-breakS", 1), Setup: []string{"openT:1", "openT:2", "openS:1", "emit:1", "emit:1"},
				Steps: []string{"breakS:1", "tick:2", "openS:1"}},
		}
	default:
		asym := &vfRouteScenario{Name: "micro-bcast", NS: 1, NT: 2, Scripts: [][]vfBatch{{
			{IDs: []int64{10}, Tgt: []int{1}, High: 11},
			{IDs: []int64{11}, Tgt: []int{1}, High: 12},
			{IDs: []int64{12}, Tgt: []int{1}, High: 13},
			{IDs: []int64{13}, Tgt: []int{2}, High: 14},
			{IDs: []int64{14}, Tgt: []int{2}, High: 15},
		}}, InitHigh: 5, MaxWM: 1, MaxRepeat: 1, InOrder: true}
		duo := &vfRouteScenario{Name: "micro-duo", NS: 1, NT: 2, Scripts: [][]vfBatch{{
			{IDs: []int64{10}, Tgt: []int{1}, High: 11},
			{IDs: []int64{11}, Tgt: []int{2}, High: 12},
		}}, InitHigh: 5, MaxWM: 1, MaxRepeat: 1, InOrder: true, Proxies: 2, PlaceT: []int{0, 1}, PlaceS: []int{0}}
		return []vfMicroScript{
			vfSoloAckRace(),
			vfSoloEagerAck(),
			// two proxy instances (source and target 1 on n1, target 2 on n2): a watermark-only batch goes to the local
			// target stream and, over the intra-proxy stream, to the peer instance
			{Name: "two-proxies-watermark", Scenario: duo, Setup: []string{"openT:1", "openT:2", "openS:1", "emit:1", "emit:1"},
				Steps: []string{"wm:1", "tick:2"}},
			// a watermark-only batch is broadcast to two target streams whose proxy id counters differ (3 tasks vs 1),
			// then one more task for the second target: each stream must carry watermarks of its own id space
			{Name: "broadcast-watermark-asymmetric-targets", Scenario: asym, Setup: []string{"openT:1", "openT:2", "openS:1", "emit:1", "emit:1", "emit:1", "emit:1"},
				Steps: []string{"wm:1", "emit:1"}},
			// a target shard that holds nothing reconnects at once after its stream broke (the new sender registers while the
			// old one is still deregistering); tasks sent after the old incarnation has ended must reach the new one
			{Name: "idle-target-reconnects-then-tasks", Scenario: base("micro-reconn", 0), Setup: []string{"openT:1", "openT:2", "openS:1"},
				Steps: []string{"cleanbreakT:2", "openT:2", "awaitT:2", "emit:1", "emit:1"}},
			// two single-task batches for different targets and the acknowledgement of the second target
			{Name: "two-targets-one-acks", Scenario: base("micro-ack", 0), Setup: []string{"openT:1", "openT:2", "openS:1"},
				Steps: []string{"emit:1", "emit:1", "tick:2", "wm:1"}},
			// a target connects while a task for it is being retried
			{Name: "late-target", Scenario: base("micro-late", 0), Setup: []string{"openT:2", "openS:1"},
				Steps: []string{"emit:1", "openT:1", "emit:1"}},
		}
	}
}

// vfSoloAckRace: one target that has completed everything acknowledges (its watermark is one above the last proxy id it
// holds) while the next batch - which gets exactly that proxy id - is being forwarded.
func vfSoloAckRace() vfMicroScript {
	solo := &vfRouteScenario{Name: "micro-solo", NS: 1, NT: 1, Scripts: [][]vfBatch{{
		{IDs: []int64{10}, Tgt: []int{1}, High: 11},
		{IDs: []int64{11}, Tgt: []int{1}, High: 12},
	}}, InitHigh: 5, MaxWM: 1, MaxRepeat: 1, InOrder: true}
	return vfMicroScript{Name: "single-target-ack-races-next-batch", Scenario: solo, Setup: []string{"openT:1", "openS:1", "emit:1", "doneall:1"},
		Steps: []string{"tick:1", "emit:1"}}
}

// vfSoloEagerAck: one target that acknowledges each batch while the proxy is still inside the Send that delivered it.
func vfSoloEagerAck() vfMicroScript {
	solo := &vfRouteScenario{Name: "micro-solo-eager", NS: 1, NT: 1, Scripts: [][]vfBatch{{
		{IDs: []int64{10}, Tgt: []int{1}, High: 11},
		{IDs: []int64{11}, Tgt: []int{1}, High: 12},
	}}, InitHigh: 5, MaxWM: 1, MaxRepeat: 1, InOrder: true, EagerAck: true}
	return vfMicroScript{Name: "single-target-acknowledges-inside-send", Scenario: solo, Setup: []string{"openT:1", "openS:1"},
		Steps: []string{"emit:1", "emit:1"}}
}

// precondition of an environment step (the env goroutine blocks for real until it holds)
func (e *vfRouteExec) ready(a string) bool {
	f := strings.Split(a, ":")
	var n int
	if len(f) > 1 {
		fmt.Sscan(f[1], &n)
	}
	switch f[0] {
	case "emit", "wm", "breakS":
		p := e.src[n-1].pull()
		return p != nil && p.alive()
	case "tick":
		ts := e.tgt[n-1].cur()
		if ts == nil {
			return false
		}
		_, ok := ts.peekLow()
		return ok
	case "reopenT":
		c := e.tgt[n-1].cur()
		return c != nil && !c.broken && !c.returned
	case "reopenS":
		return !e.src[n-1].needsOpen()
	case "breakOldT":
		return len(e.tgt[n-1].incoming) >= 2
	case "breakOldSin":
		return len(e.src[n-1].incoming) >= 2
	case "breakSin":
		return !e.src[n-1].needsOpen()
	case "awaitT":
		in := e.tgt[n-1].incoming
		for i := 0; i+1 < len(in); i++ {
			if !in[i].returned {
				return false
			}
		}
		return len(in) >= 2
	case "openT":
		c := e.tgt[n-1].cur()
		return c == nil || c.broken || c.returned
	case "openS":
		return e.src[n-1].needsOpen()
	}
	return true
}

func vfRoutingMicroBody(ms vfMicroScript, property string) func(s *vrt.Sched) (string, string, string) {
	return func(s *vrt.Sched) (sig, detail, outcome string) {
		e := vfNewRouteExec(ms.Scenario)
		e.spawn = func(name string, f func()) { s.Spawn(name, f) }
		e.changed = make(chan struct{})
		// setup: handlers are managed from the start, so drive them with the scheduler between setup actions
		s.NoBranch = true
		var baseline map[string][]string
		for _, a := range ms.Setup {
			if a == "@baseline" {
				baseline = e.registryKeys()
				continue
			}
			if err := e.apply(a); err != nil {
				return "harness/setup", err.Error(), ""
			}
			s.Run()
			e.syncInstances(func() { s.Run() })
		}
		s.NoBranch = false
		setupPoints := len(s.Points)
		s.Spawn("env", func() {
			for _, a := range ms.Steps {
				vrt.Point("env", a)
				for !e.ready(a) {
					ch := e.changed
					<-ch
				}
				if err := e.apply(a); err != nil {
					e.violate(property, "harness/env-step", err.Error())
					return
				}
			}
		})
		s.Run()
		_ = setupPoints
		if s.Deadlock != "" {
			return "stuck/deadlock", s.Deadlock, "deadlock"
		}
		if s.HorizonHit {
			// with the scheduler's fairness rule every goroutine that can make progress gets its turn: an execution that is
			// still taking steps at the horizon is a retry loop that no longer depends on anybody else
			tail := s.Trace
			if len(tail) > 12 {
				tail = tail[len(tail)-12:]
			}
			return "stuck/livelock-within-horizon", fmt.Sprintf("after %d scheduling decisions the execution is still running; last steps: %v", len(s.Points), tail), "livelock"
		}
		if len(s.MapRaces) > 0 {
			// (rule mapwrite) in production the runtime ends the process: "fatal error: concurrent map writes"
			return "crash/concurrent-map-writes", fmt.Sprintf("two goroutines are inside a write of the same bookkeeping map at once: %v", s.MapRaces), "maprace"
		}
		s.Detach()
		synctest.Wait()
		if property == "C08" {
			// the shutdown of the older incarnations has run its course (incl. the 1 s CloseSend guards and the
			// back-off sleeps of workers that are not waited for)
			time.Sleep(6 * time.Second)
			synctest.Wait()
			if baseline != nil {
				e.checkRegistry(baseline)
				e.checkWatermarkReplay()
			}
			if ms.SettleAck {
				// the incarnation that registered while the watermark was being broadcast is owed THAT watermark (by the
				// broadcast or by the replay): once every target has acknowledged what it received, the source is
				// acknowledged up to it
				e.settleProp = "C08"
				e.checkSettled(synctest.Wait)
				e.settleProp = ""
			}
			// no worker outlives its stream: every goroutine started by a handler that has returned is gone
			ended := map[string]bool{}
			for _, src := range e.src {
				for i, in := range src.incoming {
					if in.returned {
						ended[fmt.Sprintf("S%d#%d", src.idx, i)] = true
					}
				}
			}
			for _, t := range e.tgt {
				for i, in := range t.incoming {
					if in.returned {
						ended[fmt.Sprintf("T%d#%d", t.idx, i)] = true
					}
				}
			}
			var left []string
			for _, n := range s.AliveNames() {
				root := n
				if i := strings.Index(n, "/"); i >= 0 {
					root = n[:i]
				}
				if ended[root] {
					left = append(left, n)
				}
			}
			// a source shard's older incarnation is ended by its successor (TerminatePreviousLocalReceiver), whether or not
			// its own streams are still up
			for _, src := range e.src {
				for i := 0; i+1 < len(src.incoming); i++ {
					if !src.incoming[i].returned {
						e.violate("C08", "superseded-source-incarnation-still-running", fmt.Sprintf("6 s (virtual) after stream #%d of source shard %d was opened, the handler of its stream #%d is still running (broken=%v)", len(src.incoming)-1, src.idx, i, src.incoming[i].broken))
					}
				}
			}
			if len(left) > 0 {
				e.violate("C08", "worker-outlives-its-stream", fmt.Sprintf("6 s (virtual) after their stream's handler returned these workers are still running: %v", left))
			}
		}
		if property != "C08" && property != "C04" && e.faults == 0 {
			e.checkSettled(synctest.Wait)
		}
		rounds := e.closingPhase(synctest.Wait, 6)
		e.checkEnd(rounds)
		var acks []string
		for _, src := range e.src {
			for _, p := range src.pulls {
				acks = append(acks, fmt.Sprint(p.acks))
			}
		}
		outcome = strings.Join(acks, "|")
		if stuck := e.teardown(synctest.Wait); len(stuck) > 0 {
			e.violate("C08", "handler-stuck-after-shutdown", fmt.Sprint(stuck))
		} else if property == "C08" {
			rk := e.registryKeys()
			for _, table := range []string{"ack-channel", "active-receiver", "cancel-func", "delivery-channel", "ownership"} {
				if keys := rk[table]; len(keys) > 0 {
					e.violate("C08", "residue/after-all-streams-ended/"+table, fmt.Sprintf("every stream has ended, but the %s table still holds %v", table, keys))
				}
			}
		}
		if property == "C08" && len(e.panics) > 0 {
			e.violate("C08", "crash/panic-escapes", fmt.Sprint(e.panics))
		}
		if property == "C08" {
			// every stream has ended and the connection lifetime is over: no worker of the handlers may still be running
			time.Sleep(5 * time.Second)
			synctest.Wait()
			var left []string
			for _, n := range s.AliveNames() {
				if n != "env" {
					left = append(left, n)
				}
			}
			if len(left) > 0 {
				e.violate("C08", "worker-left-running-after-all-streams-ended", fmt.Sprintf("8 s (virtual) after every stream had ended and the lifetime was cancelled these goroutines of the handlers are still running: %v", left))
			}
		}
		for _, v := range e.viol {
			if property == "C20" && v.Property == "C03" && strings.HasPrefix(v.Signature, "final-ack-never-arrives") {
				// a stream opened with the ids of a stream that is still up is a stream "opened afterwards": it is served normally,
				// i.e. what it relays gets acknowledged
				return "later-stream-not-served/" + v.Signature, v.Detail + "\ntrace:\n  " + strings.Join(e.events, "\n  "), outcome
			}
			if v.Property == property || (property == "C04" && v.Property == "C02" && strings.HasPrefix(v.Signature, "task-delivered-0")) ||
				(property == "C05" && v.Signature == "ack-incomplete-although-the-only-target-confirmed-every-task") {
				return v.Signature, v.Detail + "\ntrace:\n  " + strings.Join(e.events, "\n  "), outcome
			}
		}
		return "", "", outcome
	}
}

// checkRegistry (C08): after the explored steps the same set of streams is alive as at the baseline (newer
// incarnations of some of them), so every table of the shard manager must hold entries for the same shards.
// A missing receiver-side entry is attributed to its cause through the recorded registry operations.
func (e *vfRouteExec) checkRegistry(baseline map[string][]string) {
	now := e.registryKeys()
	newest := func(by string) bool {
		// by = "T1#0" / "S1#2": is it the newest incarnation of its stream family?
		var fam byte
		var idx, inc int
		if n, _ := fmt.Sscanf(by, "%c%d#%d", &fam, &idx, &inc); n != 3 {
			return true
		}
		if fam == 'T' && idx >= 1 && idx <= len(e.tgt) {
			return inc == len(e.tgt[idx-1].incoming)-1
		}
		if fam == 'S' && idx >= 1 && idx <= len(e.src) {
			return inc == len(e.src[idx-1].incoming)-1
		}
		return true
	}
	tables := make([]string, 0, len(baseline))
	for table := range baseline {
		tables = append(tables, table)
	}
	sort.Strings(tables)
	for _, table := range tables {
		want := baseline[table]
		got := now[table]
		if fmt.Sprint(got) == fmt.Sprint(want) {
			continue
		}
		have := map[string]bool{}
		for _, k := range got {
			have[k] = true
		}
		explained := false
		for _, k := range want {
			if have[k] {
				continue
			}
			// a shard that had an entry has none now
			removeOp, lost := map[string]string{"active-receiver": "unregister-active-receiver", "cancel-func": "remove-cancel-func"}[table], map[string]string{"active-receiver": "active-receiver-lost", "cancel-func": "cancel-func-lost"}[table]
			if removeOp != "" {
				e.hmu.Lock()
				var last *vfRegOp
				for i := range e.regOps {
					if e.regOps[i].Shard == k && (e.regOps[i].Op == removeOp || strings.HasPrefix(e.regOps[i].Op, map[string]string{"active-receiver": "register-active", "cancel-func": "set-cancel"}[table])) {
						last = &e.regOps[i]
					}
				}
				e.hmu.Unlock()
				if last != nil && last.Op == removeOp && !newest(last.By) {
					// same defect as the known finding of the call-sequence scenario "receiver-overlap"
					e.violate("C08", "receiver-overlap/orphaned/"+lost+"/old-cleanup-ran-after-new-entry", fmt.Sprintf("real handlers: %s of shard %s was removed by the deferred cleanup of the older incarnation %s after the newer incarnation had registered its own (operations: %v)", table, k, last.By, e.regOps))
					explained = true
					continue
				}
			}
			e.violate("C08", "orphaned/"+table+"-entry-lost", fmt.Sprintf("the same streams are alive as before the reconnect, but shard %s has no %s entry any more (before: %v, now: %v; registry operations: %v)", k, table, want, got, e.regOps))
			explained = true
		}
		for _, k := range got {
			found := false
			for _, w := range want {
				if w == k {
					found = true
				}
			}
			if !found {
				e.violate("C08", "residue/"+table+"-entry-of-an-ended-stream", fmt.Sprintf("shard %s has a %s entry although no stream of it is alive (before: %v, now: %v)", k, table, want, got))
				explained = true
			}
		}
		_ = explained
	}
}

// checkWatermarkReplay (C08): the source's receiver holds a last watermark (a watermark-only batch was received
// before the reconnect), so a target stream incarnation that registered afterwards is owed a replay of it: the
// newest live incarnation of every target that reconnected must have received a watermark-only message.
func (e *vfRouteExec) checkWatermarkReplay() {
	for _, t := range e.tgt {
		if len(t.incoming) < 2 {
			continue
		}
		ts := t.cur()
		if ts == nil || ts.broken || ts.returned {
			continue
		}
		got := false
		for _, m := range ts.sent {
			if len(m.IDs) == 0 {
				got = true
			}
		}
		if !got {
			e.violate("C08", "watermark-replay-missed-the-newest-incarnation", fmt.Sprintf("target shard %d reconnected (stream #%d is its newest live stream) while the source's receiver held a last watermark, but that stream never received a watermark-only message (older streams: %d)", t.idx, len(t.incoming)-1, len(t.incoming)-1))
		}
	}
}

// checkSettled (C03, micro level): without the source sending anything new, every connected target completes and
// acknowledges what it has received; once that is quiescent, a source whose last message was a watermark-only batch
// that reached every target must have been acknowledged up to that watermark - the acknowledgement may not depend
// on a later repetition of the watermark.
func (e *vfRouteExec) checkSettled(wait func()) {
	prop, pre := "C03", ""
	if e.settleProp != "" {
		prop, pre = e.settleProp, "settled/"
	}
	for _, t := range e.tgt {
		ts := t.cur()
		if ts == nil || ts.broken || ts.returned {
			return
		}
	}
	for round := 0; round < 2 && !e.sc.EagerAck; round++ {
		// (with eager acknowledgements every batch has been acknowledged already, once: the source's level may not
		// depend on the acknowledgement being repeated)
		for _, t := range e.tgt {
			ts := t.cur()
			for i := range ts.queue {
				ts.queue[i].done = true
			}
			if _, ok := ts.peekLow(); ok {
				e.tick(t)
				wait()
			}
		}
	}
	// a single target: the aggregated level is that target's level, so once it has acknowledged everything the source
	// has been acknowledged at least up to its last task (the acknowledgement trails by one until the next watermark)
	if len(e.tgt) == 1 {
		for _, s := range e.src {
			p := s.pull()
			if p == nil || !p.alive() || len(s.pulls) != 1 {
				continue
			}
			lastTask := int64(-1)
			for _, r := range e.returned {
				if r.Src == s.idx && r.ID > lastTask {
					lastTask = r.ID
				}
			}
			last := int64(-1)
			if n := len(p.acks); n > 0 {
				last = p.acks[n-1]
			}
			if lastTask >= 0 && last < lastTask {
				e.violate(prop, pre+"ack-incomplete-although-the-only-target-confirmed-every-task", fmt.Sprintf("source %d sent tasks up to %d, its only target has completed and acknowledged everything, nothing is in flight, yet the last acknowledgement the source received is %d (acks %v): an acknowledged entry was not translated back", s.idx, lastTask, last, p.acks))
			}
		}
	}
	for _, s := range e.src {
		p := s.pull()
		if p == nil || !p.alive() || !s.lastWasWM {
			continue
		}
		// every target must have seen a message after the last scripted batch (the watermark-only one)
		last := int64(-1)
		if n := len(p.acks); n > 0 {
			last = p.acks[n-1]
		}
		if last != s.curHigh {
			e.violate(prop, pre+"ack-incomplete-although-every-target-confirmed-everything", fmt.Sprintf("source %d sent its watermark %d to every target, every target has completed and acknowledged everything it received, nothing is in flight, yet the last acknowledgement the source received is %d (acks %v)", s.idx, s.curHigh, last, p.acks))
		}
	}
}

func vfRoutingMicro(t *testing.T, property, testName string) {
	scenarios := map[string]func(s *vrt.Sched) (string, string, string){}
	for _, ms := range vfRoutingMicroScripts(property) {
		scenarios[ms.Name] = vfRoutingMicroBody(ms, property)
	}
	if vrt.IsWorker() {
		vrt.ServeShards(t, scenarios)
		return
	}
	res := vrt.NewResult(property, "model_checking")
	defer func() {
		if err := res.Write(); err != nil {
			t.Fatal(err)
		}
	}()
	if p := vrt.ReplayPath(); p != "" {
		var rp vfC08Replay
		raw, _ := os.ReadFile(p)
		_ = json.Unmarshal(raw, &rp)
		if body, ok := scenarios[rp.Scenario]; ok {
			ex := vrt.RunSchedule(t, rp.Choices, 20000, body)
			t.Logf("replay %s: sig=%q\n%s", rp.Scenario, ex.Signature, ex.Violation)
			if ex.Signature != "" {
				res.Violate("micro/"+rp.Scenario+"/"+ex.Signature, ex.Violation, rp)
			}
		}
		return
	}
	// many goroutines: bound every departure from the default schedule (delay bounding), not only preemptions
	vrt.DeviationMode = true
	bound := 2
	if vrt.Thorough() {
		bound = 3
	}
	deadline := vrt.Deadline()
	pool := vrt.NewPool(testName, vrt.Workers(), 20*time.Minute)
	names := make([]string, 0, len(scenarios))
	for n := range scenarios {
		names = append(names, n)
	}
	sort.Strings(names)
	var schedules, decisions int64
	exhaustive := true
	var summary []string
	for _, name := range names {
		st, viols := vrt.ExploreSharded(t, pool, name, bound, 20000, deadline, scenarios[name])
		perSig := map[string]int{}
		for _, v := range viols {
			perSig[v.Signature]++
			if perSig[v.Signature] > 3 {
				continue
			}
			res.Violate(v.Signature, fmt.Sprintf("micro scenario %s, schedule %v: %s", name, v.Choices, v.Detail), vfC08Replay{name, v.Choices})
		}
		schedules += st.Executions
		decisions += st.Decisions
		exhaustive = exhaustive && st.Exhaustive
		summary = append(summary, fmt.Sprintf("%s: %d schedules, <=%d decisions, %d deadlocks, %d divergences, %d distinct ack outcomes", name, st.Executions, st.MaxPoints, st.Deadlocks, st.Diverged, len(st.Outcomes)))
		if len(st.HarnessErrors) > 0 {
			res.Set("micro_harness_errors_"+name, st.HarnessErrors[:1])
		}
	}
	res.Set("states", schedules)
	res.Set("transitions", decisions)
	res.Set("traces_validated_against_impl", schedules)
	res.Set("micro_schedules", schedules)
	res.Set("micro_deviation_bound_completed", int64(bound))
	res.Set("micro_scenarios", summary)
	res.Set("exhaustive", exhaustive)
	res.Sample(summary)
	res.Assume("micro level: scheduling points at lock acquisitions, channel operations and goroutine starts of proxy_streams.go, shard_manager.go and admin_stream_transfer.go; the environment script is one more thread, so each of its steps (incl. stream breaks) is taken at every such point")
}

func TestVerifC01Micro(t *testing.T) { vfRoutingMicro(t, "C01", "TestVerifC01Micro") }
func TestVerifC02Micro(t *testing.T) { vfRoutingMicro(t, "C02", "TestVerifC02Micro") }
func TestVerifC03Micro(t *testing.T) { vfRoutingMicro(t, "C03", "TestVerifC03Micro") }
func TestVerifC04Micro(t *testing.T) { vfRoutingMicro(t, "C04", "TestVerifC04Micro") }

// TestVerifC05Micro: the proxy-id table inside a real sender (second part of C05).
func TestVerifC05Micro(t *testing.T) { vfRoutingMicro(t, "C05", "TestVerifC05Micro") }

// TestVerifC08Routing: overlapping stream incarnations on the real routing handlers (third part of C08).
func TestVerifC08Routing(t *testing.T) { vfRoutingMicro(t, "C08", "TestVerifC08Routing") }

// TestVerifC20Opens: coinciding stream opens on the real routing handlers, with the writes of the shard manager's
// tables as windows (third part of C20).
func TestVerifC20Opens(t *testing.T) { vfRoutingMicro(t, "C20", "TestVerifC20Opens") }
