//go:build verif

package proxy

// C06 micro level: the forwarder (its two relay loops and two listener goroutines) under the cooperative
// scheduler; a short environment script (messages in both directions and one ending event) runs as one more
// thread, so the ending is taken at every scheduling point of the relay - in particular around the two
// selects that race the shutdown latch against data.

import (
	"encoding/json"
	"fmt"
	"os"
	"sort"
	"strings"
	"testing"
	"testing/synctest"
	"time"

	vrt "github.com/temporalio/s2s-proxy/internal/verifrt"
)

func vfFwdMicroBody(sc vfFwdScenario, steps []string) func(s *vrt.Sched) (string, string, string) {
	return func(s *vrt.Sched) (sig, detail, outcome string) {
		e := vfNewFwdExec(sc, false)
		e.spawn = func(name string, f func()) { s.Spawn(name, f) }
		e.changed = make(chan struct{})
		s.NoBranch = true
		e.start()
		s.Run()
		s.NoBranch = false
		s.Spawn("env", func() {
			for _, a := range steps {
				vrt.Point("env", a)
				for strings.HasPrefix(a, "src:") && e.src == nil {
					ch := e.changed
					<-ch
				}
				if e.ini.returned {
					return
				}
				if strings.HasPrefix(a, "src:") && (e.src.ended || e.src.broken) {
					continue
				}
				if err := e.apply(a); err != nil {
					e.violate("harness/env-step", err.Error())
					return
				}
			}
		})
		s.Run()
		if s.Deadlock != "" {
			return "stuck/deadlock", s.Deadlock, "deadlock"
		}
		s.Detach()
		synctest.Wait()
		e.check()
		e.closing(synctest.Wait)
		time.Sleep(3 * time.Second)
		synctest.Wait()
		outcome = fmt.Sprintf("%s resp=%d/%d ack=%d/%d", e.ending, len(e.gotResp), len(e.sentResp), len(e.gotAck), len(e.sentAck))
		if len(e.viol) > 0 {
			return e.viol[0].Signature, e.viol[0].Detail + "\ntrace:\n  " + strings.Join(e.events, "\n  "), outcome
		}
		return "", "", outcome
	}
}

func vfFwdMicroScenarios() map[string]func(s *vrt.Sched) (string, string, string) {
	out := map[string]func(s *vrt.Sched) (string, string, string){}
	for _, hung := range []bool{false, true} {
		sc := vfFwdScenario{Mode: "default", SourceIgnoresHalfClose: hung, NResp: 2, NAck: 2}
		suffix := ""
		if hung {
			suffix = "+hung-source"
		}
		for _, k := range []string{"src:eof", "src:err", "src:badmsg", "ini:eof", "ini:err", "ini:cancel", "ini:badreq"} {
			out["end="+k+suffix] = vfFwdMicroBody(sc, []string{"src:msg", "ini:ack", k, "src:msg", "ini:ack"})
		}
		out["end=sendfail:ini"+suffix] = vfFwdMicroBody(sc, []string{"sendfail:ini", "ini:ack", "src:msg", "src:msg"})
		out["end=sendfail:src"+suffix] = vfFwdMicroBody(sc, []string{"sendfail:src", "src:msg", "ini:ack", "ini:ack"})
	}
	return out
}

func TestVerifC06Micro(t *testing.T) {
	scenarios := vfFwdMicroScenarios()
	if vrt.IsWorker() {
		vrt.ServeShards(t, scenarios)
		return
	}
	res := vrt.NewResult("C06", "model_checking")
	defer func() {
		if err := res.Write(); err != nil {
			t.Fatal(err)
		}
	}()
	if p := vrt.ReplayPath(); p != "" {
		var rp vfC08Replay
		raw, _ := os.ReadFile(p)
		_ = json.Unmarshal(raw, &rp)
		if body, ok := scenarios[rp.Scenario]; ok {
			ex := vrt.RunSchedule(t, rp.Choices, 5000, body)
			t.Logf("replay %s: sig=%q\n%s", rp.Scenario, ex.Signature, ex.Violation)
			if ex.Signature != "" {
				res.Violate("micro/"+ex.Signature, ex.Violation, rp)
			}
		}
		return
	}
	vrt.DeviationMode = true
	bound := 2
	if vrt.Thorough() {
		bound = 3
	}
	deadline := vrt.Deadline()
	pool := vrt.NewPool("TestVerifC06Micro", vrt.Workers(), 20*time.Minute)
	names := make([]string, 0, len(scenarios))
	for n := range scenarios {
		names = append(names, n)
	}
	sort.Strings(names)
	var schedules, decisions int64
	exhaustive := true
	var summary []string
	for _, name := range names {
		st, viols := vrt.ExploreSharded(t, pool, name, bound, 5000, deadline, scenarios[name])
		perSig := map[string]int{}
		for _, v := range viols {
			perSig[v.Signature]++
			if perSig[v.Signature] > 2 {
				continue
			}
			res.Violate("micro/"+v.Signature, fmt.Sprintf("micro scenario %s, schedule %v: %s", name, v.Choices, v.Detail), vfC08Replay{name, v.Choices})
		}
		schedules += st.Executions
		decisions += st.Decisions
		exhaustive = exhaustive && st.Exhaustive
		summary = append(summary, fmt.Sprintf("%s: %d schedules, <=%d decisions, %d outcomes", name, st.Executions, st.MaxPoints, len(st.Outcomes)))
		if len(st.HarnessErrors) > 0 {
			leak := false
			for _, he := range st.HarnessErrors {
				if strings.Contains(he, "blocked goroutines remain") {
					leak = true
				}
			}
			if !leak {
				res.Set("micro_harness_errors_"+name, st.HarnessErrors[:1])
			}
		}
	}
	res.Set("states", schedules)
	res.Set("transitions", decisions)
	res.Set("traces_validated_against_impl", schedules)
	res.Set("micro_schedules", schedules)
	res.Set("micro_deviation_bound_completed", int64(bound))
	res.Set("micro_scenarios", summary)
	res.Set("exhaustive", exhaustive)
	res.Sample(summary[:2])
	res.Assume("micro level: scheduling points at the channel operations, selects and goroutine starts of admin_stream_transfer.go; which ready case a select takes remains the runtime's choice, but the order in which the latch and the data become ready is enumerated")
}
