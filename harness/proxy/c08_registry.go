//go:build verif

package proxy

// C08: overlapping incarnations of the same sender / receiver shard on one shardManagerImpl, explored by
// the cooperative scheduler (every lock acquisition, channel operation and goroutine start of the
// rewritten shard_manager.go / proxy_streams.go is a scheduling point; iterative preemption bounding).

import (
	"context"
	"encoding/json"
	"fmt"
	"os"
	"sort"
	"strings"
	"testing"
	"time"

	"go.temporal.io/server/api/adminservice/v1"
	replicationv1 "go.temporal.io/server/api/replication/v1"
	"go.temporal.io/server/client/history"
	"go.temporal.io/server/common/channel"
	"go.temporal.io/server/common/log"

	"github.com/temporalio/s2s-proxy/config"
	"github.com/temporalio/s2s-proxy/encryption"
	vrt "github.com/temporalio/s2s-proxy/internal/verifrt"
)

func vfNewSM() *shardManagerImpl {
	sm := NewShardManager(nil, config.ShardCountConfig{Mode: config.ShardCountRouting}, encryption.TLSConfig{}, vfNoopLoggers()).(*shardManagerImpl)
	_ = sm.Start(context.Background())
	return sm
}

type vfFakeReceiver struct {
	name     string
	src, tgt history.ClusterShardID
	notified []history.ClusterShardID
}

func (r *vfFakeReceiver) GetTargetShardID() history.ClusterShardID { return r.tgt }
func (r *vfFakeReceiver) GetSourceShardID() history.ClusterShardID { return r.src }
func (r *vfFakeReceiver) NotifyNewTargetShard(t history.ClusterShardID) {
	r.notified = append(r.notified, t)
}
func (r *vfFakeReceiver) GetLastWatermark() *replicationv1.WorkflowReplicationMessages { return nil }

func vfGuard(s *vrt.Sched, name string, panics *[]string, f func()) {
	s.Spawn(name, func() {
		defer func() {
			if p := recover(); p != nil {
				*panics = append(*panics, fmt.Sprintf("%s: %v", name, p))
			}
		}()
		f()
	})
}

// ---- scenario: two sender incarnations of one target shard + a deliverer ------------------------

// vfSenderOverlap: the old incarnation runs the exit path of proxyStreamSender.Run (close the channel, then the
// deferred UnregisterShard and RemoveRemoteSendChan) while the new incarnation runs its entry path
// (SetRemoteSendChan, RegisterShard) and a receiver delivers a message to the shard.
func vfSenderOverlap(third bool) func(s *vrt.Sched) (string, string, string) {
	return func(s *vrt.Sched) (sig, detail, outcome string) {
		sm := vfNewSM()
		shard := history.ClusterShardID{ClusterID: 2, ShardID: 1}
		logger := log.NewNoopLogger()
		oldCh := make(chan RoutedMessage, 4)
		sm.SetRemoteSendChan(shard, oldCh)
		oldAt := sm.RegisterShard(shard)
		newCh := make(chan RoutedMessage, 4)
		thirdCh := make(chan RoutedMessage, 4)
		var panics []string
		delivered := []bool{false, false}
		vfGuard(s, "old-exit", &panics, func() {
			close(oldCh)
			sm.UnregisterShard(shard, oldAt)
			sm.RemoveRemoteSendChan(shard, oldCh)
		})
		var newAt time.Time
		vfGuard(s, "new-entry", &panics, func() {
			sm.SetRemoteSendChan(shard, newCh)
			newAt = sm.RegisterShard(shard)
			if third {
				// the second incarnation ends as well and a third one starts
				close(newCh)
				sm.UnregisterShard(shard, newAt)
				sm.RemoveRemoteSendChan(shard, newCh)
			}
		})
		if third {
			vfGuard(s, "third-entry", &panics, func() {
				sm.SetRemoteSendChan(shard, thirdCh)
				sm.RegisterShard(shard)
			})
		}
		vfGuard(s, "deliver", &panics, func() {
			for i := range delivered {
				msg := &RoutedMessage{SourceShard: history.ClusterShardID{ClusterID: 1, ShardID: 1}, Resp: &adminservice.StreamWorkflowReplicationMessagesResponse{}}
				delivered[i] = sm.DeliverMessagesToShardOwner(shard, msg, channel.NewShutdownOnce(), logger)
			}
		})
		s.Run()
		outcome = fmt.Sprintf("delivered=%v old=%d new=%d third=%d", delivered, len(oldCh), len(newCh), len(thirdCh))
		if len(panics) > 0 {
			return "crash/panic-escapes", fmt.Sprintf("a send to a dead incarnation crashed: %v", panics), outcome
		}
		if s.Deadlock != "" {
			return "stuck/deadlock", s.Deadlock, outcome
		}
		if third {
			// order of second-exit vs third-entry is not fixed by the scenario; only assert what holds in every order:
			// a delivery reported true reached a live channel or the closed one was recovered
			return "", "", outcome
		}
		// quiescence with the newest incarnation alive
		if _, ok := sm.GetLocalShards()[ClusterShardIDtoShortString(shard)]; !ok {
			return "orphaned/ownership-lost", "the new incarnation registered the shard and is alive, but GetLocalShards() no longer lists it (the old incarnation's cleanup removed the new registration)", outcome
		}
		if ch, ok := sm.GetRemoteSendChan(shard); !ok || ch != newCh {
			return "orphaned/send-channel-lost", fmt.Sprintf("remoteSendChannels[shard] is not the new incarnation's channel (present=%v)", ok), outcome
		}
		for i, d := range delivered {
			_ = i
			if d && len(newCh)+vfCountOpen(oldCh) == 0 {
				// reported delivered but nobody holds the message (old channel closed and drained is impossible: nothing drains)
			}
		}
		n := 0
		for _, d := range delivered {
			if d {
				n++
			}
		}
		got := len(newCh)
		// messages accepted by the old channel before it was closed stay in its buffer
		for {
			select {
			case _, ok := <-oldCh:
				if ok {
					got++
					continue
				}
			default:
			}
			break
		}
		if got != n {
			return "delivery/count-mismatch", fmt.Sprintf("%d deliveries reported true, %d messages are in a channel", n, got), outcome
		}
		return "", "", outcome
	}
}

func vfCountOpen(ch chan RoutedMessage) int { return len(ch) }

// ---- scenario: two receiver incarnations of one source shard + an ack deliverer -----------------

func vfReceiverOverlap() func(s *vrt.Sched) (string, string, string) {
	return func(s *vrt.Sched) (sig, detail, outcome string) {
		sm := vfNewSM()
		src := history.ClusterShardID{ClusterID: 1, ShardID: 1}
		logger := log.NewNoopLogger()
		oldAck := make(chan RoutedAck, 4)
		newAck := make(chan RoutedAck, 4)
		oldCancelled, newCancelled := false, false
		oldR := &vfFakeReceiver{name: "old", src: src, tgt: history.ClusterShardID{ClusterID: 2, ShardID: 1}}
		newR := &vfFakeReceiver{name: "new", src: src, tgt: history.ClusterShardID{ClusterID: 2, ShardID: 1}}
		// old incarnation's entry path (proxyStreamReceiver.Run)
		sm.TerminatePreviousLocalReceiver(src, logger)
		sm.SetLocalAckChan(src, oldAck)
		sm.SetLocalReceiverCancelFunc(src, func() { oldCancelled = true })
		sm.RegisterActiveReceiver(src, oldR)
		var panics []string
		// order bookkeeping for the violation signature: did the old incarnation's unconditional removals run
		// after the new incarnation had stored its entries?
		newCancelSet, newReceiverSet := false, false
		cancelRemovedAfterNew, receiverRemovedAfterNew := false, false
		vfGuard(s, "old-exit", &panics, func() {
			// the deferred cleanup of Run
			sm.RemoveLocalAckChan(src, oldAck)
			sm.RemoveLocalReceiverCancelFunc(src)
			cancelRemovedAfterNew = newCancelSet
			sm.UnregisterActiveReceiver(src)
			receiverRemovedAfterNew = newReceiverSet
		})
		vfGuard(s, "new-entry", &panics, func() {
			sm.TerminatePreviousLocalReceiver(src, logger)
			sm.SetLocalAckChan(src, newAck)
			sm.SetLocalReceiverCancelFunc(src, func() { newCancelled = true })
			newCancelSet = true
			sm.RegisterActiveReceiver(src, newR)
			newReceiverSet = true
		})
		delivered := false
		vfGuard(s, "deliver-ack", &panics, func() {
			ack := &RoutedAck{TargetShard: history.ClusterShardID{ClusterID: 2, ShardID: 1}, Req: &adminservice.StreamWorkflowReplicationMessagesRequest{}}
			delivered = sm.DeliverAckToShardOwner(src, ack, channel.NewShutdownOnce(), logger, 5, false)
		})
		s.Run()
		outcome = fmt.Sprintf("delivered=%v old=%d new=%d oldCancelled=%v", delivered, len(oldAck), len(newAck), oldCancelled)
		if len(panics) > 0 {
			return "crash/panic-escapes", fmt.Sprint(panics), outcome
		}
		if s.Deadlock != "" {
			return "stuck/deadlock", s.Deadlock, outcome
		}
		if ch, ok := sm.GetLocalAckChan(src); !ok || ch != newAck {
			return "orphaned/ack-channel-lost", fmt.Sprintf("localAckChannels[shard] is not the new incarnation's channel (present=%v)", ok), outcome
		}
		if r, ok := sm.GetActiveReceiver(src); !ok || r != ActiveReceiver(newR) {
			cause := "other-cause"
			if receiverRemovedAfterNew {
				cause = "old-cleanup-ran-after-new-entry"
			}
			return "orphaned/active-receiver-lost/" + cause, fmt.Sprintf("the new receiver is alive but activeReceivers[shard] is %v (present=%v) [%s]: late target shards will not get its watermark replayed", r, ok, cause), outcome
		}
		if f, ok := sm.GetLocalReceiverCancelFunc(src); !ok {
			cause := "other-cause"
			if cancelRemovedAfterNew {
				cause = "old-cleanup-ran-after-new-entry"
			}
			return "orphaned/cancel-func-lost/" + cause, "the new receiver is alive but its cancel function is no longer registered [" + cause + "]: a later incarnation cannot terminate it", outcome
		} else {
			f()
			if !newCancelled {
				return "stolen/cancel-func-of-other-incarnation", "the registered cancel function is not the new incarnation's", outcome
			}
		}
		if delivered && len(oldAck)+len(newAck) != 1 {
			return "delivery/count-mismatch", fmt.Sprintf("ack reported delivered, %d acks are in a channel", len(oldAck)+len(newAck)), outcome
		}
		return "", "", outcome
	}
}

// ---- scenario: everything ends ------------------------------------------------------------------

func vfAllEnd() func(s *vrt.Sched) (string, string, string) {
	return func(s *vrt.Sched) (sig, detail, outcome string) {
		sm := vfNewSM()
		shard := history.ClusterShardID{ClusterID: 2, ShardID: 1}
		src := history.ClusterShardID{ClusterID: 1, ShardID: 1}
		logger := log.NewNoopLogger()
		var panics []string
		for i := 0; i < 2; i++ {
			name := fmt.Sprintf("sender-%d", i)
			vfGuard(s, name, &panics, func() {
				ch := make(chan RoutedMessage, 2)
				sm.SetRemoteSendChan(shard, ch)
				at := sm.RegisterShard(shard)
				close(ch)
				sm.UnregisterShard(shard, at)
				sm.RemoveRemoteSendChan(shard, ch)
			})
		}
		vfGuard(s, "receiver", &panics, func() {
			ack := make(chan RoutedAck, 2)
			sm.TerminatePreviousLocalReceiver(src, logger)
			sm.SetLocalAckChan(src, ack)
			sm.SetLocalReceiverCancelFunc(src, func() {})
			r := &vfFakeReceiver{src: src, tgt: shard}
			sm.RegisterActiveReceiver(src, r)
			sm.RemoveLocalAckChan(src, ack)
			sm.RemoveLocalReceiverCancelFunc(src)
			sm.UnregisterActiveReceiver(src)
		})
		s.Run()
		outcome = "ended"
		if len(panics) > 0 {
			return "crash/panic-escapes", fmt.Sprint(panics), outcome
		}
		if s.Deadlock != "" {
			return "stuck/deadlock", s.Deadlock, outcome
		}
		info := sm.GetChannelInfo()
		if n := len(sm.GetLocalShards()); n != 0 || info.TotalSendChannels != 0 || info.TotalAckChannels != 0 {
			return "residue/after-all-streams-ended", fmt.Sprintf("all streams ended but %d shards, %d send channels and %d ack channels remain registered", n, info.TotalSendChannels, info.TotalAckChannels), outcome
		}
		return "", "", outcome
	}
}

// ---- scenario: a peer's ownership announcement races with the local re-registration of the shard ----

// vfAnnouncementVsReregistration: the shard is registered locally at t1; a peer announces a claim stamped T > t1
// (delivered through the real shardDelegate.NotifyMsg) while the local stream reconnects and registers again at
// t3 > T. Whatever the interleaving, the newest claim (t3, local and alive) must still be registered at the end.
func vfAnnouncementVsReregistration() func(s *vrt.Sched) (string, string, string) {
	return func(s *vrt.Sched) (sig, detail, outcome string) {
		mc := &config.MemberlistConfig{Enabled: true, NodeName: "n1", ProxyAddresses: map[string]string{"n1": "a1", "n2": "a2"}}
		sm := NewShardManager(mc, config.ShardCountConfig{Mode: config.ShardCountRouting}, encryption.TLSConfig{}, vfNoopLoggers()).(*shardManagerImpl)
		sm.SetupCallbacks()
		sm.started = true
		shard := history.ClusterShardID{ClusterID: 2, ShardID: 1}
		oldCh := make(chan RoutedMessage, 4)
		sm.SetRemoteSendChan(shard, oldCh)
		oldAt := sm.RegisterShard(shard)
		peerAt := vrt.Now()
		data, _ := json.Marshal(ShardMessage{Type: "register", NodeName: "n2", ClientShard: shard, Timestamp: peerAt})
		newCh := make(chan RoutedMessage, 4)
		var panics []string
		var newAt time.Time
		vfGuard(s, "peer-announcement", &panics, func() { sm.delegate.NotifyMsg(data) })
		vfGuard(s, "reconnect", &panics, func() {
			// exit path of the old incarnation, entry path of the new one (proxyStreamSender.Run)
			close(oldCh)
			sm.UnregisterShard(shard, oldAt)
			sm.RemoveRemoteSendChan(shard, oldCh)
			sm.SetRemoteSendChan(shard, newCh)
			newAt = sm.RegisterShard(shard)
		})
		s.Run()
		_, owned := sm.GetLocalShards()[ClusterShardIDtoShortString(shard)]
		outcome = fmt.Sprintf("owned=%v", owned)
		if len(panics) > 0 {
			return "crash/panic-escapes", fmt.Sprint(panics), outcome
		}
		if s.Deadlock != "" {
			return "stuck/deadlock", s.Deadlock, outcome
		}
		if !newAt.After(peerAt) {
			return "harness/clock", "the re-registration is not newer than the peer's claim", outcome
		}
		if !owned {
			return "orphaned/ownership-lost-to-older-announcement", fmt.Sprintf("the local stream re-registered the shard at %v, after the peer's claim (%v), and is alive, but GetLocalShards() no longer lists the shard: the announcement removed a registration it had not compared", newAt, peerAt), outcome
		}
		if ch, ok := sm.GetRemoteSendChan(shard); !ok || ch != newCh {
			return "orphaned/send-channel-lost", fmt.Sprintf("remoteSendChannels[shard] is not the new incarnation's channel (present=%v)", ok), outcome
		}
		return "", "", outcome
	}
}

func vfC08Scenarios() map[string]func(s *vrt.Sched) (string, string, string) {
	return map[string]func(s *vrt.Sched) (string, string, string){
		"announcement-vs-reregistration": vfAnnouncementVsReregistration(),
		"sender-overlap":                 vfSenderOverlap(false),
		"sender-three-incarnations":      vfSenderOverlap(true),
		"receiver-overlap":               vfReceiverOverlap(),
		"all-streams-end":                vfAllEnd(),
	}
}

type vfC08Replay struct {
	Scenario string `json:"scenario"`
	Choices  []int  `json:"choices"`
}

func TestVerifC08(t *testing.T) {
	vfRegistryRun(t, "C08", "TestVerifC08", vfC08Scenarios())
}

// C09 (thread level): a peer's ownership announcement handled by the real NotifyMsg, concurrently with the local
// re-registration of the same shard - the newest claim must own the shard in every interleaving.
func TestVerifC09Announce(t *testing.T) {
	vfRegistryRun(t, "C09", "TestVerifC09Announce", map[string]func(s *vrt.Sched) (string, string, string){
		"announcement-vs-reregistration": vfAnnouncementVsReregistration(),
	})
}

func vfRegistryRun(t *testing.T, property, testName string, scenarios map[string]func(s *vrt.Sched) (string, string, string)) {
	if vrt.IsWorker() {
		vrt.ServeShards(t, scenarios)
		return
	}
	res := vrt.NewResult(property, "model_checking")
	defer func() {
		if err := res.Write(); err != nil {
			t.Fatal(err)
		}
	}()
	if p := vrt.ReplayPath(); p != "" {
		var rp vfC08Replay
		raw, _ := os.ReadFile(p)
		_ = json.Unmarshal(raw, &rp)
		ex := vrt.RunSchedule(t, rp.Choices, 2000, scenarios[rp.Scenario])
		t.Logf("replay %s: sig=%q detail=%q diverged=%q\n  %s", rp.Scenario, ex.Signature, ex.Violation, ex.Diverged, strings.Join(ex.Trace, "\n  "))
		if ex.Signature != "" {
			res.Violate(rp.Scenario+"/"+ex.Signature, ex.Violation, rp)
		}
		return
	}
	bound := 2
	if vrt.Thorough() {
		bound = 3
	}
	deadline := vrt.Deadline()
	pool := vrt.NewPool(testName, vrt.Workers(), 10*time.Minute)
	var states, transitions int64
	exhaustive := true
	names := make([]string, 0, len(scenarios))
	for n := range scenarios {
		names = append(names, n)
	}
	sort.Strings(names)
	outcomes := map[string]int64{}
	var summary []string
	for _, name := range names {
		body := scenarios[name]
		// determinism: the default schedule twice must give identical traces
		e1 := vrt.RunSchedule(t, nil, 2000, body)
		e2 := vrt.RunSchedule(t, nil, 2000, body)
		if strings.Join(e1.Trace, "|") != strings.Join(e2.Trace, "|") {
			res.Set("nondeterministic_"+name, true)
			exhaustive = false
		}
		st, viols := vrt.ExploreSharded(t, pool, name, bound, 2000, deadline, body)
		perSig := map[string]int{}
		for _, v := range viols {
			perSig[v.Signature]++
			if perSig[v.Signature] > 3 {
				continue
			}
			res.Violate(name+"/"+v.Signature, fmt.Sprintf("scenario %s, schedule %v: %s\nschedule:\n  %s", name, v.Choices, v.Detail, strings.Join(v.Trace, "\n  ")), vfC08Replay{name, v.Choices})
		}
		states += st.Executions
		transitions += st.Decisions
		exhaustive = exhaustive && st.Exhaustive
		for o, c := range st.Outcomes {
			outcomes[name+": "+o] += c
		}
		summary = append(summary, fmt.Sprintf("%s: %d schedules, <=%d decisions, %d deadlocks, %d horizon hits, %d divergences", name, st.Executions, st.MaxPoints, st.Deadlocks, st.HorizonHits, st.Diverged))
		if len(st.HarnessErrors) > 0 {
			res.Set("harness_errors_"+name, st.HarnessErrors[:1])
		}
	}
	res.Set("states", states)
	res.Set("transitions", transitions)
	res.Set("traces_validated_against_impl", states)
	res.Set("schedules", states)
	res.Set("preemption_bound_completed", int64(bound))
	res.Set("scenarios", summary)
	res.Set("distinct_outcomes", int64(len(outcomes)))
	res.Set("exhaustive", exhaustive)
	res.Set("explanation", "states = complete schedules executed on the real shardManagerImpl (rewritten lock/channel/go sites are scheduling points); every schedule with at most the stated number of preemptions is enumerated depth-first; there is no separate model")
	ks := make([]string, 0, len(outcomes))
	for k := range outcomes {
		ks = append(ks, k)
	}
	sort.Strings(ks)
	for i := 0; i < len(ks) && i < 5; i++ {
		res.Sample(map[string]any{"outcome": ks[i], "schedules": outcomes[ks[i]]})
	}
	res.Assume("two registrations never read the identical instant (verifrt.Now is strictly increasing; a nanosecond clock behaves the same)")
	res.Assume("scheduling points at lock acquisitions, channel operations and goroutine starts are sufficient: every shared field of the shard manager is accessed under one of its locks")
}
