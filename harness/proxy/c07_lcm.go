//go:build verif

package proxy

// C07: LCM mode. (a) handler level: every (local, remote) pair of a square, both directions, every LCM
// shard id through the real StreamWorkflowReplicationMessages/handleStream; (b) wiring level: real
// NewClusterConnection on loopback between two fake clusters, DescribeCluster through both servers and
// streams for every LCM shard id (small square) or boundary ids (large pairs).

import (
	"context"
	"errors"
	"fmt"
	"os"
	"strconv"
	"sync"
	"testing"

	"go.temporal.io/server/api/adminservice/v1"
	"go.temporal.io/server/client/history"
	servercommon "go.temporal.io/server/common"
	"go.temporal.io/server/common/log"
	"google.golang.org/grpc"
	"google.golang.org/grpc/metadata"
	"google.golang.org/protobuf/proto"

	"github.com/temporalio/s2s-proxy/common"
	"github.com/temporalio/s2s-proxy/config"
	vrt "github.com/temporalio/s2s-proxy/internal/verifrt"
)

func vfGCDSub(a, b int64) int64 {
	for a != b {
		if a > b {
			a -= b
		} else {
			b -= a
		}
	}
	return a
}

func vfLCMRef(a, b int64) int64 { return a / vfGCDSub(a, b) * b }

type vfC07Case struct {
	Local, Remote int32
	Dir           string // inbound | outbound
	S             int32
}

var errVfRecorded = errors.New("verif: metadata recorded")

// vfC07Handler runs one stream open through the real handler with the LCM parameters NewClusterConnection
// computes for that direction (transcribed: LCM = common.LCM(local, remote); serving count = local for the
// inbound server, remote for the outbound one) and returns the metadata the proxy put on the stream it opened.
func vfC07Handler(local, remote int32, dir string, s int32) (md metadata.MD, panicked string, err error) {
	scc := config.ShardCountConfig{Mode: config.ShardCountLCM, LocalShardCount: local, RemoteShardCount: remote}
	lcm := LCMParameters{LCM: common.LCM(local, remote), TargetShardCount: remote}
	clientCluster, serverCluster := int32(1), int32(2)
	if dir == "inbound" {
		lcm.TargetShardCount = local
		clientCluster, serverCluster = 2, 1
	}
	var got metadata.MD
	client := &vfAdminClient{}
	client.onOpen = func(cs *vfClientStream) error { got = cs.md; return errVfRecorded }
	observer := NewReplicationStreamObserver(log.NewNoopLogger())
	srv := NewAdminServiceProxyServer("c07", client, client, AdminServiceOverrides{}, []string{dir}, observer.ReportStreamValue, scc, lcm,
		RoutingParameters{}, vfNoopLoggers(), nil, context.Background())
	// the initiator is a real Temporal cluster: it opens the stream for LCM shard s from its own shard
	// c = ((s-1) mod its own count) + 1
	initiatorCount := local
	if dir == "inbound" {
		initiatorCount = remote
	}
	ss := vfNewServerStream(history.ClusterShardID{ClusterID: clientCluster, ShardID: (s-1)%initiatorCount + 1}, history.ClusterShardID{ClusterID: serverCluster, ShardID: s}, nil)
	defer ss.cancel()
	func() {
		defer func() {
			if p := recover(); p != nil {
				panicked = fmt.Sprint(p)
			}
		}()
		err = srv.StreamWorkflowReplicationMessages(ss)
	}()
	return got, panicked, err
}

func vfMDInt(md metadata.MD, k string) (int64, bool) {
	v := md.Get(k)
	if len(v) != 1 {
		return 0, false
	}
	n, err := strconv.ParseInt(v[0], 10, 64)
	return n, err == nil
}

// vfC07CheckMD is the oracle for the forwarded metadata.
func vfC07CheckMD(res *vrt.Result, level string, local, remote int32, dir string, s int32, md metadata.MD) bool {
	count := int64(remote)
	clientCluster, serverCluster := int64(1), int64(2)
	if dir == "inbound" {
		count = int64(local)
		clientCluster, serverCluster = 2, 1
	}
	want := (int64(s)-1)%count + 1
	replay := map[string]any{"level": level, "local": local, "remote": remote, "dir": dir, "shard": s}
	ctx := fmt.Sprintf("%s level, local=%d remote=%d %s server, LCM shard %d", level, local, remote, dir, s)
	if md == nil {
		res.Violate("lcm/stream-not-forwarded", ctx+": no stream was opened towards the serving cluster", replay)
		return false
	}
	ok := true
	if got, valid := vfMDInt(md, history.MetadataKeyServerShardID); !valid || got != want {
		res.Violate("lcm/wrong-serving-shard", fmt.Sprintf("%s: forwarded to server shard %v, want %d (= the shard owning every workflow that hashes to %d under %d shards)", ctx, md.Get(history.MetadataKeyServerShardID), want, s, count), replay)
		ok = false
	}
	if got, valid := vfMDInt(md, history.MetadataKeyClientShardID); !valid || got != int64(s) {
		res.Violate("lcm/initiator-shard-not-preserved", fmt.Sprintf("%s: initiator shard id forwarded as %v, want %d", ctx, md.Get(history.MetadataKeyClientShardID), s), replay)
		ok = false
	}
	if got, valid := vfMDInt(md, history.MetadataKeyClientClusterID); !valid || got != clientCluster {
		res.Violate("lcm/cluster-id-changed", fmt.Sprintf("%s: client cluster id %v, want %d", ctx, md.Get(history.MetadataKeyClientClusterID), clientCluster), replay)
		ok = false
	}
	if got, valid := vfMDInt(md, history.MetadataKeyServerClusterID); !valid || got != serverCluster {
		res.Violate("lcm/cluster-id-changed", fmt.Sprintf("%s: server cluster id %v, want %d", ctx, md.Get(history.MetadataKeyServerClusterID), serverCluster), replay)
		ok = false
	}
	return ok
}

func vfC07Wiring(res *vrt.Result, local, remote int32, shards func(lcm int32) []int32, counters *[3]int64, mu *sync.Mutex) {
	replay := map[string]any{"level": "wiring", "local": local, "remote": remote}
	cfg := config.ClusterConnConfig{ShardCountConfig: config.ShardCountConfig{Mode: config.ShardCountLCM, LocalShardCount: local, RemoteShardCount: remote}}
	// other DescribeCluster overrides configured next to the shard count: a failover-version-increment translation on
	// one side, the other side or both (by parity of the pair), none when both counts are even
	if local%2 == 1 {
		cfg.FVITranslation.Local = 1000
	}
	if remote%2 == 1 {
		cfg.FVITranslation.Remote = 2000
	}
	cl, err := vfStartCluster(cfg)
	if err != nil {
		res.Violate("lcm/cluster-connection-fails", fmt.Sprintf("local=%d remote=%d: %v", local, remote, err), replay)
		return
	}
	defer cl.Close()
	cl.Local.Respond = func(m string, req, resp proto.Message) {
		if r, ok := resp.(*adminservice.DescribeClusterResponse); ok {
			r.HistoryShardCount = local
			r.ClusterName = "local"
		}
	}
	cl.Remote.Respond = func(m string, req, resp proto.Message) {
		if r, ok := resp.(*adminservice.DescribeClusterResponse); ok {
			r.HistoryShardCount = remote
			r.ClusterName = "remote"
		}
	}
	lcm := vfLCMRef(int64(local), int64(remote))
	for _, side := range []struct {
		dir  string
		conn *grpc.ClientConn
	}{{"inbound", cl.FromRemote}, {"outbound", cl.FromLocal}} {
		// the request as Temporal's own refresh sends it (no cluster name), and with the name of the cluster spelled out
		// (as an operator tool does): the same cluster answers, so the same shard count is advertised
		for _, name := range []string{"", "the-cluster-behind-the-proxy"} {
			resp, err := adminservice.NewAdminServiceClient(side.conn).DescribeCluster(context.Background(), &adminservice.DescribeClusterRequest{ClusterName: name})
			mu.Lock()
			counters[0]++
			mu.Unlock()
			if err != nil {
				res.Violate("lcm/describe-cluster-fails", fmt.Sprintf("local=%d remote=%d %s (cluster_name=%q): %v", local, remote, side.dir, name, err), replay)
				continue
			}
			if int64(resp.HistoryShardCount) != lcm {
				res.Violate("lcm/describe-cluster-shard-count", fmt.Sprintf("local=%d remote=%d: DescribeCluster (cluster_name=%q) through the %s server reports HistoryShardCount=%d, want lcm=%d", local, remote, name, side.dir, resp.HistoryShardCount, lcm), replay)
			}
		}
	}
	streamMethod := vfMethodTable["/temporal.server.api.adminservice.v1.AdminService/StreamWorkflowReplicationMessages"]
	for _, s := range shards(int32(lcm)) {
		for _, side := range []struct {
			dir     string
			conn    *grpc.ClientConn
			backend *vfBackend
			cc, sc  int32
			ic      int32 // the initiating cluster's own shard count
		}{{"inbound", cl.FromRemote, cl.Local, 2, 1, remote}, {"outbound", cl.FromLocal, cl.Remote, 1, 2, local}} {
			side.backend.Reset()
			md := metadata.New(map[string]string{
				history.MetadataKeyClientClusterID: fmt.Sprint(side.cc), history.MetadataKeyClientShardID: fmt.Sprint((s-1)%side.ic + 1),
				history.MetadataKeyServerClusterID: fmt.Sprint(side.sc), history.MetadataKeyServerShardID: fmt.Sprint(s)})
			backend := side.backend
			err := vfOpenStream(side.conn, streamMethod, md, func() bool {
				for _, c := range backend.Recorded() {
					if c.Method == streamMethod.Full {
						return true
					}
				}
				return false
			})
			mu.Lock()
			counters[1]++
			mu.Unlock()
			rp := map[string]any{"level": "wiring", "local": local, "remote": remote, "dir": side.dir, "shard": s}
			if err != nil {
				res.Violate("lcm/stream-fails", fmt.Sprintf("local=%d remote=%d %s server, LCM shard %d: stream ended with %v", local, remote, side.dir, s, err), rp)
				continue
			}
			var got metadata.MD
			n := 0
			for _, c := range side.backend.Recorded() {
				if c.Method == streamMethod.Full {
					got = c.MD
					n++
				}
			}
			if n != 1 {
				res.Violate("lcm/stream-not-forwarded-once", fmt.Sprintf("local=%d remote=%d %s server, LCM shard %d: %d streams reached the serving cluster, want exactly 1", local, remote, side.dir, s, n), rp)
				continue
			}
			if vfC07CheckMD(res, "wiring", local, remote, side.dir, s, got) {
				mu.Lock()
				counters[2]++
				mu.Unlock()
			}
		}
	}
}

func vfC07Replay(t *testing.T, res *vrt.Result, path string) {
	var rp struct {
		Level         string
		Local, Remote int32
		Dir           string
		Shard         int32
	}
	if err := vfReadJSON(path, &rp); err != nil {
		t.Fatal(err)
	}
	if rp.Level == "handler" {
		md, p, err := vfC07Handler(rp.Local, rp.Remote, rp.Dir, rp.Shard)
		t.Logf("handler: md=%v panic=%q err=%v", md, p, err)
		if p != "" {
			res.Violate("lcm/panic", p, rp)
		}
		vfC07CheckMD(res, "handler", rp.Local, rp.Remote, rp.Dir, rp.Shard, md)
		return
	}
	var cnt [3]int64
	var mu sync.Mutex
	vfC07Wiring(res, rp.Local, rp.Remote, func(lcm int32) []int32 {
		if rp.Shard > 0 {
			return []int32{rp.Shard}
		}
		out := []int32{}
		for s := int32(1); s <= lcm; s++ {
			out = append(out, s)
		}
		return out
	}, &cnt, &mu)
}

func TestVerifC07(t *testing.T) {
	res := vrt.NewResult("C07", "exploration")
	defer func() {
		if err := res.Write(); err != nil {
			t.Fatal(err)
		}
	}()
	if p := vrt.ReplayPath(); p != "" {
		vfC07Replay(t, res, p)
		return
	}
	square, wiringSquare, wfIDs := int32(32), int32(8), 256
	if vrt.Thorough() {
		square, wiringSquare, wfIDs = 96, 12, 2048
	}
	if s := os.Getenv("VERIF_C07_SQUARE"); s != "" {
		fmt.Sscan(s, &square)
	}
	var evals, nontrivial, hashChecks int64
	var mu sync.Mutex
	// (a) handler level, full square, every LCM shard id, both directions
	type pair struct{ l, r int32 }
	var pairs []pair
	for l := int32(1); l <= square; l++ {
		for r := int32(1); r <= square; r++ {
			pairs = append(pairs, pair{l, r})
		}
	}
	// large pairs: powers of two and mixed composites, boundary ids + stride
	var big []pair
	pow2 := []int32{1, 2, 4, 8, 16, 32, 64, 128, 256, 512, 1024, 2048, 4096, 8192, 16384}
	for _, a := range pow2 {
		for _, b := range pow2 {
			if a > square || b > square {
				big = append(big, pair{a, b})
			}
		}
	}
	for _, c := range []pair{{3 * 64, 5 * 128}, {6000, 12000}, {6000, 16384}, {16383, 16384}, {16384, 16383}, {12000, 16383}, {3 * 1024, 5 * 512}, {1, 16384}, {16384, 1}, {4099, 4093}} {
		big = append(big, c)
	}
	work := make(chan func(), 64)
	var wg sync.WaitGroup
	for w := 0; w < vrt.Workers(); w++ {
		wg.Add(1)
		go func() {
			defer wg.Done()
			for f := range work {
				f()
			}
		}()
	}
	handlerPair := func(l, r int32, ids func(lcm int32) []int32) {
		ref := vfLCMRef(int64(l), int64(r))
		if got := common.LCM(l, r); int64(got) != ref {
			res.Violate("lcm/lcm-arithmetic", fmt.Sprintf("common.LCM(%d,%d)=%d, want %d", l, r, got, ref), map[string]any{"level": "handler", "local": l, "remote": r})
			return
		}
		if g := common.GCD(l, r); int64(g) != vfGCDSub(int64(l), int64(r)) {
			res.Violate("lcm/gcd-arithmetic", fmt.Sprintf("common.GCD(%d,%d)=%d, want %d", l, r, g, vfGCDSub(int64(l), int64(r))), map[string]any{"level": "handler", "local": l, "remote": r})
		}
		var n, nt int64
		for _, dir := range []string{"inbound", "outbound"} {
			count := int64(r)
			if dir == "inbound" {
				count = int64(l)
			}
			if ref%count != 0 {
				res.Violate("lcm/count-does-not-divide", fmt.Sprintf("lcm %d not a multiple of %d", ref, count), nil)
			}
			for _, s := range ids(int32(ref)) {
				md, p, err := vfC07Handler(l, r, dir, s)
				n++
				if (int64(s)-1)%count+1 != int64(s) {
					nt++
				}
				if p != "" || (err != nil && !errors.Is(err, errVfRecorded)) {
					res.Violate("lcm/panic-or-error", fmt.Sprintf("local=%d remote=%d %s LCM shard %d: panic=%q err=%v", l, r, dir, s, p, err),
						map[string]any{"level": "handler", "local": l, "remote": r, "dir": dir, "shard": s})
					continue
				}
				vfC07CheckMD(res, "handler", l, r, dir, s, md)
			}
		}
		mu.Lock()
		evals += n
		nontrivial += nt
		mu.Unlock()
	}
	all := func(lcm int32) []int32 {
		out := make([]int32, 0, lcm)
		for s := int32(1); s <= lcm; s++ {
			out = append(out, s)
		}
		return out
	}
	boundary := func(lcm int32) []int32 {
		set := map[int32]bool{}
		for _, s := range []int32{1, 2, 3, lcm - 1, lcm, lcm / 2, lcm/2 + 1} {
			if s >= 1 && s <= lcm {
				set[s] = true
			}
		}
		stride := lcm/61 + 1
		for s := int32(1); s <= lcm; s += stride {
			set[s] = true
		}
		out := make([]int32, 0, len(set))
		for s := range set {
			out = append(out, s)
		}
		return out
	}
	for _, p := range pairs {
		p := p
		work <- func() { handlerPair(p.l, p.r, all) }
	}
	for _, p := range big {
		p := p
		work <- func() {
			handlerPair(p.l, p.r, func(lcm int32) []int32 {
				b := boundary(lcm)
				// the count boundaries of both clusters
				for _, c := range []int32{p.l, p.l + 1, p.r, p.r + 1} {
					if c >= 1 && c <= lcm {
						b = append(b, c)
					}
				}
				return b
			})
		}
	}
	// hash consistency on the small square: a workflow hashing to LCM shard s is owned, under the serving
	// cluster's own count, by the shard the stream for s is forwarded to
	for l := int32(1); l <= wiringSquare; l++ {
		for r := int32(1); r <= wiringSquare; r++ {
			l, r := l, r
			work <- func() {
				lcm := int32(vfLCMRef(int64(l), int64(r)))
				var n int64
				for i := 0; i < wfIDs; i++ {
					wf := fmt.Sprintf("wf-%d", i)
					s := servercommon.WorkflowIDToHistoryShard("ns", wf, lcm)
					for _, count := range []int32{l, r} {
						owner := servercommon.WorkflowIDToHistoryShard("ns", wf, count)
						if mapped := mapShardIDUnique(lcm, count, s); mapped != owner {
							res.Violate("lcm/hash-inconsistent", fmt.Sprintf("local=%d remote=%d: workflow %s hashes to LCM shard %d, owner under %d shards is %d, stream is forwarded to %d", l, r, wf, s, count, owner, mapped), nil)
						}
						n++
					}
				}
				mu.Lock()
				hashChecks += n
				mu.Unlock()
			}
		}
	}
	close(work)
	wg.Wait()
	// (b) wiring level (sequential: real listeners)
	var cnt [3]int64
	for l := int32(1); l <= wiringSquare; l++ {
		for r := int32(1); r <= wiringSquare; r++ {
			vfC07Wiring(res, l, r, all, &cnt, &mu)
			if res.NumViolations() > 20 {
				break
			}
		}
	}
	for _, p := range []pair{{16, 1024}, {6000, 12000}, {16383, 16384}, {16384, 16384}, {4099, 4093}} {
		p := p
		vfC07Wiring(res, p.l, p.r, func(lcm int32) []int32 {
			var out []int32
			for _, s := range []int32{1, p.l, p.l + 1, p.r, p.r + 1, lcm - 1, lcm} {
				if s >= 1 && s <= lcm {
					out = append(out, s)
				}
			}
			return out
		}, &cnt, &mu)
	}
	res.Set("evaluations", evals+cnt[0]+cnt[1]+hashChecks)
	res.Set("distinct_nontrivial", nontrivial)
	res.Set("handler_level_stream_opens", evals)
	res.Set("wiring_level_describe_calls", cnt[0])
	res.Set("wiring_level_stream_opens", cnt[1])
	res.Set("hash_consistency_checks", hashChecks)
	res.Set("rule", fmt.Sprintf("handler level: every (local,remote) in 1..%d squared, both directions, every LCM shard id, plus %d large pairs (powers of two up to 16384, mixed composites, coprime primes) at boundary ids and a stride; wiring level: real NewClusterConnection on loopback for 1..%d squared (every LCM shard id, both directions, DescribeCluster through both servers) and 5 large pairs at boundary ids; hash consistency for %d workflow ids per pair of the small square; non-trivial = stream opens whose LCM shard id differs from the serving shard id", square, len(big), wiringSquare, wfIDs))
	res.Set("exhaustive", true)
	res.Set("exhaustive_scope", "complete for the squares named in rule; large pairs are covered at boundary ids and a stride only (not exhaustive)")
	res.Sample(map[string]any{"local": 2, "remote": 3, "dir": "inbound", "lcm_shard": 5, "forwarded_server_shard": 1, "forwarded_client_shard": 5})
	res.Sample(map[string]any{"local": 6000, "remote": 16384, "lcm": vfLCMRef(6000, 16384)})
	res.Assume("handler level uses the LCM parameters as NewClusterConnection computes them (transcribed); the wiring level checks the real computation end to end")
}
