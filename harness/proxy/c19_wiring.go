//go:build verif

package proxy

// C19 (wiring): the TLS blocks of a cluster definition reach the right endpoints of a real ClusterConnection:
// the TCP listeners are built from tcpServer.tls, the outgoing clients from tcpClient.tls.

import (
	"context"
	"crypto/tls"
	"crypto/x509"
	"fmt"
	"io"
	"net"
	"os"
	"path/filepath"
	"testing"
	"time"

	"github.com/hashicorp/yamux"
	"go.temporal.io/server/api/adminservice/v1"
	"google.golang.org/grpc"
	"google.golang.org/grpc/credentials"
	"google.golang.org/grpc/credentials/insecure"

	"github.com/temporalio/s2s-proxy/config"
	"github.com/temporalio/s2s-proxy/encryption"
	vrt "github.com/temporalio/s2s-proxy/internal/verifrt"
	"github.com/temporalio/s2s-proxy/transport/mux"
)

func vfTLSDial(addr string, cfg *tls.Config) error {
	d := &net.Dialer{Timeout: 5 * time.Second}
	raw, err := d.Dial("tcp", addr)
	if err != nil {
		return err
	}
	defer raw.Close()
	_ = raw.SetDeadline(time.Now().Add(5 * time.Second))
	c := tls.Client(raw, cfg)
	if err := c.Handshake(); err != nil {
		return err
	}
	// TLS 1.3 lets the client finish before the server has judged its certificate: exchange application data
	// (the HTTP/2 client preface makes the gRPC server answer with its SETTINGS frame)
	if _, err := c.Write([]byte("PRI * HTTP/2.0\r\n\r\nSM\r\n\r\n\x00\x00\x00\x04\x00\x00\x00\x00\x00")); err != nil {
		return err
	}
	buf := make([]byte, 9)
	_, err = c.Read(buf)
	return err
}

func TestVerifC19Wiring(t *testing.T) {
	res := vrt.NewResult("C19", "exploration")
	defer func() {
		if err := res.Write(); err != nil {
			t.Fatal(err)
		}
	}()
	dir := filepath.Join(os.Getenv("VERIF_WORKDIR"), "certs-wiring")
	if os.Getenv("VERIF_WORKDIR") == "" {
		dir = t.TempDir()
	}
	_ = os.MkdirAll(dir, 0o755)
	both := []x509.ExtKeyUsage{x509.ExtKeyUsageClientAuth, x509.ExtKeyUsageServerAuth}
	ca1 := vrt.NewCA(dir, "w-ca-configured")
	ca2 := vrt.NewCA(dir, "w-ca-other")
	const sn = "proxy.verif.test"
	own := vrt.NewLeaf(dir, vrt.LeafOpts{Name: "w-proxy-own", Signer: ca1, DNS: []string{sn}, EKU: both})
	valid := vrt.NewLeaf(dir, vrt.LeafOpts{Name: "w-peer-valid", Signer: ca1, DNS: []string{sn}, EKU: both})
	selfSigned := vrt.NewLeaf(dir, vrt.LeafOpts{Name: "w-peer-selfsigned", DNS: []string{sn}, EKU: both})
	otherCA := vrt.NewLeaf(dir, vrt.LeafOpts{Name: "w-peer-otherca", Signer: ca2, DNS: []string{sn}, EKU: both})
	var evals, nontrivial int64
	strict := encryption.TLSConfig{CertificatePath: own.CertPath, KeyPath: own.KeyPath, RemoteCAPath: ca1.Path, CAServerName: sn}
	lax := encryption.TLSConfig{CAServerName: sn, SkipCAVerification: true}
	// listeners: tcpServer.tls strict while tcpClient.tls is lax (and the other way round)
	for _, variant := range []struct {
		name           string
		server, client encryption.TLSConfig
		mustVerify     bool
	}{{"server=verify,client=skip", strict, lax, true}, {"server=skip,client=verify", encryption.TLSConfig{CertificatePath: own.CertPath, KeyPath: own.KeyPath, SkipCAVerification: true}, strict, false}} {
		cfg := config.ClusterConnConfig{Name: "c19"}
		def := config.ClusterDefinition{ConnectionType: config.ConnTypeTCP,
			TcpClient: config.TCPTLSInfo{ConnectionString: "127.0.0.1:1", TLSConfig: variant.client},
			TcpServer: config.TCPTLSInfo{ConnectionString: "127.0.0.1:0", TLSConfig: variant.server}}
		cfg.Local, cfg.Remote = def, def
		ctx, cancel := context.WithCancel(context.Background())
		cc, err := NewClusterConnection(ctx, cfg, vfNoopLoggers())
		if err != nil {
			cancel()
			res.Violate("tls-wiring/cluster-connection-fails", fmt.Sprintf("%s: %v", variant.name, err), nil)
			continue
		}
		cc.Start()
		for _, srv := range []struct {
			name string
			addr string
		}{{"inbound", cc.inboundServer.(*simpleGRPCServer).listener.Addr().String()}, {"outbound", cc.outboundServer.(*simpleGRPCServer).listener.Addr().String()}} {
			for _, peer := range []struct {
				name    string
				leaf    *vrt.Leaf
				chainOK bool
			}{{"valid-chain", valid, true}, {"self-signed", selfSigned, false}, {"other-ca", otherCA, false}, {"none", nil, false}} {
				pool := x509.NewCertPool()
				pool.AddCert(ca1.Cert)
				pc := &tls.Config{RootCAs: pool, ServerName: sn, NextProtos: []string{"h2"}}
				if peer.leaf != nil {
					leaf := peer.leaf.TLSCert
					pc.GetClientCertificate = func(*tls.CertificateRequestInfo) (*tls.Certificate, error) { return &leaf, nil }
				}
				err := vfTLSDial(srv.addr, pc)
				evals++
				want := peer.chainOK || !variant.mustVerify
				if !want {
					nontrivial++
				}
				replay := map[string]any{"variant": variant.name, "server": srv.name, "peer": peer.name}
				if err == nil && !want {
					res.Violate("tls-wiring/listener-admits-unauthenticated-peer/"+peer.name, fmt.Sprintf("%s, %s TCP listener (tcpServer.tls has verification on): a peer presenting %s completed TLS and exchanged data", variant.name, srv.name, peer.name), replay)
				}
				if err != nil && want {
					res.Violate("tls-wiring/listener-refuses-legitimate-peer/"+peer.name, fmt.Sprintf("%s, %s listener refused %s: %v", variant.name, srv.name, peer.name, err), replay)
				}
			}
		}
		cancel()
		time.Sleep(20 * time.Millisecond)
	}
	// outgoing clients: tcpClient.tls strict; the serving cluster presents a valid / foreign certificate
	for _, backendCred := range []struct {
		name string
		leaf *vrt.Leaf
		ok   bool
	}{{"valid-chain", valid, true}, {"other-ca", otherCA, false}, {"self-signed", selfSigned, false}} {
		lis, err := net.Listen("tcp", "127.0.0.1:0")
		if err != nil {
			t.Fatal(err)
		}
		backend := grpc.NewServer(grpc.Creds(credentials.NewTLS(&tls.Config{Certificates: []tls.Certificate{backendCred.leaf.TLSCert}})))
		adminservice.RegisterAdminServiceServer(backend, &adminservice.UnimplementedAdminServiceServer{})
		go func() { _ = backend.Serve(lis) }()
		cfg := config.ClusterConnConfig{Name: "c19b"}
		cfg.Local = config.ClusterDefinition{ConnectionType: config.ConnTypeTCP,
			TcpClient: config.TCPTLSInfo{ConnectionString: lis.Addr().String(), TLSConfig: encryption.TLSConfig{RemoteCAPath: ca1.Path, CAServerName: sn}},
			TcpServer: config.TCPTLSInfo{ConnectionString: "127.0.0.1:0"}}
		cfg.Remote = cfg.Local
		ctx, cancel := context.WithCancel(context.Background())
		cc, err := NewClusterConnection(ctx, cfg, vfNoopLoggers())
		if err != nil {
			cancel()
			backend.Stop()
			res.Violate("tls-wiring/cluster-connection-fails", err.Error(), nil)
			continue
		}
		cc.Start()
		conn, _ := grpc.NewClient(cc.inboundServer.(*simpleGRPCServer).listener.Addr().String(), grpc.WithTransportCredentials(insecure.NewCredentials()))
		cctx, ccancel := context.WithTimeout(context.Background(), 5*time.Second)
		_, err = adminservice.NewAdminServiceClient(conn).DescribeCluster(cctx, &adminservice.DescribeClusterRequest{})
		ccancel()
		evals++
		reached := err != nil && (contains(err.Error(), "Unimplemented") || contains(err.Error(), "not implemented"))
		if !backendCred.ok {
			nontrivial++
		}
		if reached && !backendCred.ok {
			res.Violate("tls-wiring/client-accepts-unauthenticated-server/"+backendCred.name, fmt.Sprintf("the proxy's TCP client (tcpClient.tls with CA verification) reached a serving cluster presenting %s", backendCred.name), map[string]any{"backend": backendCred.name})
		}
		if !reached && backendCred.ok {
			res.Violate("tls-wiring/client-refuses-legitimate-server", fmt.Sprintf("the proxy's TCP client did not reach a serving cluster with a valid certificate: %v", err), map[string]any{"backend": backendCred.name})
		}
		_ = conn.Close()
		cancel()
		backend.Stop()
	}
	// mux listener (receiver.go): muxAddressInfo.tls with verification on / off x peer credentials; admitted = the
	// peer's yamux ping over the TLS connection is answered
	mux.MuxManagerStartDelay = 0
	plainLocal := config.ClusterDefinition{ConnectionType: config.ConnTypeTCP,
		TcpClient: config.TCPTLSInfo{ConnectionString: "127.0.0.1:1"}, TcpServer: config.TCPTLSInfo{ConnectionString: "127.0.0.1:0"}}
	for _, variant := range []struct {
		name       string
		server     encryption.TLSConfig
		mustVerify bool
	}{{"mux-server tls=verify", strict, true}, {"mux-server tls=skip", encryption.TLSConfig{CertificatePath: own.CertPath, KeyPath: own.KeyPath, SkipCAVerification: true}, false}} {
		cfg := config.ClusterConnConfig{Name: "c19m", Local: plainLocal}
		cfg.Remote = config.ClusterDefinition{ConnectionType: config.ConnTypeMuxServer, MuxCount: 1,
			MuxAddressInfo: config.TCPTLSInfo{ConnectionString: "127.0.0.1:0", TLSConfig: variant.server}}
		ctx, cancel := context.WithCancel(context.Background())
		cc, err := NewClusterConnection(ctx, cfg, vfNoopLoggers())
		if err != nil {
			cancel()
			res.Violate("tls-wiring/cluster-connection-fails", fmt.Sprintf("%s: %v", variant.name, err), nil)
			continue
		}
		cc.Start()
		addr := cc.inboundServer.(mux.MultiMuxManager).Address()
		for _, peer := range []struct {
			name    string
			leaf    *vrt.Leaf
			chainOK bool
		}{{"valid-chain", valid, true}, {"self-signed", selfSigned, false}, {"other-ca", otherCA, false}, {"none", nil, false}, {"valid-chain-again", valid, true}} {
			pool := x509.NewCertPool()
			pool.AddCert(ca1.Cert)
			pc := &tls.Config{RootCAs: pool, ServerName: sn}
			if peer.leaf != nil {
				leaf := peer.leaf.TLSCert
				pc.GetClientCertificate = func(*tls.CertificateRequestInfo) (*tls.Certificate, error) { return &leaf, nil }
			}
			err := vfMuxPeerPing(addr, pc)
			evals++
			want := peer.chainOK || !variant.mustVerify
			if !want {
				nontrivial++
			}
			replay := map[string]any{"variant": variant.name, "peer": peer.name}
			if err == nil && !want {
				res.Violate("tls-wiring/mux-listener-admits-unauthenticated-peer/"+peer.name, fmt.Sprintf("%s (muxAddressInfo.tls has verification on): a peer presenting %s completed TLS and had a yamux ping answered", variant.name, peer.name), replay)
			}
			if err != nil && want {
				res.Violate("tls-wiring/mux-listener-refuses-legitimate-peer/"+peer.name, fmt.Sprintf("%s refused %s: %v", variant.name, peer.name, err), replay)
			}
		}
		cancel()
		time.Sleep(20 * time.Millisecond)
	}
	// mux and TCP listeners whose TLS block is enabled with verification on but WITHOUT an own certificate (enabled through
	// caServerName + remoteCAPath): either the configuration is refused, or the listener admits nobody - in particular not
	// a peer that does not speak TLS at all
	noCert := encryption.TLSConfig{CAServerName: sn, RemoteCAPath: ca1.Path}
	for _, kind := range []string{"mux-server", "tcp"} {
		cfg := config.ClusterConnConfig{Name: "c19n", Local: plainLocal}
		if kind == "mux-server" {
			cfg.Remote = config.ClusterDefinition{ConnectionType: config.ConnTypeMuxServer, MuxCount: 1,
				MuxAddressInfo: config.TCPTLSInfo{ConnectionString: "127.0.0.1:0", TLSConfig: noCert}}
		} else {
			cfg.Remote = config.ClusterDefinition{ConnectionType: config.ConnTypeTCP,
				TcpClient: config.TCPTLSInfo{ConnectionString: "127.0.0.1:1"}, TcpServer: config.TCPTLSInfo{ConnectionString: "127.0.0.1:0", TLSConfig: noCert}}
		}
		ctx, cancel := context.WithCancel(context.Background())
		cc, err := NewClusterConnection(ctx, cfg, vfNoopLoggers())
		evals++
		if err != nil {
			cancel()
			continue // refused at configuration time
		}
		cc.Start()
		var addr string
		if kind == "mux-server" {
			addr = cc.inboundServer.(mux.MultiMuxManager).Address()
		} else {
			addr = cc.inboundServer.(*simpleGRPCServer).listener.Addr().String()
		}
		for _, peer := range []string{"plaintext", "tls-valid-chain", "tls-no-certificate"} {
			var perr error
			switch {
			case peer == "plaintext" && kind == "mux-server":
				perr = vfMuxPlainPing(addr)
			case peer == "plaintext":
				perr = vfPlainHTTP2(addr)
			default:
				pool := x509.NewCertPool()
				pool.AddCert(ca1.Cert)
				pc := &tls.Config{RootCAs: pool, ServerName: sn, NextProtos: []string{"h2"}}
				if peer == "tls-valid-chain" {
					leaf := valid.TLSCert
					pc.GetClientCertificate = func(*tls.CertificateRequestInfo) (*tls.Certificate, error) { return &leaf, nil }
				}
				if kind == "mux-server" {
					pc.NextProtos = nil
					perr = vfMuxPeerPing(addr, pc)
				} else {
					perr = vfTLSDial(addr, pc)
				}
			}
			evals++
			nontrivial++
			if perr == nil && peer != "tls-valid-chain" {
				res.Violate("tls-wiring/listener-without-own-certificate-admits/"+kind+"/"+peer, fmt.Sprintf("%s listener whose TLS block has verification on (caServerName + remoteCAPath) but no own certificate: a %s peer was served", kind, peer), map[string]any{"kind": kind, "peer": peer})
			}
		}
		cancel()
		time.Sleep(20 * time.Millisecond)
	}
	// listeners whose TLS block is enabled with verification on but cannot be built (CA file missing, a bundle without a CA
	// certificate, an unloadable key pair): the configuration is refused, or the listener admits nobody - least of all a
	// peer that speaks no TLS or presents no certificate
	leafOnlyBundle := filepath.Join(dir, "w-leaf-only-bundle.pem")
	if b, err := os.ReadFile(own.CertPath); err == nil {
		_ = os.WriteFile(leafOnlyBundle, b, 0o600)
	}
	for _, broken := range []struct {
		name string
		tls  encryption.TLSConfig
	}{
		{"ca-file-missing", encryption.TLSConfig{CertificatePath: own.CertPath, KeyPath: own.KeyPath, RemoteCAPath: filepath.Join(dir, "no-such-ca.pem"), CAServerName: sn}},
		{"bundle-without-a-ca-certificate", encryption.TLSConfig{CertificatePath: own.CertPath, KeyPath: own.KeyPath, RemoteCAPath: leafOnlyBundle, CAServerName: sn}},
		{"key-pair-unloadable", encryption.TLSConfig{CertificatePath: own.CertPath, KeyPath: filepath.Join(dir, "no-such-key.pem"), RemoteCAPath: ca1.Path, CAServerName: sn}},
	} {
		for _, kind := range []string{"mux-server", "tcp"} {
			cfg := config.ClusterConnConfig{Name: "c19b", Local: plainLocal}
			if kind == "mux-server" {
				cfg.Remote = config.ClusterDefinition{ConnectionType: config.ConnTypeMuxServer, MuxCount: 1,
					MuxAddressInfo: config.TCPTLSInfo{ConnectionString: "127.0.0.1:0", TLSConfig: broken.tls}}
			} else {
				cfg.Remote = config.ClusterDefinition{ConnectionType: config.ConnTypeTCP,
					TcpClient: config.TCPTLSInfo{ConnectionString: "127.0.0.1:1"}, TcpServer: config.TCPTLSInfo{ConnectionString: "127.0.0.1:0", TLSConfig: broken.tls}}
			}
			ctx, cancel := context.WithCancel(context.Background())
			cc, err := NewClusterConnection(ctx, cfg, vfNoopLoggers())
			evals++
			nontrivial++
			if err != nil {
				cancel()
				continue // refused at configuration time
			}
			cc.Start()
			var addr string
			if kind == "mux-server" {
				addr = cc.inboundServer.(mux.MultiMuxManager).Address()
			} else {
				addr = cc.inboundServer.(*simpleGRPCServer).listener.Addr().String()
			}
			for _, peer := range []string{"plaintext", "tls-no-certificate", "tls-self-signed"} {
				var perr error
				switch {
				case peer == "plaintext" && kind == "mux-server":
					perr = vfMuxPlainPing(addr)
				case peer == "plaintext":
					perr = vfPlainHTTP2(addr)
				default:
					pool := x509.NewCertPool()
					pool.AddCert(ca1.Cert)
					pc := &tls.Config{RootCAs: pool, ServerName: sn, NextProtos: []string{"h2"}}
					if peer == "tls-self-signed" {
						leaf := selfSigned.TLSCert
						pc.GetClientCertificate = func(*tls.CertificateRequestInfo) (*tls.Certificate, error) { return &leaf, nil }
					}
					if kind == "mux-server" {
						pc.NextProtos = nil
						perr = vfMuxPeerPing(addr, pc)
					} else {
						perr = vfTLSDial(addr, pc)
					}
				}
				evals++
				nontrivial++
				if perr == nil {
					res.Violate("tls-wiring/listener-with-unbuildable-tls-block-admits/"+broken.name+"/"+kind+"/"+peer, fmt.Sprintf("%s listener whose TLS block (verification on) cannot be built (%s) came up all the same, and a %s peer was served", kind, broken.name, peer), map[string]any{"kind": kind, "peer": peer, "broken": broken.name})
				}
			}
			cancel()
			time.Sleep(20 * time.Millisecond)
		}
	}
	// the proxy as client towards its peer proxies (intra-proxy connections use the memberlist TLS block): while that
	// block cannot be built no client connection may come into being - not on the first attempt and not on a later one
	for _, broken := range []struct {
		name string
		tls  encryption.TLSConfig
	}{
		{"ca-file-missing", encryption.TLSConfig{RemoteCAPath: filepath.Join(dir, "no-such-ca.pem"), CAServerName: sn}},
		{"key-pair-unloadable", encryption.TLSConfig{CertificatePath: own.CertPath, KeyPath: filepath.Join(dir, "no-such-key.pem"), RemoteCAPath: ca1.Path, CAServerName: sn}},
	} {
		mc := &config.MemberlistConfig{Enabled: true, NodeName: "n1", ProxyAddresses: map[string]string{"n1": "127.0.0.1:1", "n2": "127.0.0.1:2"}}
		sm := NewShardManager(mc, config.ShardCountConfig{Mode: config.ShardCountRouting}, broken.tls, vfNoopLoggers()).(*shardManagerImpl)
		mgr := sm.GetIntraProxyManager()
		for attempt := 1; attempt <= 3; attempt++ {
			ps, err := mgr.ensurePeer(context.Background(), "n2")
			evals++
			nontrivial++
			if err == nil {
				res.Violate("tls-wiring/intra-proxy-client-created-although-tls-block-unbuildable/"+broken.name, fmt.Sprintf("memberlist TLS block with verification on cannot be built (%s); attempt %d to connect to a peer proxy returned a client connection (%v) instead of the configuration error - it is dialled without TLS", broken.name, attempt, ps != nil), map[string]any{"broken": broken.name, "attempt": attempt})
				break
			}
		}
	}
	// mux establisher (establisher.go): muxAddressInfo.tls with CA verification; the remote listener presents a
	// valid / foreign / self-signed certificate; reached = the TLS handshake completes on the listener side and
	// the proxy answers a yamux ping
	for _, listenerCred := range []struct {
		name string
		leaf *vrt.Leaf
		ok   bool
	}{{"valid-chain", valid, true}, {"other-ca", otherCA, false}, {"self-signed", selfSigned, false}} {
		lis, err := net.Listen("tcp", "127.0.0.1:0")
		if err != nil {
			t.Fatal(err)
		}
		cfg := config.ClusterConnConfig{Name: "c19e", Local: plainLocal}
		cfg.Remote = config.ClusterDefinition{ConnectionType: config.ConnTypeMuxClient, MuxCount: 1,
			MuxAddressInfo: config.TCPTLSInfo{ConnectionString: lis.Addr().String(), TLSConfig: encryption.TLSConfig{RemoteCAPath: ca1.Path, CAServerName: sn}}}
		ctx, cancel := context.WithCancel(context.Background())
		cc, err := NewClusterConnection(ctx, cfg, vfNoopLoggers())
		if err != nil {
			cancel()
			_ = lis.Close()
			res.Violate("tls-wiring/cluster-connection-fails", err.Error(), nil)
			continue
		}
		cc.Start()
		reachedErr := func() error {
			_ = lis.(*net.TCPListener).SetDeadline(time.Now().Add(30 * time.Second))
			raw, err := lis.Accept()
			if err != nil {
				return fmt.Errorf("the proxy never dialled: %w", err)
			}
			defer raw.Close()
			_ = raw.SetDeadline(time.Now().Add(20 * time.Second))
			tc := tls.Server(raw, &tls.Config{Certificates: []tls.Certificate{listenerCred.leaf.TLSCert}})
			if err := tc.Handshake(); err != nil {
				return err
			}
			ycfg := yamux.DefaultConfig()
			ycfg.LogOutput = io.Discard
			sess, err := yamux.Server(tc, ycfg)
			if err != nil {
				return err
			}
			defer sess.Close()
			_, err = sess.Ping()
			return err
		}()
		evals++
		if !listenerCred.ok {
			nontrivial++
		}
		if reachedErr == nil && !listenerCred.ok {
			res.Violate("tls-wiring/mux-client-accepts-unauthenticated-server/"+listenerCred.name, fmt.Sprintf("the proxy's mux establisher (muxAddressInfo.tls with CA verification) completed TLS with, and answered a yamux ping from, a listener presenting %s", listenerCred.name), map[string]any{"listener": listenerCred.name})
		}
		if reachedErr != nil && listenerCred.ok {
			res.Violate("tls-wiring/mux-client-refuses-legitimate-server", fmt.Sprintf("the proxy's mux establisher did not connect to a listener with a valid certificate: %v", reachedErr), map[string]any{"listener": listenerCred.name})
		}
		cancel()
		_ = lis.Close()
		time.Sleep(20 * time.Millisecond)
	}
	res.Set("evaluations", evals)
	res.Set("distinct_nontrivial", nontrivial)
	res.Set("rule", "mux: listener built from muxAddressInfo.tls {verification on, skip} x peer {valid chain, self-signed, other CA, none, valid again} judged by a yamux ping over the TLS connection; establisher with muxAddressInfo.tls = CA verification against a TLS listener presenting {valid, other CA, self-signed}. real ClusterConnection (TCP): listeners with tcpServer.tls = verification on while tcpClient.tls = skip (and the reverse) x both servers x peer {valid chain, self-signed, other CA, none}: raw TLS + HTTP/2 preface exchange; outgoing client with tcpClient.tls = CA verification against a TLS fake cluster presenting {valid, other CA, self-signed}; listeners (TCP, mux) whose TLS block with verification on cannot be built (CA file missing, bundle without a CA certificate, unloadable key pair): refused or admit nobody; the intra-proxy client with an unbuildable TLS block: no client connection on any of three attempts; non-trivial = must be refused")
	res.Sample(map[string]any{"variant": "server=verify,client=skip", "server": "inbound", "peer": "none"})
}

// vfMuxPeerPing connects to a mux listener as a remote peer would: TCP, TLS, yamux client, one ping.
func vfMuxPeerPing(addr string, cfg *tls.Config) error {
	d := &net.Dialer{Timeout: 10 * time.Second}
	raw, err := d.Dial("tcp", addr)
	if err != nil {
		return err
	}
	defer raw.Close()
	_ = raw.SetDeadline(time.Now().Add(20 * time.Second))
	c := tls.Client(raw, cfg)
	if err := c.Handshake(); err != nil {
		return err
	}
	ycfg := yamux.DefaultConfig()
	ycfg.LogOutput = io.Discard
	sess, err := yamux.Client(c, ycfg)
	if err != nil {
		return err
	}
	defer sess.Close()
	_, err = sess.Ping()
	return err
}

// vfMuxPlainPing: a peer that does not speak TLS: TCP, yamux client, one ping.
func vfMuxPlainPing(addr string) error {
	d := &net.Dialer{Timeout: 10 * time.Second}
	raw, err := d.Dial("tcp", addr)
	if err != nil {
		return err
	}
	defer raw.Close()
	_ = raw.SetDeadline(time.Now().Add(15 * time.Second))
	ycfg := yamux.DefaultConfig()
	ycfg.LogOutput = io.Discard
	sess, err := yamux.Client(raw, ycfg)
	if err != nil {
		return err
	}
	defer sess.Close()
	_, err = sess.Ping()
	return err
}

// vfPlainHTTP2: a peer that does not speak TLS towards a gRPC listener: HTTP/2 preface, wait for the SETTINGS frame.
func vfPlainHTTP2(addr string) error {
	d := &net.Dialer{Timeout: 5 * time.Second}
	raw, err := d.Dial("tcp", addr)
	if err != nil {
		return err
	}
	defer raw.Close()
	_ = raw.SetDeadline(time.Now().Add(5 * time.Second))
	if _, err := raw.Write([]byte("PRI * HTTP/2.0\r\n\r\nSM\r\n\r\n\x00\x00\x00\x04\x00\x00\x00\x00\x00")); err != nil {
		return err
	}
	buf := make([]byte, 9)
	if _, err := io.ReadFull(raw, buf); err != nil {
		return err
	}
	if buf[3] != 0x04 {
		return fmt.Errorf("not a SETTINGS frame: % x", buf)
	}
	return nil
}

func contains(s, sub string) bool {
	return len(sub) == 0 || (len(s) >= len(sub) && (func() bool {
		for i := 0; i+len(sub) <= len(s); i++ {
			if s[i:i+len(sub)] == sub {
				return true
			}
		}
		return false
	})())
}
