//go:build verif

package proxy

// Wiring-level checks on a real ClusterConnection (loopback TCP) between two generic fake clusters:
//   C13 (c) direction of namespace / search-attribute translation on both servers, (d) rejection of
//       mappings that are not one-to-one at start-up;
//   C14 direction rules for search attributes (same run, admin traffic only);
//   C15 admin method allow-list; C16 namespace allow-list end to end, ListNamespaces filtering.

import (
	"context"
	"fmt"
	templog "go.temporal.io/server/common/log"
	"net/http/httptest"
	"sort"
	"strings"
	"testing"
	"time"

	namespacepb "go.temporal.io/api/namespace/v1"
	"go.temporal.io/api/workflowservice/v1"
	"go.temporal.io/server/api/adminservice/v1"
	"google.golang.org/grpc"
	"google.golang.org/grpc/codes"
	"google.golang.org/grpc/metadata"
	"google.golang.org/grpc/status"
	"google.golang.org/protobuf/proto"
	"google.golang.org/protobuf/reflect/protoreflect"

	"github.com/temporalio/s2s-proxy/common"
	"github.com/temporalio/s2s-proxy/config"
	vrt "github.com/temporalio/s2s-proxy/internal/verifrt"
)

const (
	vfWLocalNS  = "local-ns"
	vfWRemoteNS = "remote-ns"
)

func vfTranslationConfig() config.ClusterConnConfig {
	return config.ClusterConnConfig{
		// (operators list every name, also the ones that stay the same: an identity pair comes first in both lists)
		NamespaceTranslation: config.StringTranslator{Mappings: []config.StringMapping{{Local: "unchanged-ns", Remote: "unchanged-ns"}, {Local: vfWLocalNS, Remote: vfWRemoteNS}}},
		SearchAttributeTranslation: config.SATranslationConfig{NamespaceMappings: []config.SANamespaceMapping{{Name: vfWLocalNS, NamespaceId: "ns-id",
			Mappings: []config.SAMapping{{LocalName: "unchanged-attr", RemoteName: "unchanged-attr"}, {LocalName: "local-attr", RemoteName: "remote-attr"}, {LocalName: "local-attr-2", RemoteName: "remote-attr-2"}}}}},
	}
}

var vfSAL2R = map[string]string{"local-attr": "remote-attr", "local-attr-2": "remote-attr-2"}
var vfSAR2L = map[string]string{"remote-attr": "local-attr", "remote-attr-2": "local-attr-2"}

// vfDirectionRun drives every unary method of both services through both servers of one connection.
// part selects which translation the violations are attributed to: "ns" (C13) or "sa" (C14).
func vfDirectionRun(res *vrt.Result, part string) (evals, nontrivial int64) {
	// both translations configured, and the one under test configured alone (the other translation absent)
	variants := []string{"both"}
	if strings.Contains(part, "ns") {
		variants = append(variants, "ns-only")
	}
	if strings.Contains(part, "sa") {
		variants = append(variants, "sa-only")
	}
	for _, v := range variants {
		e, n := vfDirectionRunCfg(res, part, v)
		evals += e
		nontrivial += n
	}
	return
}

func vfDirectionRunCfg(res *vrt.Result, part, variant string) (evals, nontrivial int64) {
	cfg := vfTranslationConfig()
	nsOn, saOn := true, true
	switch variant {
	case "ns-only":
		cfg.SearchAttributeTranslation = config.SATranslationConfig{}
		saOn = false
	case "sa-only":
		cfg.NamespaceTranslation = config.StringTranslator{}
		nsOn = false
	}
	cl, err := vfStartCluster(cfg)
	if err != nil {
		res.Violate("wiring/cluster-connection-fails", variant+": "+err.Error(), nil)
		return
	}
	defer cl.Close()
	type side struct {
		name           string
		conn           *grpc.ClientConn
		backend        *vfBackend
		callerNS, beNS string
		callerSA, beSA string
		reqNS, respNS  map[string]string
		reqSA, respSA  map[string]string
	}
	sides := []side{
		{"inbound (remote caller -> local cluster)", cl.FromRemote, cl.Local, vfWRemoteNS, vfWLocalNS, "remote", "local",
			map[string]string{vfWRemoteNS: vfWLocalNS}, map[string]string{vfWLocalNS: vfWRemoteNS}, vfSAR2L, vfSAL2R},
		{"outbound (local caller -> remote cluster)", cl.FromLocal, cl.Remote, vfWLocalNS, vfWRemoteNS, "local", "remote",
			map[string]string{vfWLocalNS: vfWRemoteNS}, map[string]string{vfWRemoteNS: vfWLocalNS}, vfSAL2R, vfSAR2L},
	}
	for _, sd := range sides {
		sd := sd
		if !nsOn {
			sd.reqNS, sd.respNS = map[string]string{}, map[string]string{}
		}
		if !saOn {
			sd.reqSA, sd.respSA = map[string]string{}, map[string]string{}
		}
		sd.name = sd.name + " [configured: " + variant + "]"
		sd.backend.Respond = func(method string, req, resp proto.Message) {
			mi := vfMethodTable[method]
			proto.Merge(resp, vrt.PopulateNamesSA(mi.Out.Descriptor(), sd.beNS, sd.beSA))
		}
		for _, mi := range vfAllMethods() {
			if mi.Streaming {
				continue
			}
			admin := mi.Service == "AdminService"
			req := vrt.PopulateNamesSA(mi.In.Descriptor(), sd.callerNS, sd.callerSA)
			wantReq := proto.Clone(req)
			_, _ = vrt.RefTranslateNames(wantReq, sd.reqNS)
			if admin {
				_, _ = vrt.RefTranslateSA(wantReq, sd.reqSA)
			}
			wantResp := vrt.PopulateNamesSA(mi.Out.Descriptor(), sd.beNS, sd.beSA)
			m1, _ := vrt.RefTranslateNames(wantResp, sd.respNS)
			m2 := false
			if admin {
				m2, _ = vrt.RefTranslateSA(wantResp, sd.respSA)
			}
			sd.backend.Reset()
			gotResp, err := vfInvoke(sd.conn, mi, proto.Clone(req), nil)
			evals++
			if m1 || m2 {
				nontrivial++
			}
			replay := map[string]any{"side": sd.name, "method": mi.Full}
			if err != nil {
				// methods the proxy does not forward are outside this clause
				if c := status.Code(err); c == codes.Unimplemented {
					continue
				}
				res.Violate("wiring/call-fails:"+mi.Name, fmt.Sprintf("%s %s: %v", sd.name, mi.Full, err), replay)
				continue
			}
			calls := sd.backend.Recorded()
			if len(calls) != 1 {
				res.Violate("wiring/not-forwarded-once:"+mi.Name, fmt.Sprintf("%s %s: backend saw %d calls", sd.name, mi.Full, len(calls)), replay)
				continue
			}
			gotReq := calls[0].Req
			check := func(kind string, got, want proto.Message) {
				eq, cerr := vrt.CanonEqual(got, want)
				if cerr == nil && eq {
					return
				}
				// attribute to namespace or search-attribute translation: compare with the search-attribute keys blanked
				nsOnlyGot, nsOnlyWant := proto.Clone(got), proto.Clone(want)
				vfBlankSA(nsOnlyGot)
				vfBlankSA(nsOnlyWant)
				nsEq, _ := vrt.CanonEqual(nsOnlyGot, nsOnlyWant)
				if strings.Contains(part, "ns") && !nsEq {
					res.Violate("direction/namespace/"+kind+":"+strings.SplitN(sd.name, " ", 2)[0], fmt.Sprintf("%s %s: the %s differs from the reference (%s names must be mapped %v)\n got:  %.500v\n want: %.500v", sd.name, mi.Full, kind, kind, map[string]any{"request": sd.reqNS, "response": sd.respNS}[kind], got, want), replay)
				}
				if strings.Contains(part, "sa") && nsEq {
					res.Violate("direction/search-attributes/"+kind+":"+strings.SplitN(sd.name, " ", 2)[0], fmt.Sprintf("%s %s: search-attribute keys of the %s: got %v want %v", sd.name, mi.Full, kind, vrt.SAKeys(got), vrt.SAKeys(want)), replay)
				}
			}
			check("request", gotReq, wantReq)
			check("response", gotResp, wantResp)
		}
	}
	return
}

// vfBlankSA removes every search-attribute container content (to separate the two translations).
func vfBlankSA(m proto.Message) {
	_, _ = vrt.Visit(m.ProtoReflect(), true, func(c protoreflect.Message, fd protoreflect.FieldDescriptor) bool {
		if !vrt.IsSAContainer(fd) || !c.Has(fd) {
			return false
		}
		c.Clear(fd)
		return true
	})
}

func TestVerifC13Wiring(t *testing.T) {
	res := vrt.NewResult("C13", "exploration")
	defer func() {
		if err := res.Write(); err != nil {
			t.Fatal(err)
		}
	}()
	evals, nontrivial := vfDirectionRun(res, "ns+sa")
	// (d) rejection of mappings that are not one-to-one
	letters := []string{"a", "b", "c"}
	var pairs [][2]string
	for _, l := range letters {
		for _, r := range letters {
			pairs = append(pairs, [2]string{l, r})
		}
	}
	var lists [][][2]string
	for _, p1 := range pairs {
		lists = append(lists, [][2]string{p1})
		for _, p2 := range pairs {
			lists = append(lists, [][2]string{p1, p2})
			if vrt.Thorough() {
				for _, p3 := range pairs {
					lists = append(lists, [][2]string{p1, p2, p3})
				}
			}
		}
	}
	var rejEvals, rejected int64
	for _, kind := range []string{"namespace", "search-attribute"} {
		for _, l := range lists {
			// classification: conflict = two pairs sharing a local (or a remote) name with different partners;
			// exact duplicates are not asserted either way
			conflict, dup := false, false
			for i := range l {
				for j := i + 1; j < len(l); j++ {
					if l[i] == l[j] {
						dup = true
					} else if l[i][0] == l[j][0] || l[i][1] == l[j][1] {
						conflict = true
					}
				}
			}
			cfg := config.ClusterConnConfig{Name: "rej"}
			for _, p := range l {
				if kind == "namespace" {
					cfg.NamespaceTranslation.Mappings = append(cfg.NamespaceTranslation.Mappings, config.StringMapping{Local: p[0], Remote: p[1]})
				} else {
					if len(cfg.SearchAttributeTranslation.NamespaceMappings) == 0 {
						cfg.SearchAttributeTranslation.NamespaceMappings = []config.SANamespaceMapping{{Name: "n", NamespaceId: "id"}}
					}
					nm := &cfg.SearchAttributeTranslation.NamespaceMappings[0]
					nm.Mappings = append(nm.Mappings, config.SAMapping{LocalName: p[0], RemoteName: p[1]})
				}
			}
			cfg.Local = config.ClusterDefinition{ConnectionType: config.ConnTypeTCP, TcpClient: config.TCPTLSInfo{ConnectionString: "127.0.0.1:1"}, TcpServer: config.TCPTLSInfo{ConnectionString: "127.0.0.1:0"}}
			cfg.Remote = cfg.Local
			ctx, cancel := context.WithCancel(context.Background())
			cc, err := NewClusterConnection(ctx, cfg, vfNoopLoggers())
			if cc != nil {
				if s, ok := cc.inboundServer.(*simpleGRPCServer); ok {
					_ = s.listener.Close()
				}
				if s, ok := cc.outboundServer.(*simpleGRPCServer); ok {
					_ = s.listener.Close()
				}
			}
			cancel()
			rejEvals++
			if err != nil {
				rejected++
			}
			replay := map[string]any{"kind": kind, "mappings": l}
			switch {
			case conflict && err == nil:
				res.Violate("rejection/"+kind+"/conflicting-mapping-accepted", fmt.Sprintf("%s mappings %v share a name with different partners but NewClusterConnection succeeded", kind, l), replay)
			case !conflict && !dup && err != nil:
				res.Violate("rejection/"+kind+"/one-to-one-mapping-rejected", fmt.Sprintf("%s mappings %v are one-to-one but NewClusterConnection failed: %v", kind, l, err), replay)
			}
		}
	}
	res.Set("evaluations", evals+rejEvals)
	res.Set("distinct_nontrivial", nontrivial+rejected)
	res.Set("direction_calls", evals)
	res.Set("rejection_configs", rejEvals)
	res.Set("rejection_configs_rejected", rejected)
	res.Set("rule", "wiring: every unary method of both services through both servers of a real ClusterConnection with a namespace and a search-attribute mapping, fully populated request in the caller's names and fully populated response in the serving cluster's names, compared with the reference translation; rejection: every mapping list of length <= 2 (thorough 3) over {a,b,c}x{a,b,c} for namespaces and for search attributes through NewClusterConnection")
	res.Set("exhaustive", true)
	res.Sample(map[string]any{"side": "inbound", "method": "/temporal.api.workflowservice.v1.WorkflowService/DescribeNamespace"})
}

// C12 (wiring): with a namespace mapping configured on a real ClusterConnection, what leaves the proxy on either server,
// in either direction, holds the mapped names.
func TestVerifC12Wiring(t *testing.T) {
	res := vrt.NewResult("C12", "exploration")
	defer func() {
		if err := res.Write(); err != nil {
			t.Fatal(err)
		}
	}()
	evals, nontrivial := vfDirectionRun(res, "ns")
	res.Set("evaluations", evals)
	res.Set("distinct_nontrivial", nontrivial)
	res.Set("direction_calls", evals)
	res.Set("wiring_rule", "wiring: every unary method of both services, fully populated request and response, through both servers of a real ClusterConnection with a namespace mapping (alone and together with a search-attribute mapping): the backend sees the request, and the caller the response, that the reference translation produces")
	res.Sample(map[string]any{"side": "inbound", "method": "/temporal.api.workflowservice.v1.WorkflowService/DescribeNamespace"})
}

func TestVerifC14Wiring(t *testing.T) {
	res := vrt.NewResult("C14", "exploration")
	defer func() {
		if err := res.Write(); err != nil {
			t.Fatal(err)
		}
	}()
	evals, nontrivial := vfDirectionRun(res, "sa")
	res.Set("evaluations", evals)
	res.Set("distinct_nontrivial", nontrivial)
	res.Set("direction_calls", evals)
	res.Set("rule", "wiring: every unary method of both services through both servers of a real ClusterConnection with a search-attribute mapping (admin traffic must be renamed in the right direction, workflow-service traffic left alone)")
	res.Sample(map[string]any{"side": "inbound", "method": "/temporal.server.api.adminservice.v1.AdminService/GetWorkflowExecutionRawHistoryV2"})
}

// ---------------------------------------------------------------------------------------------
// C15

func vfAdminMethodNames() []string {
	var out []string
	for _, mi := range vfAllMethods() {
		if mi.Service == "AdminService" {
			out = append(out, mi.Name)
		}
	}
	sort.Strings(out)
	return out
}

func TestVerifC15(t *testing.T) {
	res := vrt.NewResult("C15", "exploration")
	defer func() {
		if err := res.Write(); err != nil {
			t.Fatal(err)
		}
	}()
	admin := vfAdminMethodNames()
	type family struct {
		name string
		list []string
	}
	var fams []family
	fams = append(fams, family{"empty(=unrestricted)", nil}, family{"full", admin}, family{"only-nonexistent", []string{"NoSuchMethod", "describecluster"}})
	sel := admin
	if !vrt.Thorough() {
		sel = nil
		for i, m := range admin {
			if i%8 == 0 || m == "StreamWorkflowReplicationMessages" || m == "DescribeCluster" || m == "AddOrUpdateRemoteCluster" {
				sel = append(sel, m)
			}
		}
	}
	for _, m := range sel {
		fams = append(fams, family{"singleton:" + m, []string{m}})
		var comp []string
		for _, x := range admin {
			if x != m {
				comp = append(comp, x)
			}
		}
		fams = append(fams, family{"complement:" + m, comp})
	}
	transports := []string{"tcp", "mux-server", "mux-client"}
	if p := vrt.ReplayPath(); p != "" {
		var rp struct{ Family, Transport string }
		_ = vfReadJSON(p, &rp)
		var keep []family
		for _, f := range fams {
			if f.name == rp.Family {
				keep = append(keep, f)
			}
		}
		fams = keep
		if rp.Transport != "" {
			transports = []string{rp.Transport}
		}
	}
	var evals, nontrivial int64
	perTransport := map[string]int64{}
	bypass := metadata.Pairs(common.RequestTranslationHeaderName, "false")
	// every header the proxy gives a meaning to is ordinary metadata the remote caller controls
	intra := metadata.Pairs(common.IntraProxyHeaderKey, common.IntraProxyHeaderValue, common.IntraProxyOriginProxyIDHeader, "peer-proxy", common.IntraProxyHopCountHeader, "1")
	headerVariants := []struct {
		name string
		md   metadata.MD
	}{{"no header", nil}, {"s2s-request-translation=false", bypass}, {"x-s2s-intra-proxy=1", intra}, {"s2s-request-translation=false + x-s2s-intra-proxy=1", metadata.Join(bypass, intra)}}
	// the policy's second list (allowed namespaces) must not change any method verdict: every family is run with and
	// without it; with it, requests name the allowed namespace wherever they have a namespace field
	// ... and neither must the other features of the connection: every family is also run with a namespace translation
	// configured (the translation step sits in front of the ACL in the interceptor chain, and has a bypass header)
	type policyShape struct {
		nsList      []string
		translation bool
	}
	shapes := []policyShape{{nil, false}, {[]string{"allowed-ns"}, false}, {nil, true}}
	for _, transport := range transports {
		for _, f := range fams {
			for _, shape := range shapes {
				nsList := shape.nsList
				if transport != "tcp" && !vrt.Thorough() && vrt.ReplayPath() == "" {
					// quick: the mux transports get the base families and the singleton / complement lists of two methods
					if nsList != nil || shape.translation || strings.Contains(f.name, ":") && !strings.HasSuffix(f.name, ":DescribeCluster") && !strings.HasSuffix(f.name, ":StreamWorkflowReplicationMessages") {
						continue
					}
				}
				cfg := config.ClusterConnConfig{ACLPolicy: &config.ACLPolicy{AllowedMethods: config.AllowedMethods{AdminService: f.list}, AllowedNamespaces: nsList}}
				if shape.translation {
					cfg.NamespaceTranslation = config.StringTranslator{Mappings: []config.StringMapping{{Local: "some-local-ns", Remote: "some-remote-ns"}}}
				}
				cl, err := vfStartClusterOn(cfg, transport)
				if err != nil {
					res.Violate("acl/cluster-connection-fails", transport+": "+err.Error(), map[string]any{"family": f.name, "transport": transport})
					continue
				}
				// the operational endpoints of the process are in use while the policy is enforced: the debug page
				// (/debug/connections) has been requested once before the calls are made - it may not change any verdict
				if cl.CC != nil {
					pr := &Proxy{clusterConnections: map[migrationId]*ClusterConnection{{"c15"}: cl.CC}}
					rec := httptest.NewRecorder()
					HandleDebugInfo(rec, httptest.NewRequest("GET", "/debug/connections", nil), pr, templog.NewNoopLogger())
				}
				allowed := map[string]bool{}
				for _, m := range f.list {
					allowed[m] = true
				}
				for _, mi := range vfAllMethods() {
					for _, hv := range headerVariants {
						md, hdr := hv.md, hv.name
						replay := map[string]any{"family": f.name, "method": mi.Full, "header": hdr, "transport": transport}
						hdr = transport + ", " + hdr
						var req proto.Message
						if shape.translation {
							hdr += ", namespace translation configured"
						}
						if nsList != nil {
							hdr += ", allowedNamespaces=[allowed-ns]"
							req = mi.In.New().Interface()
							if fd := req.ProtoReflect().Descriptor().Fields().ByName("namespace"); fd != nil && fd.Kind() == protoreflect.StringKind && !fd.IsList() {
								req.ProtoReflect().Set(fd, protoreflect.ValueOfString("allowed-ns"))
								hdr += ", request names it"
							}
						}
						// remote side -> inbound server (policy applies)
						cl.Local.Reset()
						var err error
						if mi.Streaming {
							smd := metadata.Join(md, metadata.Pairs("temporal-client-cluster-id", "2", "temporal-client-shard-id", "1", "temporal-server-cluster-id", "1", "temporal-server-shard-id", "1"))
							err = vfOpenStream(cl.FromRemote, mi, smd, func() bool { return len(cl.Local.Recorded()) > 0 })
						} else {
							_, err = vfInvoke(cl.FromRemote, mi, req, md)
						}
						evals++
						perTransport[transport]++
						n := 0
						for _, c := range cl.Local.Recorded() {
							if c.Method == mi.Full {
								n++
							}
						}
						code := status.Code(err)
						switch {
						case mi.Service == "AdminService" && len(f.list) > 0 && !allowed[mi.Name]:
							nontrivial++
							if code != codes.PermissionDenied {
								res.Violate("acl/admin-method-not-refused", fmt.Sprintf("allow-list %s, %s, %s: status %v (%v), want PermissionDenied", f.name, mi.Full, hdr, code, err), replay)
							}
							if n != 0 {
								res.Violate("acl/refused-admin-call-reached-local-cluster", fmt.Sprintf("allow-list %s, %s, %s: the local cluster saw %d call(s)", f.name, mi.Full, hdr, n), replay)
							}
						case mi.Service == "AdminService" && nsList != nil:
							// the namespace verdict on an allowed method is C16's subject
						case mi.Service == "AdminService":
							if code == codes.PermissionDenied {
								res.Violate("acl/allowed-admin-method-refused", fmt.Sprintf("allow-list %s, %s, %s: %v", f.name, mi.Full, hdr, err), replay)
							} else if n != 1 {
								res.Violate("acl/allowed-admin-call-not-forwarded-once", fmt.Sprintf("allow-list %s, %s, %s: the local cluster saw %d call(s), status %v", f.name, mi.Full, hdr, n, err), replay)
							}
						case mi.Name == "RegisterNamespace" || mi.Name == "DeprecateNamespace":
							nontrivial++
							if code != codes.PermissionDenied || n != 0 {
								res.Violate("acl/namespace-lifecycle-call-not-refused", fmt.Sprintf("allow-list %s, %s, %s: status %v, local cluster saw %d call(s)", f.name, mi.Full, hdr, code, n), replay)
							}
						}
					}
				}
				// local side -> outbound server: no policy there, admin calls are forwarded
				for _, mi := range vfAllMethods() {
					if mi.Service != "AdminService" || mi.Streaming || nsList != nil {
						continue
					}
					cl.Remote.Reset()
					_, err := vfInvoke(cl.FromLocal, mi, nil, nil)
					evals++
					if status.Code(err) == codes.PermissionDenied {
						res.Violate("acl/outbound-server-refuses", fmt.Sprintf("%s, allow-list %s: %s through the outbound (local-facing) server: %v", transport, f.name, mi.Full, err), map[string]any{"family": f.name, "method": mi.Full, "transport": transport})
					}
				}
				cl.Close()
			}
		}
	}
	res.Set("evaluations_per_transport", perTransport)
	res.Set("evaluations", evals)
	res.Set("distinct_nontrivial", nontrivial)
	res.Set("allow_list_families", int64(len(fams)))
	res.Set("rule", "real ClusterConnection (remote side on TCP, mux-server and mux-client transports over loopback; for the mux transports the harness owns the peer end of the yamux session) with an ACL policy: allow-list families {empty, full, non-existent names only, singleton and complement-of-singleton for the selected admin methods (all of them in thorough)} x every method of AdminService and WorkflowService (streaming method opened as a stream) x {no header, s2s-request-translation=false, x-s2s-intra-proxy=1, both} x {policy without / with an allowedNamespaces list (requests then name the allowed namespace where they have the field), connection with a namespace translation configured; quick: TCP only}; plus every unary admin method through the outbound server; the debug page has been rendered once before the calls of every configuration; non-trivial = cases that must be refused")
	res.Set("exhaustive", true)
	res.Set("transports", "tcp, mux-server, mux-client (quick: the mux transports get the base families and the singleton/complement lists of DescribeCluster and StreamWorkflowReplicationMessages; thorough: every family on every transport)")
	res.Sample(map[string]any{"family": fams[len(fams)-1].name, "method": "/temporal.server.api.adminservice.v1.AdminService/DescribeCluster"})
	_ = time.Second
}

// ---------------------------------------------------------------------------------------------
// C16 (wiring): order translation -> ACL end to end, bypass header, ListNamespaces filtering

func TestVerifC16Wiring(t *testing.T) {
	res := vrt.NewResult("C16", "exploration")
	defer func() {
		if err := res.Write(); err != nil {
			t.Fatal(err)
		}
	}()
	var evals, nontrivial int64
	bypass := metadata.Pairs(common.RequestTranslationHeaderName, "false")
	// remote name "remote-ok" -> local "allowed-ns"; "remote-bad" -> local "forbidden-ns"; allow-list is in local names
	cfg := config.ClusterConnConfig{
		ACLPolicy:            &config.ACLPolicy{AllowedNamespaces: []string{"allowed-ns", "plain-allowed"}},
		NamespaceTranslation: config.StringTranslator{Mappings: []config.StringMapping{{Local: "allowed-ns", Remote: "remote-ok"}, {Local: "forbidden-ns", Remote: "remote-bad"}}},
	}
	cl, err := vfStartCluster(cfg)
	if err != nil {
		res.Violate("nsacl/cluster-connection-fails", err.Error(), nil)
		return
	}
	cases := []struct {
		name    string
		allowed bool
	}{{"remote-ok", true}, {"remote-bad", false}, {"plain-allowed", true}, {"forbidden-ns", false}, {"allowed-ns", true}, {"unknown-ns", false}, {"", true}}
	for _, mi := range vfAllMethods() {
		if mi.Streaming || mi.Name == "RegisterNamespace" || mi.Name == "DeprecateNamespace" {
			continue
		}
		paths := vrt.EnumeratePaths(mi.In.Descriptor(), vrt.IsNamespaceNameField, vrt.WalkOptions{MaxPerType: 1, ThroughBlobs: true})
		if len(paths) == 0 {
			continue
		}
		for _, c := range cases {
			for _, md := range []metadata.MD{nil, bypass} {
				hdr := md != nil
				req := vrt.PopulateNames(mi.In.Descriptor(), c.name)
				cl.Local.Reset()
				_, err := vfInvoke(cl.FromRemote, mi, req, md)
				evals++
				n := len(cl.Local.Recorded())
				// with the bypass header translation is off: the name is checked as written
				allowed := c.allowed
				if hdr {
					allowed = c.name == "" || c.name == "allowed-ns" || c.name == "plain-allowed"
				}
				replay := map[string]any{"method": mi.Full, "name": c.name, "bypass_header": hdr}
				if status.Code(err) == codes.Unimplemented {
					continue
				}
				if c.name == "" {
					// an empty field names no namespace: the statement asserts nothing (the code refuses some of these)
					continue
				}
				if !allowed {
					nontrivial++
					if status.Code(err) != codes.PermissionDenied || n != 0 {
						res.Violate("nsacl/forbidden-namespace-not-refused", fmt.Sprintf("%s with every namespace field = %q (bypass header %v): status %v, local cluster saw %d call(s)", mi.Full, c.name, hdr, status.Code(err), n), replay)
					}
				} else if status.Code(err) == codes.PermissionDenied {
					res.Violate("nsacl/allowed-namespace-refused", fmt.Sprintf("%s with every namespace field = %q (bypass header %v): %v", mi.Full, c.name, hdr, err), replay)
				} else if n != 1 {
					res.Violate("nsacl/allowed-call-not-forwarded-once", fmt.Sprintf("%s with namespace %q: local cluster saw %d calls (%v)", mi.Full, c.name, n, err), replay)
				}
			}
		}
	}
	// ListNamespaces: every subset of a 3-namespace response
	names := []string{"forbidden-ns", "allowed-ns", "unknown-ns", "other-forbidden", "plain-allowed", "last-forbidden"}
	for mask := 0; mask < 1<<len(names); mask++ {
		var in []string
		for i, n := range names {
			if mask&(1<<i) != 0 {
				in = append(in, n)
			}
		}
		cl.Local.Respond = func(method string, req, resp proto.Message) {
			if r, ok := resp.(*workflowservice.ListNamespacesResponse); ok {
				for _, n := range in {
					r.Namespaces = append(r.Namespaces, &workflowservice.DescribeNamespaceResponse{NamespaceInfo: &namespacepb.NamespaceInfo{Name: n, Id: "id-" + n}})
				}
			}
		}
		resp, err := workflowservice.NewWorkflowServiceClient(cl.FromRemote).ListNamespaces(context.Background(), &workflowservice.ListNamespacesRequest{})
		evals++
		nontrivial++
		var got, want []string
		for _, n := range resp.GetNamespaces() {
			got = append(got, n.GetNamespaceInfo().GetName())
		}
		for _, n := range in {
			switch n {
			case "allowed-ns":
				want = append(want, "remote-ok") // allowed, and translated back for the remote caller
			case "plain-allowed":
				want = append(want, n)
			}
		}
		if err != nil || fmt.Sprint(got) != fmt.Sprint(want) {
			res.Violate("nsacl/list-namespaces-filter", fmt.Sprintf("local cluster lists %v: remote caller got %v (err %v), want %v", in, got, err, want), map[string]any{"listed": in})
		}
	}
	cl.Local.Respond = nil
	cl.Close()
	res.Set("evaluations", evals)
	res.Set("distinct_nontrivial", nontrivial)
	res.Set("rule", "real ClusterConnection with namespace allow-list (local names) and a namespace mapping: every unary method that has a namespace path, fully populated request with every namespace field = one of {remote name mapping to an allowed local name, remote name mapping to a forbidden one, allowed, forbidden, unknown, empty} x bypass header on/off; ListNamespaces with every subset (order kept) of six namespaces of which four are forbidden, so that runs of adjacent forbidden entries occur; non-trivial = must be refused / filtered")
	res.Set("exhaustive", true)
	res.Sample(map[string]any{"method": "/temporal.api.workflowservice.v1.WorkflowService/StartWorkflowExecution", "name": "remote-bad"})
	_ = adminservice.AdminService_ServiceDesc
}
