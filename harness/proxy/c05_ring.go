//go:build verif

package proxy

import (
	"crypto/sha1"
	"encoding/json"
	"fmt"
	"os"
	"strings"
	"sync"
	"sync/atomic"
	"testing"
	"time"

	"go.temporal.io/server/client/history"

	vrt "github.com/temporalio/s2s-proxy/internal/verifrt"
)

// C05: explicit-state BFS over the real proxyIDRingBuffer against a plain slice model.

type vfRingEntry struct {
	ID    int64
	Shard int // 0 = hole, 1 = A, 2 = B
	Task  int64
}

type vfRingOp struct {
	Kind  string `json:"op"` // new, append, discard, aggdiscard
	Cap   int    `json:"cap,omitempty"`
	ID    int64  `json:"id,omitempty"`
	Shard int    `json:"shard,omitempty"`
	Task  int64  `json:"task,omitempty"`
	N     int    `json:"n,omitempty"`
	W     int64  `json:"w,omitempty"`
}

var vfRingShards = []history.ClusterShardID{{}, {ClusterID: 1, ShardID: 1}, {ClusterID: 1, ShardID: 2}}

type vfRingNode struct {
	ring  *proxyIDRingBuffer
	model []vfRingEntry
	last  int64 // last appended proxy id (0 = none yet)
	path  []vfRingOp
}

func vfRingClone(b *proxyIDRingBuffer) *proxyIDRingBuffer {
	c := *b
	c.entries = append([]proxyIDMapping(nil), b.entries...)
	return &c
}

func vfRingKey(n *vfRingNode) string {
	b := n.ring
	var sb strings.Builder
	fmt.Fprintf(&sb, "%d|%d|%d|%d|%d|", len(b.entries), b.head, b.size, b.startProxyID, n.last)
	for i := 0; i < b.size; i++ {
		e := b.entries[(b.head+i)%len(b.entries)]
		fmt.Fprintf(&sb, "%d.%d.%d,", e.sourceShard.ClusterID, e.sourceShard.ShardID, e.sourceTask)
	}
	return sb.String()
}

// vfRingApply applies op to the real ring and to the model; returns an oracle error text or "".
func vfRingApply(n *vfRingNode, op vfRingOp) (msg string) {
	defer func() {
		if p := recover(); p != nil {
			msg = fmt.Sprintf("panic: %v", p)
		}
	}()
	switch op.Kind {
	case "append":
		n.ring.Append(op.ID, vfRingShards[op.Shard], op.Task)
		if len(n.model) > 0 {
			for id := n.model[len(n.model)-1].ID + 1; id < op.ID; id++ {
				n.model = append(n.model, vfRingEntry{ID: id})
			}
		}
		n.model = append(n.model, vfRingEntry{ID: op.ID, Shard: op.Shard, Task: op.Task})
		n.last = op.ID
	case "discard":
		n.ring.Discard(op.N)
		k := op.N
		if k < 0 {
			k = 0
		}
		if k > len(n.model) {
			k = len(n.model)
		}
		n.model = append([]vfRingEntry(nil), n.model[k:]...)
	case "aggdiscard":
		got, cnt := n.ring.AggregateUpTo(op.W)
		if m := vfRingCheckAgg(n.model, op.W, got, cnt); m != "" {
			return m
		}
		n.ring.Discard(cnt)
		k := 0
		for _, e := range n.model {
			if e.ID <= op.W {
				k++
			}
		}
		n.model = append([]vfRingEntry(nil), n.model[k:]...)
	}
	return vfRingCheckState(n)
}

// vfRingApplyRaw applies op to the ring and the model without evaluating the oracles (used to rebuild a state
// that was already checked when it was first reached).
func vfRingApplyRaw(n *vfRingNode, op vfRingOp) {
	defer func() { _ = recover() }()
	switch op.Kind {
	case "append":
		n.ring.Append(op.ID, vfRingShards[op.Shard], op.Task)
		if len(n.model) > 0 {
			for id := n.model[len(n.model)-1].ID + 1; id < op.ID; id++ {
				n.model = append(n.model, vfRingEntry{ID: id})
			}
		}
		n.model = append(n.model, vfRingEntry{ID: op.ID, Shard: op.Shard, Task: op.Task})
		n.last = op.ID
	case "discard":
		n.ring.Discard(op.N)
		k := op.N
		if k < 0 {
			k = 0
		}
		if k > len(n.model) {
			k = len(n.model)
		}
		n.model = append([]vfRingEntry(nil), n.model[k:]...)
	case "aggdiscard":
		_, cnt := n.ring.AggregateUpTo(op.W)
		n.ring.Discard(cnt)
		k := 0
		for _, e := range n.model {
			if e.ID <= op.W {
				k++
			}
		}
		n.model = append([]vfRingEntry(nil), n.model[k:]...)
	}
}

func vfRingCheckAgg(model []vfRingEntry, w int64, got map[history.ClusterShardID]int64, cnt int) string {
	want := map[history.ClusterShardID]int64{}
	wantCnt := 0
	for _, e := range model {
		if e.ID > w {
			continue
		}
		wantCnt++
		if e.Shard == 0 {
			continue
		}
		sh := vfRingShards[e.Shard]
		if cur, ok := want[sh]; !ok || e.Task > cur {
			want[sh] = e.Task
		}
	}
	if cnt != wantCnt {
		return fmt.Sprintf("aggregate(%d): count=%d want %d", w, cnt, wantCnt)
	}
	if len(got) != len(want) {
		return fmt.Sprintf("aggregate(%d): got %v want %v", w, got, want)
	}
	for k, v := range want {
		if gv, ok := got[k]; !ok || gv != v {
			return fmt.Sprintf("aggregate(%d): got %v want %v", w, got, want)
		}
	}
	return ""
}

func vfRingCheckState(n *vfRingNode) string {
	b := n.ring
	if b.size != len(n.model) {
		return fmt.Sprintf("size=%d model has %d entries", b.size, len(n.model))
	}
	if b.size > len(b.entries) || b.size < 0 {
		return fmt.Sprintf("size=%d exceeds capacity %d", b.size, len(b.entries))
	}
	if b.size > 0 && (b.head < 0 || b.head >= len(b.entries)) {
		return fmt.Sprintf("head=%d outside capacity %d", b.head, len(b.entries))
	}
	if len(n.model) > 0 && b.startProxyID != n.model[0].ID {
		return fmt.Sprintf("startProxyID=%d model first id %d", b.startProxyID, n.model[0].ID)
	}
	for i, e := range n.model {
		m := b.entries[(b.head+i)%len(b.entries)]
		if m.sourceShard != vfRingShards[e.Shard] || m.sourceTask != e.Task {
			return fmt.Sprintf("entry %d (proxy id %d) = %v/%d, model %v/%d", i, e.ID, m.sourceShard, m.sourceTask, vfRingShards[e.Shard], e.Task)
		}
	}
	// every watermark below, inside and above the stored range
	lo, hi := b.startProxyID-2, b.startProxyID+int64(b.size)+1
	if len(n.model) > 0 {
		lo, hi = n.model[0].ID-2, n.model[len(n.model)-1].ID+2
	}
	for w := lo; w <= hi; w++ {
		got, cnt := b.AggregateUpTo(w)
		if m := vfRingCheckAgg(n.model, w, got, cnt); m != "" {
			return m
		}
	}
	return ""
}

func vfRingSuccessors(n *vfRingNode, gaps []int64, tasks []int64) []vfRingOp {
	var ops []vfRingOp
	for _, g := range gaps {
		for sh := 1; sh <= 2; sh++ {
			for _, t := range tasks {
				ops = append(ops, vfRingOp{Kind: "append", ID: n.last + g, Shard: sh, Task: t})
			}
		}
	}
	for k := -1; k <= len(n.model)+1; k++ {
		ops = append(ops, vfRingOp{Kind: "discard", N: k})
	}
	lo, hi := n.ring.startProxyID-2, n.ring.startProxyID+int64(len(n.model))+1
	for w := lo; w <= hi; w++ {
		ops = append(ops, vfRingOp{Kind: "aggdiscard", W: w})
	}
	return ops
}

func vfRingReplay(path []vfRingOp) (string, int) {
	var n *vfRingNode
	for i, op := range path {
		if op.Kind == "new" {
			n = &vfRingNode{ring: newProxyIDRingBuffer(op.Cap)}
			if m := vfRingCheckState(n); m != "" {
				return m, i
			}
			continue
		}
		if n == nil {
			return "replay does not start with new", i
		}
		if m := vfRingApply(n, op); m != "" {
			return m, i
		}
	}
	return "", -1
}

func TestVerifC05(t *testing.T) {
	res := vrt.NewResult("C05", "model_checking")
	defer func() {
		if err := res.Write(); err != nil {
			t.Fatal(err)
		}
	}()
	if p := vrt.ReplayPath(); p != "" {
		var rp struct {
			Path []vfRingOp `json:"path"`
		}
		raw, err := os.ReadFile(p)
		if err != nil {
			t.Fatal(err)
		}
		if err := json.Unmarshal(raw, &rp); err != nil {
			t.Fatal(err)
		}
		if m, i := vfRingReplay(rp.Path); m != "" {
			res.Violate("ring-model-mismatch", fmt.Sprintf("step %d: %s", i, m), rp)
			t.Logf("replay reproduces: step %d: %s", i, m)
		}
		return
	}

	tasks, caps := []int64{1, 2, 3}, []int{-1, 0, 1, 2, 3, 4}
	type vfRingCfg struct {
		depth int
		gaps  []int64
	}
	cfgs := []vfRingCfg{{5, []int64{1, 2}}}
	maxStates := 4_000_000
	if vrt.Thorough() {
		// each configuration is completed before the next one starts
		cfgs = []vfRingCfg{{6, []int64{1, 2}}, {5, []int64{1, 2, 3}}, {8, []int64{1}}}
		maxStates = 12_000_000
	}
	if d := os.Getenv("VERIF_C05_DEPTH"); d != "" {
		fmt.Sscan(d, &cfgs[0].depth)
	}
	deadline := vrt.Deadline()
	var transitions, aggChecks, growths, wraps, holes, nSeenTotal int64
	exhaustive := true
	capHit := false
	var outMu sync.Mutex
	outcomes := map[string]bool{}
	var cfgSummary []string
	var frontier [][]vfRingOp
	var rebuild func(path []vfRingOp) *vfRingNode
	for _, cfg := range cfgs {
		depth, gaps := cfg.depth, cfg.gaps
		completed := 0
		// memory-lean BFS: a state is kept as the operation path that reaches it (rebuilt by replay when it is expanded),
		// the visited set holds 16-byte digests of the canonical key, sharded over 64 locks; levels are expanded in parallel
		type digest [16]byte
		const nShards = 64
		var seenMu [nShards]sync.Mutex
		var seen [nShards]map[digest]struct{}
		for i := range seen {
			seen[i] = map[digest]struct{}{}
		}
		var nSeen int64
		markSeen := func(k string) bool {
			h := sha1.Sum([]byte(k))
			var d digest
			copy(d[:], h[:16])
			sh := int(d[0]) % nShards
			seenMu[sh].Lock()
			_, dup := seen[sh][d]
			if !dup {
				seen[sh][d] = struct{}{}
			}
			seenMu[sh].Unlock()
			if !dup {
				atomic.AddInt64(&nSeen, 1)
			}
			return !dup
		}
		rebuild = func(path []vfRingOp) *vfRingNode {
			n := &vfRingNode{ring: newProxyIDRingBuffer(path[0].Cap)}
			for _, op := range path[1:] {
				vfRingApplyRaw(n, op)
			}
			return n
		}
		frontier = nil
		for _, c := range caps {
			n := &vfRingNode{ring: newProxyIDRingBuffer(c), path: []vfRingOp{{Kind: "new", Cap: c}}}
			if m := vfRingCheckState(n); m != "" {
				res.Violate("ring-model-mismatch", m, map[string]any{"path": n.path})
			}
			if markSeen(vfRingKey(n)) {
				frontier = append(frontier, n.path)
			}
		}
		for d := 1; d <= depth && len(frontier) > 0; d++ {
			workers := vrt.Workers()
			nexts := make([][][]vfRingOp, workers)
			var wg sync.WaitGroup
			var stop int32
			for w := 0; w < workers; w++ {
				wg.Add(1)
				go func(w int) {
					defer wg.Done()
					for i := w; i < len(frontier); i += workers {
						if atomic.LoadInt32(&stop) != 0 {
							return
						}
						if i%1024 == w && (time.Now().After(deadline) || atomic.LoadInt64(&nSeen) > int64(maxStates)) {
							atomic.StoreInt32(&stop, 1)
							return
						}
						path := frontier[i]
						n := rebuild(path)
						for _, op := range vfRingSuccessors(n, gaps, tasks) {
							c := &vfRingNode{ring: vfRingClone(n.ring), model: append([]vfRingEntry(nil), n.model...), last: n.last}
							capBefore := len(c.ring.entries)
							msg := vfRingApply(c, op)
							atomic.AddInt64(&transitions, 1)
							atomic.AddInt64(&aggChecks, int64(len(c.model)+4))
							cpath := append(append(make([]vfRingOp, 0, len(path)+1), path...), op)
							if msg != "" {
								res.Violate("ring-model-mismatch", fmt.Sprintf("after %d ops: %s", len(cpath)-1, msg), map[string]any{"path": cpath})
								continue
							}
							if !markSeen(vfRingKey(c)) {
								continue
							}
							if len(c.ring.entries) > capBefore {
								atomic.AddInt64(&growths, 1)
							}
							if c.ring.size > 0 && c.ring.head+c.ring.size > len(c.ring.entries) {
								atomic.AddInt64(&wraps, 1)
							}
							for _, e := range c.model {
								if e.Shard == 0 {
									atomic.AddInt64(&holes, 1)
									break
								}
							}
							got, _ := c.ring.AggregateUpTo(c.last)
							outMu.Lock()
							if len(outcomes) < 100000 {
								outcomes[fmt.Sprint(got)] = true
							}
							outMu.Unlock()
							nexts[w] = append(nexts[w], cpath)
						}
					}
				}(w)
			}
			wg.Wait()
			if stop != 0 {
				exhaustive = false
				capHit = atomic.LoadInt64(&nSeen) > int64(maxStates)
				break
			}
			completed = d
			frontier = frontier[:0]
			for _, nx := range nexts {
				frontier = append(frontier, nx...)
			}
			if res.NumViolations() > 0 {
				break
			}
		}
		nSeenTotal += atomic.LoadInt64(&nSeen)
		cfgSummary = append(cfgSummary, fmt.Sprintf("gaps %v: depth %d of %d completed, %d states", gaps, completed, depth, atomic.LoadInt64(&nSeen)))
		if completed != depth {
			exhaustive = false
		}
		if res.NumViolations() > 0 || time.Now().After(deadline) {
			break
		}
	}
	res.Set("configurations", cfgSummary)
	res.Set("state_cap", int64(maxStates))
	res.Set("state_cap_hit", capHit)
	// samples: the deepest few states reached
	for i := 0; i < len(frontier) && i < 3; i++ {
		n := rebuild(frontier[len(frontier)-1-i])
		res.Sample(map[string]any{"path": frontier[len(frontier)-1-i], "ring_in_order": n.model})
	}
	if len(frontier) == 0 {
		res.Sample(map[string]any{"note": "frontier empty"})
	}
	res.Set("states", nSeenTotal)
	res.Set("transitions", transitions)
	res.Set("traces_validated_against_impl", transitions)
	res.Set("aggregate_queries_checked", aggChecks)
	res.Set("depth_bound", int64(cfgs[0].depth))
	res.Set("states_after_growth", growths)
	res.Set("states_wrapped_around", wraps)
	res.Set("states_with_holes", holes)
	res.Set("distinct_outcomes", int64(len(outcomes)))
	res.Set("exhaustive", exhaustive)
	res.Set("alphabet", fmt.Sprintf("capacities %v; append(last+gap, shard A|B, task %v) with the gaps of each configuration (see configurations); discard(-1..size+1); aggregate(w)+discard(count) for w in start-2..start+size+1; every state additionally queried with aggregate(w) for every w in first-2..last+2", caps, tasks))
	res.Set("explanation", "every transition is executed on the real proxyIDRingBuffer (cloned through private fields) and compared with a slice model; there is no separate model whose traces need replaying, so traces_validated_against_impl equals transitions")
	res.Assume("proxy ids appended to one ring are strictly increasing (documented precondition of Append; nextProxyTaskID++ under the sender lock)")
	if res.NumViolations() > 0 {
		t.Logf("violations: %d", res.NumViolations())
	}
}
