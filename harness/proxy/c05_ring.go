//go:build verif

package proxy

import (
	"encoding/json"
	"fmt"
	"os"
	"sort"
	"strings"
	"testing"
	"time"

	"go.temporal.io/server/client/history"

	vrt "github.com/temporalio/s2s-proxy/internal/verifrt"
)

// C05: explicit-state BFS over the real proxyIDRingBuffer against a plain slice model.

type vfRingEntry struct {
	ID    int64
	Shard int // 0 = hole, 1 = A, 2 = B
	Task  int64
}

type vfRingOp struct {
	Kind  string `json:"op"` // new, append, discard, aggdiscard
	Cap   int    `json:"cap,omitempty"`
	ID    int64  `json:"id,omitempty"`
	Shard int    `json:"shard,omitempty"`
	Task  int64  `json:"task,omitempty"`
	N     int    `json:"n,omitempty"`
	W     int64  `json:"w,omitempty"`
}

var vfRingShards = []history.ClusterShardID{{}, {ClusterID: 1, ShardID: 1}, {ClusterID: 1, ShardID: 2}}

type vfRingNode struct {
	ring  *proxyIDRingBuffer
	model []vfRingEntry
	last  int64 // last appended proxy id (0 = none yet)
	path  []vfRingOp
}

func vfRingClone(b *proxyIDRingBuffer) *proxyIDRingBuffer {
	c := *b
	c.entries = append([]proxyIDMapping(nil), b.entries...)
	return &c
}

func vfRingKey(n *vfRingNode) string {
	b := n.ring
	var sb strings.Builder
	fmt.Fprintf(&sb, "%d|%d|%d|%d|%d|", len(b.entries), b.head, b.size, b.startProxyID, n.last)
	for i := 0; i < b.size; i++ {
		e := b.entries[(b.head+i)%len(b.entries)]
		fmt.Fprintf(&sb, "%d.%d.%d,", e.sourceShard.ClusterID, e.sourceShard.ShardID, e.sourceTask)
	}
	return sb.String()
}

// vfRingApply applies op to the real ring and to the model; returns an oracle error text or "".
func vfRingApply(n *vfRingNode, op vfRingOp) (msg string) {
	defer func() {
		if p := recover(); p != nil {
			msg = fmt.Sprintf("panic: %v", p)
		}
	}()
	switch op.Kind {
	case "append":
		n.ring.Append(op.ID, vfRingShards[op.Shard], op.Task)
		if len(n.model) > 0 {
			for id := n.model[len(n.model)-1].ID + 1; id < op.ID; id++ {
				n.model = append(n.model, vfRingEntry{ID: id})
			}
		}
		n.model = append(n.model, vfRingEntry{ID: op.ID, Shard: op.Shard, Task: op.Task})
		n.last = op.ID
	case "discard":
		n.ring.Discard(op.N)
		k := op.N
		if k < 0 {
			k = 0
		}
		if k > len(n.model) {
			k = len(n.model)
		}
		n.model = append([]vfRingEntry(nil), n.model[k:]...)
	case "aggdiscard":
		got, cnt := n.ring.AggregateUpTo(op.W)
		if m := vfRingCheckAgg(n.model, op.W, got, cnt); m != "" {
			return m
		}
		n.ring.Discard(cnt)
		k := 0
		for _, e := range n.model {
			if e.ID <= op.W {
				k++
			}
		}
		n.model = append([]vfRingEntry(nil), n.model[k:]...)
	}
	return vfRingCheckState(n)
}

func vfRingCheckAgg(model []vfRingEntry, w int64, got map[history.ClusterShardID]int64, cnt int) string {
	want := map[history.ClusterShardID]int64{}
	wantCnt := 0
	for _, e := range model {
		if e.ID > w {
			continue
		}
		wantCnt++
		if e.Shard == 0 {
			continue
		}
		sh := vfRingShards[e.Shard]
		if cur, ok := want[sh]; !ok || e.Task > cur {
			want[sh] = e.Task
		}
	}
	if cnt != wantCnt {
		return fmt.Sprintf("aggregate(%d): count=%d want %d", w, cnt, wantCnt)
	}
	if len(got) != len(want) {
		return fmt.Sprintf("aggregate(%d): got %v want %v", w, got, want)
	}
	for k, v := range want {
		if gv, ok := got[k]; !ok || gv != v {
			return fmt.Sprintf("aggregate(%d): got %v want %v", w, got, want)
		}
	}
	return ""
}

func vfRingCheckState(n *vfRingNode) string {
	b := n.ring
	if b.size != len(n.model) {
		return fmt.Sprintf("size=%d model has %d entries", b.size, len(n.model))
	}
	if b.size > len(b.entries) || b.size < 0 {
		return fmt.Sprintf("size=%d exceeds capacity %d", b.size, len(b.entries))
	}
	if b.size > 0 && (b.head < 0 || b.head >= len(b.entries)) {
		return fmt.Sprintf("head=%d outside capacity %d", b.head, len(b.entries))
	}
	if len(n.model) > 0 && b.startProxyID != n.model[0].ID {
		return fmt.Sprintf("startProxyID=%d model first id %d", b.startProxyID, n.model[0].ID)
	}
	for i, e := range n.model {
		m := b.entries[(b.head+i)%len(b.entries)]
		if m.sourceShard != vfRingShards[e.Shard] || m.sourceTask != e.Task {
			return fmt.Sprintf("entry %d (proxy id %d) = %v/%d, model %v/%d", i, e.ID, m.sourceShard, m.sourceTask, vfRingShards[e.Shard], e.Task)
		}
	}
	// every watermark below, inside and above the stored range
	lo, hi := b.startProxyID-2, b.startProxyID+int64(b.size)+1
	if len(n.model) > 0 {
		lo, hi = n.model[0].ID-2, n.model[len(n.model)-1].ID+2
	}
	for w := lo; w <= hi; w++ {
		got, cnt := b.AggregateUpTo(w)
		if m := vfRingCheckAgg(n.model, w, got, cnt); m != "" {
			return m
		}
	}
	return ""
}

func vfRingSuccessors(n *vfRingNode, gaps []int64, tasks []int64) []vfRingOp {
	var ops []vfRingOp
	for _, g := range gaps {
		for sh := 1; sh <= 2; sh++ {
			for _, t := range tasks {
				ops = append(ops, vfRingOp{Kind: "append", ID: n.last + g, Shard: sh, Task: t})
			}
		}
	}
	for k := -1; k <= len(n.model)+1; k++ {
		ops = append(ops, vfRingOp{Kind: "discard", N: k})
	}
	lo, hi := n.ring.startProxyID-2, n.ring.startProxyID+int64(len(n.model))+1
	for w := lo; w <= hi; w++ {
		ops = append(ops, vfRingOp{Kind: "aggdiscard", W: w})
	}
	return ops
}

func vfRingReplay(path []vfRingOp) (string, int) {
	var n *vfRingNode
	for i, op := range path {
		if op.Kind == "new" {
			n = &vfRingNode{ring: newProxyIDRingBuffer(op.Cap)}
			if m := vfRingCheckState(n); m != "" {
				return m, i
			}
			continue
		}
		if n == nil {
			return "replay does not start with new", i
		}
		if m := vfRingApply(n, op); m != "" {
			return m, i
		}
	}
	return "", -1
}

func TestVerifC05(t *testing.T) {
	res := vrt.NewResult("C05", "model_checking")
	defer func() {
		if err := res.Write(); err != nil {
			t.Fatal(err)
		}
	}()
	if p := vrt.ReplayPath(); p != "" {
		var rp struct {
			Path []vfRingOp `json:"path"`
		}
		raw, err := os.ReadFile(p)
		if err != nil {
			t.Fatal(err)
		}
		if err := json.Unmarshal(raw, &rp); err != nil {
			t.Fatal(err)
		}
		if m, i := vfRingReplay(rp.Path); m != "" {
			res.Violate("ring-model-mismatch", fmt.Sprintf("step %d: %s", i, m), rp)
			t.Logf("replay reproduces: step %d: %s", i, m)
		}
		return
	}

	depth, gaps, tasks, caps := 5, []int64{1, 2}, []int64{1, 2, 3}, []int{-1, 0, 1, 2, 3, 4}
	if vrt.Thorough() {
		depth, gaps = 7, []int64{1, 2, 3}
	}
	if d := os.Getenv("VERIF_C05_DEPTH"); d != "" {
		fmt.Sscan(d, &depth)
	}
	deadline := vrt.Deadline()
	seen := map[string]bool{}
	var frontier []*vfRingNode
	for _, c := range caps {
		n := &vfRingNode{ring: newProxyIDRingBuffer(c), path: []vfRingOp{{Kind: "new", Cap: c}}}
		if m := vfRingCheckState(n); m != "" {
			res.Violate("ring-model-mismatch", m, map[string]any{"path": n.path})
		}
		k := vfRingKey(n)
		if !seen[k] {
			seen[k] = true
			frontier = append(frontier, n)
		}
	}
	var transitions, aggChecks int64
	growths, wraps, holes := 0, 0, 0
	completed := 0
	exhaustive := true
	outcomes := map[string]bool{}
	for d := 1; d <= depth && len(frontier) > 0; d++ {
		var next []*vfRingNode
		for _, n := range frontier {
			if time.Now().After(deadline) {
				exhaustive = false
				break
			}
			for _, op := range vfRingSuccessors(n, gaps, tasks) {
				c := &vfRingNode{ring: vfRingClone(n.ring), model: append([]vfRingEntry(nil), n.model...), last: n.last}
				c.path = append(append([]vfRingOp(nil), n.path...), op)
				capBefore := len(c.ring.entries)
				msg := vfRingApply(c, op)
				transitions++
				aggChecks += int64(len(c.model) + 4)
				if msg != "" {
					res.Violate("ring-model-mismatch", fmt.Sprintf("after %d ops: %s", len(c.path)-1, msg), map[string]any{"path": c.path})
					continue
				}
				k := vfRingKey(c)
				if seen[k] {
					continue
				}
				seen[k] = true
				if len(c.ring.entries) > capBefore {
					growths++
				}
				if c.ring.size > 0 && c.ring.head+c.ring.size > len(c.ring.entries) {
					wraps++
				}
				for _, e := range c.model {
					if e.Shard == 0 {
						holes++
						break
					}
				}
				if len(outcomes) < 100000 {
					got, _ := c.ring.AggregateUpTo(c.last)
					outcomes[fmt.Sprint(got)] = true
				}
				next = append(next, c)
			}
		}
		if !exhaustive {
			break
		}
		completed = d
		frontier = next
		if res.NumViolations() > 0 {
			break
		}
	}
	// samples: the deepest few states reached
	sort.SliceStable(frontier, func(i, j int) bool { return len(frontier[i].model) > len(frontier[j].model) })
	for i := 0; i < len(frontier) && i < 3; i++ {
		res.Sample(map[string]any{"path": frontier[i].path, "ring_in_order": frontier[i].model})
	}
	if len(frontier) == 0 {
		res.Sample(map[string]any{"note": "frontier empty"})
	}
	res.Set("states", int64(len(seen)))
	res.Set("transitions", transitions)
	res.Set("traces_validated_against_impl", transitions)
	res.Set("aggregate_queries_checked", aggChecks)
	res.Set("depth_completed", int64(completed))
	res.Set("depth_bound", int64(depth))
	res.Set("states_after_growth", int64(growths))
	res.Set("states_wrapped_around", int64(wraps))
	res.Set("states_with_holes", int64(holes))
	res.Set("distinct_outcomes", int64(len(outcomes)))
	res.Set("exhaustive", exhaustive && completed == depth)
	res.Set("alphabet", fmt.Sprintf("capacities %v; append(last+%v, shard A|B, task %v); discard(-1..size+1); aggregate(w)+discard(count) for w in start-2..start+size+1; every state additionally queried with aggregate(w) for every w in first-2..last+2", caps, gaps, tasks))
	res.Set("explanation", "every transition is executed on the real proxyIDRingBuffer (cloned through private fields) and compared with a slice model; there is no separate model whose traces need replaying, so traces_validated_against_impl equals transitions")
	res.Assume("proxy ids appended to one ring are strictly increasing (documented precondition of Append; nextProxyTaskID++ under the sender lock)")
	if res.NumViolations() > 0 {
		t.Logf("violations: %d", res.NumViolations())
	}
}
