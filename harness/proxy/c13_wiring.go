//go:build verif

package proxy

import (
	"testing"

	vrt "github.com/temporalio/s2s-proxy/internal/verifrt"
)

// placeholder until the wiring part is written; reports nothing.
func TestVerifC13Wiring(t *testing.T) {
	res := vrt.NewResult("C13", "exploration")
	res.Set("evaluations", int64(0))
	res.Set("distinct_nontrivial", int64(0))
	if err := res.Write(); err != nil {
		t.Fatal(err)
	}
}
