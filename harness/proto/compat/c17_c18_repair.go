//go:build verif

package compat

// C17 / C18: RepairUTF8Codec against a wire-level reference.
//
// For every request/response type of both services that the proxy can down-convert to the legacy schema:
//   C17 - the valid encoding, every truncation, every single-byte substitution from a byte alphabet, every
//         string occurrence x invalid sequence (same length and length changing), all failure messages at
//         once, one failure message + one other string, failure chains of length 1..12;
//   C18 - every structural path to a failure message x chain depth 1..10 (and 11).
// Oracle: if the stock codec accepts, the repair codec returns the same message; if the only invalid bytes
// are in Failure.message fields of chains within the supported length, it succeeds and the result equals the
// stock decode of the wire-level sanitised bytes; otherwise it returns an error, never a message.

import (
	"bytes"
	"fmt"
	"reflect"
	"strings"
	"sync"
	"sync/atomic"
	"testing"
	"unicode/utf8"

	"google.golang.org/grpc/encoding"
	grpcproto "google.golang.org/grpc/encoding/proto"
	"google.golang.org/grpc/mem"
	"google.golang.org/protobuf/proto"
	"google.golang.org/protobuf/reflect/protoreflect"

	_ "go.temporal.io/api/workflowservice/v1"
	_ "go.temporal.io/server/api/adminservice/v1"

	"github.com/temporalio/s2s-proxy/common"
	vrt "github.com/temporalio/s2s-proxy/internal/verifrt"
)

type vfRepairRoot struct {
	vrt.Root
	newMsg func() proto.Message
}

func vfConvert(v any) (common.Marshaler, bool) {
	m, ok := adminConvertTo122(v)
	if !ok {
		m, ok = frontendConvertTo122(v)
	}
	return m, ok && m != nil
}

func vfSupportedRoots() (supported []vfRepairRoot, unsupported []string) {
	seen := map[protoreflect.FullName]bool{}
	for _, r := range vrt.Roots() {
		if seen[r.MD.FullName()] {
			continue
		}
		seen[r.MD.FullName()] = true
		md := r.MD
		mk := func() proto.Message { return vrt.NewMessage(md).Interface() }
		if _, ok := vfConvert(mk()); ok {
			supported = append(supported, vfRepairRoot{r, mk})
		} else {
			unsupported = append(unsupported, string(md.Name()))
		}
	}
	return
}

// vfLegacyRestrict passes m through the legacy schema (which keeps no unknown fields), so that what remains
// is a message "from an older server".
func vfLegacyRestrict(m proto.Message) (proto.Message, error) {
	wire, err := proto.Marshal(m)
	if err != nil {
		return nil, err
	}
	old, ok := vfConvert(m)
	if !ok {
		return nil, fmt.Errorf("not convertible")
	}
	if err := old.Unmarshal(wire); err != nil {
		return nil, err
	}
	w2, err := old.Marshal()
	if err != nil {
		return nil, err
	}
	out := m.ProtoReflect().New().Interface()
	if err := proto.Unmarshal(w2, out); err != nil {
		return nil, err
	}
	return out, nil
}

var vfStd = encoding.GetCodecV2(grpcproto.Name)

func vfDecodeBoth(r vfRepairRoot, wire []byte) (std proto.Message, stdErr error, rep proto.Message, repErr error, panicked string) {
	return vfDecodeSplit(r, wire, nil)
}

// vfDecodeSplit hands the codec the payload as several buffers (gRPC does that for anything larger than one
// HTTP/2 data frame or decompressed), cut at the given offsets.
func vfDecodeSplit(r vfRepairRoot, wire []byte, cuts []int) (std proto.Message, stdErr error, rep proto.Message, repErr error, panicked string) {
	mk := func() mem.BufferSlice {
		var bs mem.BufferSlice
		prev := 0
		for _, c := range cuts {
			if c > prev && c < len(wire) {
				bs = append(bs, mem.SliceBuffer(append([]byte(nil), wire[prev:c]...)))
				prev = c
			}
		}
		return append(bs, mem.SliceBuffer(append([]byte(nil), wire[prev:]...)))
	}
	std = r.newMsg()
	stdErr = vfStd.Unmarshal(mk(), std)
	rep = r.newMsg()
	func() {
		defer func() {
			if p := recover(); p != nil {
				panicked = fmt.Sprint(p)
			}
		}()
		repErr = GetCodec().Unmarshal(mk(), rep)
	}()
	return
}

const vfMaxChain = 10 // supported failure chain length (statement: "up to the supported depth")

type vfRepairStats struct {
	evals, accepted, repaired, refused, errorsOK, outOfDomain, multiBuffer int64
}

// vfCheckWire is the oracle for one encoded input.
func vfCheckWire(res *vrt.Result, prop string, r vfRepairRoot, wire []byte, what string, replay any, st *vfRepairStats) {
	atomic.AddInt64(&st.evals, 1)
	std, stdErr, rep, repErr, panicked := vfDecodeBoth(r, wire)
	if panicked != "" {
		res.Violate("repair/panic:"+string(r.MD.Name()), fmt.Sprintf("%s, %s: codec panicked: %s", r, what, panicked), replay)
		return
	}
	if stdErr == nil {
		atomic.AddInt64(&st.accepted, 1)
		if repErr != nil {
			res.Violate("repair/valid-message-rejected:"+string(r.MD.Name()), fmt.Sprintf("%s, %s: the standard codec accepts, the repair codec returns %v", r, what, repErr), replay)
		} else if !proto.Equal(std, rep) {
			res.Violate("repair/valid-message-changed:"+string(r.MD.Name()), fmt.Sprintf("%s, %s: the standard codec accepts, the repair codec yields a different message", r, what), replay)
		}
		return
	}
	if !common.IsInvalidUTF8Error(stdErr) {
		atomic.AddInt64(&st.errorsOK, 1)
		if repErr == nil {
			res.Violate("repair/garbled-message-accepted:"+string(r.MD.Name()), fmt.Sprintf("%s, %s: the standard codec rejects (%v), the repair codec returns a message", r, what, stdErr), replay)
		}
		return
	}
	c := vrt.ClassifyWire(wire, r.MD)
	fixable := c.WellFormed && c.InvalidOther == 0 && c.InvalidFailureMsg > 0
	if fixable && c.MaxChain <= vfMaxChain {
		want := r.newMsg()
		if err := proto.Unmarshal(c.Sanitized, want); err != nil {
			// the sanitised bytes are still not decodable for another reason: nothing is asserted beyond "no corrupted message"
			if repErr == nil {
				if bad := vfFirstInvalidString(rep); bad != "" {
					res.Violate("repair/invalid-utf8-passed-on:"+string(r.MD.Name()), fmt.Sprintf("%s, %s: result still holds invalid UTF-8 in %s", r, what, bad), replay)
				}
			}
			return
		}
		atomic.AddInt64(&st.repaired, 1)
		if repErr != nil {
			res.Violate(prop+"/not-repaired:"+string(r.MD.Name()), fmt.Sprintf("%s, %s: only failure messages hold invalid UTF-8 (chain length %d) but the repair codec returns %v", r, what, c.MaxChain, repErr), replay)
			return
		}
		// The statement is about messages from an older server: fields the legacy schema does not know (including
		// unknown field numbers a byte substitution may have created) are outside it, and the legacy structs keep
		// no unknown fields. Compare modulo those.
		if !proto.Equal(rep, want) {
			if lw, err1 := vfLegacyRestrict(want); err1 == nil {
				if lr, err2 := vfLegacyRestrict(rep); err2 == nil && proto.Equal(lr, lw) {
					atomic.AddInt64(&st.outOfDomain, 1)
					return
				}
			}
			res.Violate(prop+"/repair-unfaithful:"+string(r.MD.Name()), fmt.Sprintf("%s, %s: repaired message differs from the standard decode of the sanitised bytes\n got:  %.400v\n want: %.400v", r, what, rep, want), replay)
			return
		}
		// the same payload delivered as several buffers: every cut for small payloads, a fixed set otherwise
		var cutSets [][]int
		if len(wire) <= 64 {
			for c := 1; c < len(wire); c++ {
				cutSets = append(cutSets, []int{c})
			}
		} else {
			cutSets = [][]int{{1}, {len(wire) / 2}, {len(wire) - 1}, {len(wire) / 3, 2 * len(wire) / 3}}
		}
		for _, cuts := range cutSets {
			atomic.AddInt64(&st.multiBuffer, 1)
			_, _, rep2, repErr2, p2 := vfDecodeSplit(r, wire, cuts)
			if p2 != "" || repErr2 != nil || !proto.Equal(rep2, rep) {
				res.Violate(prop+"/multi-buffer-payload:"+string(r.MD.Name()), fmt.Sprintf("%s, %s: delivered as buffers cut at %v the repair codec gives err=%v panic=%q equal-to-single-buffer-result=%v", r, what, cuts, repErr2, p2, repErr2 == nil && proto.Equal(rep2, rep)), replay)
				break
			}
		}
		return
	}
	atomic.AddInt64(&st.refused, 1)
	if repErr == nil {
		// beyond the supported chain length a correct repair is tolerated; anything else must be an error
		if fixable {
			want := r.newMsg()
			if err := proto.Unmarshal(c.Sanitized, want); err == nil && proto.Equal(rep, want) {
				return
			}
		}
		res.Violate("repair/unfixable-message-passed-on:"+string(r.MD.Name()), fmt.Sprintf("%s, %s: the input cannot be repaired (well-formed=%v invalid failure messages=%d other invalid strings=%d chain=%d) but the repair codec returned a message", r, what, c.WellFormed, c.InvalidFailureMsg, c.InvalidOther, c.MaxChain), replay)
	}
}

func vfFirstInvalidString(m proto.Message) string {
	bad := ""
	_, _ = vrt.Visit(m.ProtoReflect(), false, func(c protoreflect.Message, fd protoreflect.FieldDescriptor) bool {
		if bad == "" && fd.Kind() == protoreflect.StringKind && !fd.IsList() && !fd.IsMap() && !utf8.ValidString(c.Get(fd).String()) {
			bad = string(fd.FullName())
		}
		return false
	})
	return bad
}

func vfIsFailureField(fd protoreflect.FieldDescriptor) bool {
	return fd.Kind() == protoreflect.MessageKind && !fd.IsMap() && fd.Message().FullName() == vrt.FailureFullName
}

// vfPopulated returns the legacy-restricted fully populated message of a root and its encoding.
func vfPopulated(r vfRepairRoot, maxPerType int) (proto.Message, []byte, error) {
	m := vrt.PopulateCustom(r.MD, maxPerType, func(path string, fd protoreflect.FieldDescriptor) string { return "s" + fmt.Sprint(len(path)) }, nil)
	vrt.FixEventTypes(m.ProtoReflect())
	lm, err := vfLegacyRestrict(m)
	if err != nil {
		return nil, nil, err
	}
	wire, err := proto.MarshalOptions{Deterministic: true}.Marshal(lm)
	return lm, wire, err
}

var vfInvalidSeqs = map[string][]byte{
	"ff":             {0xff},
	"overlong-c0af":  {0xc0, 0xaf},
	"surrogate":      {0xed, 0xa0, 0x80},
	"truncated-lead": {0xe2, 0x82},
	"two-separated":  {0x80, 'x', 0xfe},
	// a correctly encoded U+FFFD is a valid character and stays what it is, next to offending bytes too
	"valid-fffd-then-ff":     {0xef, 0xbf, 0xbd, 0xff},
	"ff-then-two-valid-fffd": {0xff, 0xef, 0xbf, 0xbd, 0xef, 0xbf, 0xbd},
}

func vfParallel(n int, f func(i int)) {
	var wg sync.WaitGroup
	next := make(chan int, 256)
	for w := 0; w < vrt.Workers(); w++ {
		wg.Add(1)
		go func() {
			defer wg.Done()
			for i := range next {
				f(i)
			}
		}()
	}
	for i := 0; i < n; i++ {
		next <- i
	}
	close(next)
	wg.Wait()
}

func TestVerifC17(t *testing.T) {
	res := vrt.NewResult("C17", "exploration")
	defer func() {
		if err := res.Write(); err != nil {
			t.Fatal(err)
		}
	}()
	roots, unsupported := vfSupportedRoots()
	st := &vfRepairStats{}
	var bytesMutated, stringInjections, truncations int64
	maxWire := 1500
	if vrt.Thorough() {
		maxWire = 20000
	}
	vfParallel(len(roots), func(i int) {
		r := roots[i]
		_, wire, err := vfPopulated(r, 1)
		if err != nil {
			res.Violate("harness/populate:"+string(r.MD.Name()), err.Error(), nil)
			return
		}
		rp := func(kind string, a ...any) map[string]any {
			return map[string]any{"root": string(r.MD.FullName()), "kind": kind, "args": a, "base_wire_len": len(wire)}
		}
		// (1) valid
		vfCheckWire(res, "C17", r, wire, "valid populated message", rp("valid"), st)
		// (2) every truncation
		for k := 0; k < len(wire) && k < maxWire; k++ {
			atomic.AddInt64(&truncations, 1)
			vfCheckWire(res, "C17", r, wire[:k], fmt.Sprintf("truncated to %d of %d bytes", k, len(wire)), rp("truncate", k), st)
		}
		// (3) every position x byte alphabet
		for k := 0; k < len(wire) && k < maxWire; k++ {
			for _, nb := range []byte{0x00, 0x80, 0xC0, 0xFF, wire[k] ^ 1} {
				if nb == wire[k] {
					continue
				}
				mut := append([]byte(nil), wire...)
				mut[k] = nb
				atomic.AddInt64(&bytesMutated, 1)
				vfCheckWire(res, "C17", r, mut, fmt.Sprintf("byte %d of %d set to %#x", k, len(wire), nb), rp("byte", k, nb), st)
			}
		}
		// (4) every string occurrence x invalid sequence, same length and length changing
		var occs []vrt.StringOcc
		vrt.RewriteWire(wire, r.MD, func(o *vrt.StringOcc) []byte { occs = append(occs, *o); return nil })
		inject := func(sel func(o *vrt.StringOcc) []byte) []byte {
			out, _, ok := vrt.RewriteWire(wire, r.MD, sel)
			if !ok {
				return nil
			}
			return out
		}
		for _, o := range occs {
			idx := o.Index
			for name, seq := range vfInvalidSeqs {
				for _, mode := range []string{"insert", "overwrite"} {
					mut := inject(func(x *vrt.StringOcc) []byte {
						if x.Index != idx {
							return nil
						}
						if mode == "insert" {
							return append(append(append([]byte(nil), x.Value[:len(x.Value)/2]...), seq...), x.Value[len(x.Value)/2:]...)
						}
						if len(x.Value) < len(seq) {
							return append([]byte(nil), seq...)
						}
						v := append([]byte(nil), x.Value...)
						copy(v, seq)
						return v
					})
					if mut == nil {
						continue
					}
					atomic.AddInt64(&stringInjections, 1)
					vfCheckWire(res, "C17", r, mut, fmt.Sprintf("%s %s in string #%d (%s)", mode, name, idx, o.Path), rp("string", idx, name, mode), st)
				}
			}
		}
		// all failure messages at once; one failure message + one other string
		hasFailure := false
		for _, o := range occs {
			if o.IsFailureMsg {
				hasFailure = true
			}
		}
		if hasFailure {
			all := inject(func(x *vrt.StringOcc) []byte {
				if x.IsFailureMsg {
					return append(append([]byte("pre"), 0xff), x.Value...)
				}
				return nil
			})
			vfCheckWire(res, "C17", r, all, "invalid UTF-8 in every failure message at once", rp("all-failures"), st)
			for _, o := range occs {
				if o.IsFailureMsg || o.FD.Kind() != protoreflect.StringKind {
					continue
				}
				other := o.Index
				mixed := inject(func(x *vrt.StringOcc) []byte {
					if x.FailureMsgSeq == 0 || x.Index == other {
						return append([]byte{0xff}, x.Value...)
					}
					return nil
				})
				vfCheckWire(res, "C17", r, mixed, fmt.Sprintf("invalid UTF-8 in the first failure message and in string #%d (%s)", other, o.Path), rp("failure-plus-other", other), st)
			}
		}
	})
	// (5) failure chains of length 1..12 at the first failure path of every root that has one
	var chains int64
	vfParallel(len(roots), func(i int) {
		r := roots[i]
		paths := vrt.EnumeratePaths(r.MD, vfIsFailureField, vrt.WalkOptions{MaxPerType: 2})
		for _, p := range paths {
			ok := true
			for n := 1; n <= 12 && ok; n++ {
				for _, badAt := range []int{1, n, 0} { // first, last, all
					wire, known := vfChainWire(r, p, n, badAt)
					if !known {
						ok = false
						break
					}
					atomic.AddInt64(&chains, 1)
					vfCheckWire(res, "C17", r, wire, fmt.Sprintf("failure chain of length %d at %s, invalid at %d (0=all)", n, p, badAt), map[string]any{"root": string(r.MD.FullName()), "kind": "chain", "path": p.String(), "len": n, "bad": badAt}, st)
				}
			}
			break // one path per root here; C18 covers every path
		}
	})
	res.Set("evaluations", st.evals)
	res.Set("distinct_nontrivial", st.repaired+st.refused+st.errorsOK)
	res.Set("inputs_standard_codec_accepts", st.accepted)
	res.Set("inputs_to_be_repaired", st.repaired)
	res.Set("inputs_to_be_refused_invalid_utf8_elsewhere_or_chain_too_long", st.refused)
	res.Set("inputs_malformed", st.errorsOK)
	res.Set("multi_buffer_deliveries_of_repairable_inputs", st.multiBuffer)
	res.Set("repaired_inputs_compared_modulo_fields_unknown_to_legacy_schema", st.outOfDomain)
	res.Set("truncations", truncations)
	res.Set("byte_substitutions", bytesMutated)
	res.Set("string_injections", stringInjections)
	res.Set("chain_cases", chains)
	res.Set("supported_root_types", int64(len(roots)))
	res.Set("unsupported_root_types", unsupported)
	res.Set("rule", fmt.Sprintf("for each of the %d request/response types the proxy can down-convert: legacy-restricted fully populated message; its encoding, every truncation and every byte position x {0x00,0x80,0xC0,0xFF,b^1} (first %d bytes), every string occurrence x 7 invalid sequences (two of them with correctly encoded U+FFFD characters next to the offending byte) x {insert, overwrite}, all failure messages at once, first failure message + each other string, failure chains of length 1..12 with the invalid message first/last/everywhere; non-trivial = the standard codec rejects the input", len(roots), maxWire))
	res.Set("exhaustive", true)
	res.Sample(map[string]any{"root": string(roots[0].MD.FullName()), "kind": "byte", "args": []int{3, 255}})
	res.Sample(map[string]any{"root": string(roots[len(roots)-1].MD.FullName()), "kind": "string", "args": []any{0, "surrogate", "insert"}})
	res.Assume("messages come from an older server: base messages contain only fields the legacy (1.22) schema knows")
	res.Assume(fmt.Sprintf("supported failure chain length = %d; for longer chains an error or a correct repair are both accepted", vfMaxChain))
}

// vfChainWire builds the encoding of the minimal message with a failure chain of length n at path p; the
// message of failure #badAt (1-based; 0 = all) holds invalid UTF-8. known=false: the legacy schema does not
// know this path.
func vfChainWire(r vfRepairRoot, p vrt.Path, n int, badAt int) ([]byte, bool) {
	return vfChainWireSib(r, p, n, badAt, "")
}

// vfPathHasList: some step of the path (or its leaf) is a repeated message field, so elements can have siblings.
func vfPathHasList(p vrt.Path) bool {
	for _, st := range p {
		if st.Field.IsList() && !st.Blob {
			return true
		}
	}
	return false
}

// vfChainWireSib is vfChainWire with, in every repeated message field along the path, one more element without
// any failure in it "before" or "after" the element that carries the path.
func vfChainWireSib(r vfRepairRoot, p vrt.Path, n int, badAt int, sib string) ([]byte, bool) {
	return vfChainWireShape(r, p, n, badAt, sib, "MSG\xff")
}

// vfInvalidShapes: byte shapes of the invalid part (each replaces the 4-byte marker, so no length changes on the wire):
// one invalid byte; a run of three (its replacement U+FFFD is also three bytes long); a 4-byte code point cut after
// three bytes.
var vfInvalidShapes = map[string]string{"run-of-3": "M\xff\xff\xff", "truncated-4-byte-code-point": "M\xf0\x9f\x98"}

func vfChainWireShape(r vfRepairRoot, p vrt.Path, n int, badAt int, sib string, bad string) ([]byte, bool) {
	return vfChainWirePad(r, p, n, badAt, sib, bad, nil)
}

// vfSiblingArms: for every repeated message field on the path whose element type has a oneof, the arms of that oneof
// that are messages - a sibling element can be of any of these kinds (a history task next to a sync-activity task, an
// event of another type next to the failed one).
type vfSibArm struct {
	list protoreflect.FieldDescriptor
	arm  protoreflect.FieldDescriptor
}

func vfSiblingArms(p vrt.Path) []vfSibArm {
	var out []vfSibArm
	seen := map[protoreflect.FullName]bool{}
	for _, st := range p {
		f := st.Field
		if !f.IsList() || st.Blob || f.Kind() != protoreflect.MessageKind || seen[f.FullName()] {
			continue
		}
		seen[f.FullName()] = true
		oos := f.Message().Oneofs()
		for i := 0; i < oos.Len(); i++ {
			fs := oos.Get(i).Fields()
			for k := 0; k < fs.Len(); k++ {
				if fs.Get(k).Kind() == protoreflect.MessageKind {
					out = append(out, vfSibArm{f, fs.Get(k)})
				}
			}
		}
	}
	return out
}

func vfChainWirePad(r vfRepairRoot, p vrt.Path, n int, badAt int, sib string, bad string, arm *vfSibArm) ([]byte, bool) {
	const marker = "MSG~"
	pad := func(f protoreflect.FieldDescriptor) protoreflect.Message { return vrt.NewMessage(f.Message()) }
	if arm != nil {
		// only the one list gets a sibling, and that sibling is of the given kind (empty attributes of that arm)
		pad = func(f protoreflect.FieldDescriptor) protoreflect.Message {
			if f.FullName() != arm.list.FullName() {
				return nil
			}
			m := vrt.NewMessage(f.Message())
			m.Mutable(arm.arm)
			vrt.DecorateEvent(m, arm.arm)
			return m
		}
	}
	opts := vrt.BuildOpts{Decorate: vrt.DecorateEvent}
	switch sib {
	case "before":
		opts.Pad = pad
	case "after":
		opts.PadAfter = pad
	}
	opts.SetLeaf = func(m protoreflect.Message, leaf protoreflect.FieldDescriptor) {
		var set func(f protoreflect.Message, k int)
		set = func(f protoreflect.Message, k int) {
			fmd := f.Descriptor()
			f.Set(fmd.Fields().ByName("message"), protoreflect.ValueOfString(fmt.Sprintf("%s%02d", marker, k)))
			if k < n {
				set(f.Mutable(fmd.Fields().ByName("cause")).Message(), k+1)
			}
		}
		if leaf.IsList() {
			f := vrt.NewMessage(leaf.Message())
			set(f, 1)
			if sib == "before" && arm == nil {
				m.Mutable(leaf).List().Append(protoreflect.ValueOfMessage(vrt.NewMessage(leaf.Message())))
			}
			m.Mutable(leaf).List().Append(protoreflect.ValueOfMessage(f))
			if sib == "after" && arm == nil {
				m.Mutable(leaf).List().Append(protoreflect.ValueOfMessage(vrt.NewMessage(leaf.Message())))
			}
		} else {
			set(m.Mutable(leaf).Message(), 1)
		}
	}
	msg := vrt.BuildForPath(r.MD, p, opts)
	want := n
	if sib == "twin" {
		// the element of the outermost repeated field on the path occurs twice (two failed commands, two failed tasks):
		// both copies carry the invalid message
		cur := msg.ProtoReflect()
		for _, st := range p {
			f := st.Field
			if st.Blob || f.Kind() != protoreflect.MessageKind {
				break
			}
			if f.IsList() {
				l := cur.Mutable(f).List()
				if l.Len() == 1 {
					l.Append(protoreflect.ValueOfMessage(proto.Clone(l.Get(0).Message().Interface()).ProtoReflect()))
					want = 2 * n
				}
				break
			}
			if f.IsMap() {
				break
			}
			cur = cur.Mutable(f).Message()
		}
		if want == n {
			return nil, false
		}
	}
	restricted, err := vfLegacyRestrict(msg)
	if err != nil {
		return nil, false
	}
	wire, err := proto.MarshalOptions{Deterministic: true}.Marshal(restricted)
	if err != nil {
		return nil, false
	}
	if bytes.Count(wire, []byte(marker)) != want {
		return nil, false // the legacy schema dropped (part of) the path
	}
	for k := 1; k <= n; k++ {
		if badAt == 0 || badAt == k {
			wire = bytes.Replace(wire, []byte(fmt.Sprintf("%s%02d", marker, k)), []byte(fmt.Sprintf("%s%02d", bad, k)), want/n)
		}
	}
	return wire, true
}

func TestVerifC18(t *testing.T) {
	res := vrt.NewResult("C18", "exploration")
	defer func() {
		if err := res.Write(); err != nil {
			t.Fatal(err)
		}
	}()
	roots, _ := vfSupportedRoots()
	st := &vfRepairStats{}
	// the conversion tables themselves: every type is paired with the legacy type of the same name
	for _, r := range roots {
		old, _ := vfConvert(r.newMsg())
		if got := reflect.TypeOf(old).Elem().Name(); got != string(r.MD.Name()) {
			res.Violate("C18/conversion-table/wrong-legacy-type", fmt.Sprintf("%s is down-converted to the legacy type %s: failure messages in it are decoded with the wrong schema and never repaired", r.MD.FullName(), got), map[string]any{"root": string(r.MD.FullName())})
		}
	}
	var pairs, skippedLegacy, siblingCases, armCases int64
	var skipped sync.Map
	type job struct {
		r vfRepairRoot
		p vrt.Path
	}
	var jobs []job
	for _, r := range roots {
		for _, p := range vrt.EnumeratePaths(r.MD, vfIsFailureField, vrt.WalkOptions{MaxPerType: 2}) {
			jobs = append(jobs, job{r, p})
		}
	}
	vfParallel(len(jobs), func(i int) {
		j := jobs[i]
		if _, known := vfChainWire(j.r, j.p, 1, 1); !known {
			atomic.AddInt64(&skippedLegacy, 1)
			skipped.Store(string(j.r.MD.Name())+":"+j.p.String(), true)
			return
		}
		atomic.AddInt64(&pairs, 1)
		for depth := 1; depth <= 11; depth++ {
			// invalid UTF-8 exactly at chain position `depth` of a chain of that length
			wire, known := vfChainWire(j.r, j.p, depth, depth)
			if !known {
				continue
			}
			rp := map[string]any{"root": string(j.r.MD.FullName()), "path": j.p.String(), "depth": depth}
			sigPath := j.p.String()
			if len(sigPath) > 120 {
				sigPath = sigPath[len(sigPath)-120:]
			}
			before := res.NumViolations()
			vfCheckWire(res, "C18/"+sigPath, j.r, wire, fmt.Sprintf("invalid UTF-8 in the failure message at depth %d of %s", depth, j.p), rp, st)
			_ = before
		}
		// other shapes of the invalid bytes at depth 1 and 2
		for _, shape := range []string{"run-of-3", "truncated-4-byte-code-point"} {
			for _, depth := range []int{1, 2} {
				wire, known := vfChainWireShape(j.r, j.p, depth, depth, "", vfInvalidShapes[shape])
				if !known {
					continue
				}
				sigPath := j.p.String()
				if len(sigPath) > 120 {
					sigPath = sigPath[len(sigPath)-120:]
				}
				rp := map[string]any{"root": string(j.r.MD.FullName()), "path": j.p.String(), "depth": depth, "shape": shape}
				vfCheckWire(res, "C18/"+shape+"/"+sigPath, j.r, wire, fmt.Sprintf("invalid UTF-8 (%s) in the failure message at depth %d of %s", shape, depth, j.p), rp, st)
			}
		}
		// repeated fields along the path: a sibling element without a failure before / after the repaired one
		if vfPathHasList(j.p) {
			for _, sib := range []string{"before", "after"} {
				for _, depth := range []int{1, 2} {
					wire, known := vfChainWireSib(j.r, j.p, depth, depth, sib)
					if !known {
						continue
					}
					atomic.AddInt64(&siblingCases, 1)
					sigPath := j.p.String()
					if len(sigPath) > 120 {
						sigPath = sigPath[len(sigPath)-120:]
					}
					rp := map[string]any{"root": string(j.r.MD.FullName()), "path": j.p.String(), "depth": depth, "sibling": sib}
					vfCheckWire(res, "C18/sibling-"+sib+"/"+sigPath, j.r, wire, fmt.Sprintf("invalid UTF-8 in the failure message at depth %d of %s, with a failure-free element %s it in every repeated field on the way", depth, j.p, sib), rp, st)
				}
			}
		}
		// the element of the outermost repeated field twice, both copies with the invalid message
		if vfPathHasList(j.p) {
			for _, depth := range []int{1, 2} {
				wire, known := vfChainWirePad(j.r, j.p, depth, depth, "twin", "MSG\xff", nil)
				if !known {
					continue
				}
				atomic.AddInt64(&siblingCases, 1)
				sigPath := j.p.String()
				if len(sigPath) > 120 {
					sigPath = sigPath[len(sigPath)-120:]
				}
				rp := map[string]any{"root": string(j.r.MD.FullName()), "path": j.p.String(), "depth": depth, "sibling": "twin"}
				vfCheckWire(res, "C18/two-invalid-elements/"+sigPath, j.r, wire, fmt.Sprintf("invalid UTF-8 in the failure message at depth %d of %s, in two elements of the outermost repeated field on the way", depth, j.p), rp, st)
			}
		}
		// a sibling of another kind (another arm of the element's oneof) before the repaired element: quick takes the
		// arms of the outermost such list, thorough every arm of every list on the way
		arms := vfSiblingArms(j.p)
		if !vrt.Thorough() && len(arms) > 0 {
			first := arms[0].list.FullName()
			var keep []vfSibArm
			for _, a := range arms {
				if a.list.FullName() == first {
					keep = append(keep, a)
				}
			}
			arms = keep
		}
		for ai := range arms {
			a := arms[ai]
			for _, sib := range []string{"before", "after"} {
				if sib == "after" && !vrt.Thorough() {
					continue
				}
				wire, known := vfChainWirePad(j.r, j.p, 1, 1, sib, "MSG\xff", &a)
				if !known {
					continue
				}
				atomic.AddInt64(&armCases, 1)
				sigPath := j.p.String()
				if len(sigPath) > 120 {
					sigPath = sigPath[len(sigPath)-120:]
				}
				rp := map[string]any{"root": string(j.r.MD.FullName()), "path": j.p.String(), "depth": 1, "sibling": sib, "sibling_kind": string(a.arm.Name()), "sibling_in": string(a.list.FullName())}
				vfCheckWire(res, "C18/sibling-of-kind-"+string(a.arm.Name())+"-"+sib+"/"+sigPath, j.r, wire, fmt.Sprintf("invalid UTF-8 in the failure message of %s, with an element of kind %s %s it in %s", j.p, a.arm.Name(), sib, a.list.FullName()), rp, st)
			}
		}
	})
	// all paths of a root at once (fully populated, every failure message invalid)
	var allAtOnce int64
	vfParallel(len(roots), func(i int) {
		r := roots[i]
		_, wire, err := vfPopulated(r, 2)
		if err != nil {
			return
		}
		n := 0
		mut, _, ok := vrt.RewriteWire(wire, r.MD, func(o *vrt.StringOcc) []byte {
			if o.IsFailureMsg {
				n++
				return append(append([]byte("a"), 0xff), o.Value...)
			}
			return nil
		})
		if !ok || n == 0 {
			return
		}
		atomic.AddInt64(&allAtOnce, 1)
		vfCheckWire(res, "C18/all-at-once", r, mut, fmt.Sprintf("invalid UTF-8 in all %d failure messages of the fully populated message", n), map[string]any{"root": string(r.MD.FullName()), "path": "(all)"}, st)
	})
	var sk []string
	skipped.Range(func(k, _ any) bool { sk = append(sk, k.(string)); return true })
	res.Set("evaluations", st.evals)
	res.Set("distinct_nontrivial", st.repaired+st.refused)
	res.Set("type_path_pairs", pairs)
	res.Set("sibling_element_cases", siblingCases)
	res.Set("sibling_of_another_kind_cases", armCases)
	res.Set("type_path_pairs_unknown_to_legacy_schema", skippedLegacy)
	res.Set("roots_checked_all_at_once", allAtOnce)
	res.Set("inputs_to_be_repaired", st.repaired)
	res.Set("inputs_beyond_supported_depth", st.refused)
	if len(sk) > 12 {
		sk = sk[:12]
	}
	res.Set("examples_unknown_to_legacy_schema", sk)
	res.Set("rule", "for every down-convertible request/response type: every structural path from the descriptors (through oneofs, repeated fields, History events, commands; each type at most twice) to a field of type Failure that the legacy schema also knows x chain depth 1..10 (must be repaired) and 11 (error or correct repair); at depth 1-2 also with a run of three invalid bytes and a truncated 4-byte code point; the same at depth 1-2 with a failure-free sibling element before / after the repaired one in every repeated field on the way, with the element of the outermost repeated field occurring twice (both invalid), and at depth 1 with a sibling of every other kind (every message arm of the element's oneof: another replication-task type, another event type, another command type) before it (thorough: also after it, and in every list on the way, not only the outermost); the conversion tables pair every type with the legacy type of the same name; plus all failure messages of the fully populated message at once; non-trivial = inputs the standard codec rejects for invalid UTF-8")
	res.Set("exhaustive", true)
	if len(jobs) > 0 {
		res.Sample(map[string]any{"root": string(jobs[0].r.MD.FullName()), "path": jobs[0].p.String(), "depth": 10})
		res.Sample(map[string]any{"root": string(jobs[len(jobs)-1].r.MD.FullName()), "path": jobs[len(jobs)-1].p.String(), "depth": 1})
	}
	_ = strings.TrimSpace
}
