//go:build verif

package interceptor

// C16 (interceptor chain level): every request type of both services x every namespace path x
// {forbidden here only, allowed here + forbidden at one other path, allowed everywhere} through the chain
// translation -> ACL in the order makeServerOptions installs them, x {no translation, remote name mapped to
// an allowed / a forbidden local name} x {bypass header, no header}.

import (
	"bytes"
	"context"
	"fmt"
	"strings"
	"sync/atomic"
	"testing"

	"go.temporal.io/server/common/log"
	"google.golang.org/grpc"
	"google.golang.org/grpc/codes"
	"google.golang.org/grpc/metadata"
	"google.golang.org/grpc/status"
	"google.golang.org/protobuf/proto"
	"google.golang.org/protobuf/reflect/protoreflect"

	"github.com/temporalio/s2s-proxy/common"
	vrt "github.com/temporalio/s2s-proxy/internal/verifrt"
)

func TestVerifC16(t *testing.T) {
	res := vrt.NewResult("C16", "exploration")
	defer func() {
		if err := res.Write(); err != nil {
			t.Fatal(err)
		}
	}()
	logger := log.NewNoopLogger()
	// inbound server: requests remote->local, responses local->remote
	nsTr := NewNamespaceNameTranslator(logger, map[string]string{"remote-ok": "allowed-ns", "remote-bad": "forbidden-ns"}, map[string]string{"allowed-ns": "remote-ok", "forbidden-ns": "remote-bad"})
	trOn := NewTranslationInterceptor(logger, []Translator{nsTr})
	acl := NewAccessControlInterceptor(logger, nil, []string{"allowed-ns", "plain-allowed"})
	type job struct {
		root  vfRoot
		paths []vrt.Path
		i     int
	}
	var jobs []job
	for _, r := range vfRoots() {
		if r.Response || r.Method == "RegisterNamespace" || r.Method == "DeprecateNamespace" {
			continue
		}
		ps := vrt.EnumeratePaths(r.MD, vrt.IsNamespaceNameField, vrt.WalkOptions{MaxPerType: vfMaxPerType(), ThroughBlobs: true})
		for i := range ps {
			jobs = append(jobs, job{r, ps, i})
		}
	}
	var evals, nontrivial int64
	run := func(r vfRoot, msg proto.Message, withTranslation, header bool) (denied bool, calls int, err error) {
		ctx := context.Background()
		if header {
			ctx = metadata.NewIncomingContext(ctx, metadata.Pairs(common.RequestTranslationHeaderName, "false"))
		}
		info := &grpc.UnaryServerInfo{FullMethod: r.Full}
		handler := func(context.Context, any) (any, error) { calls++; return nil, nil }
		aclStep := func(ctx context.Context, req any) (any, error) { return acl.Intercept(ctx, req, info, handler) }
		if withTranslation {
			_, err = trOn.Intercept(ctx, msg, info, aclStep)
		} else {
			_, err = aclStep(ctx, msg)
		}
		atomic.AddInt64(&evals, 1)
		return status.Code(err) == codes.PermissionDenied, calls, err
	}
	vfParallel(len(jobs), func(k int) {
		j := jobs[k]
		p := j.paths[j.i]
		sig := vrt.PathSignature(p)
		type tc struct {
			kind            string
			here, other     string
			translation     bool
			header          bool
			mustRefuse      bool
			mustForwardOnce bool
			pad             string
		}
		var cases []tc
		for _, header := range []bool{false, true} {
			cases = append(cases,
				tc{"forbidden-here-only", "forbidden-ns", "", false, header, true, false, ""},
				tc{"allowed-here-forbidden-elsewhere", "allowed-ns", "forbidden-ns", false, header, true, false, ""},
				tc{"allowed-everywhere", "allowed-ns", "plain-allowed", false, header, false, true, ""},
				tc{"forbidden-here-only/translation-configured", "forbidden-ns", "", true, header, true, false, ""},
				// names that differ from an allowed one only by case or padding are different namespaces
				tc{"look-alike-case-here-only", "ALLOWED-NS", "", false, header, true, false, ""},
				tc{"look-alike-padded-here-only", "allowed-ns ", "", false, header, true, false, ""},
			)
		}
		// translation on, no bypass header: remote names are judged after translation
		cases = append(cases,
			tc{"remote-name-mapped-to-forbidden", "remote-bad", "", true, false, true, false, ""},
			tc{"remote-name-mapped-to-allowed", "remote-ok", "", true, false, false, true, ""},
			tc{"allowed-here-remote-forbidden-elsewhere", "remote-ok", "remote-bad", true, false, true, false, ""},
		)
		// histories: the same cases with an event of a type that carries no namespace before / after the event on the
		// path (in a serialized batch and in a plain History alike)
		if vrt.PathEventType(p) != "" || vrt.PathBlobField(p) != "" {
			for _, c := range cases[:len(cases):len(cases)] {
				if c.kind == "forbidden-here-only" || c.kind == "remote-name-mapped-to-forbidden" {
					pads := []string{"skippable-event-before", "skippable-event-after"}
					if vrt.PathBlobField(p) != "" {
						pads = append(pads, "json-encoded-blob", "skippable-event-before+json-encoded-blob", "empty-batch-before")
						// (event types every older server knows: the repair decodes the batch with the legacy schema)
						switch vrt.PathEventType(p) {
						case "EVENT_TYPE_SIGNAL_EXTERNAL_WORKFLOW_EXECUTION_INITIATED", "EVENT_TYPE_START_CHILD_WORKFLOW_EXECUTION_INITIATED",
							"EVENT_TYPE_REQUEST_CANCEL_EXTERNAL_WORKFLOW_EXECUTION_INITIATED", "EVENT_TYPE_CHILD_WORKFLOW_EXECUTION_STARTED":
							pads = append(pads, "repairable-invalid-utf8-event-before")
						}
					}
					for _, pad := range pads {
						c2 := c
						c2.kind, c2.pad = c.kind+"/"+pad, pad
						cases = append(cases, c2)
					}
				}
			}
		}
		for _, c := range cases {
			msg := vfBuildAtPadded(j.root, p, c.here, c.pad)
			if c.other != "" {
				if len(j.paths) < 2 {
					continue
				}
				q := j.paths[(j.i+1)%len(j.paths)]
				proto.Merge(msg, vfBuildAt(j.root, q, c.other, false))
				// the merge may have put both values on one field (same path prefix, singular field): make sure the
				// message really still holds the "here" value; otherwise the case degenerates and is skipped
				cnt := 0
				_, _ = vrt.Visit(msg.ProtoReflect(), true, func(cm protoreflect.Message, fd protoreflect.FieldDescriptor) bool {
					if vrt.IsNamespaceNameField(fd) && cm.Get(fd).String() == c.other {
						cnt++
					}
					return false
				})
				if cnt == 0 {
					continue
				}
			}
			// every other namespace field of the messages on the path holds an allowed name (an empty name is refused
			// by the code, which would make "forbidden here only" vacuous)
			fillWith := "plain-allowed"
			vrt.FillEmptyNames(msg, fillWith)
			if c.pad == "repairable-invalid-utf8-event-before" {
				vfCorruptMarker(msg)
			}
			replay := map[string]any{"root": j.root.String(), "path": p.String(), "case": c.kind, "header": c.header}
			if c.mustRefuse {
				// the verdict may not depend on earlier traffic: the same long-lived interceptors have just seen a request of
				// this very type that names no namespace at all (what a per-type shortcut would remember)
				_, _, _ = run(j.root, vrt.NewMessage(j.root.MD).Interface(), c.translation, c.header)
			}
			denied, calls, err := run(j.root, msg, c.translation, c.header)
			if c.mustRefuse {
				atomic.AddInt64(&nontrivial, 1)
				if !denied || calls != 0 {
					res.Violate("nsacl/not-refused/"+c.kind+"/"+sig, fmt.Sprintf("%s path %s, case %s (bypass header %v): denied=%v handler calls=%d err=%v", j.root, p, c.kind, c.header, denied, calls, err), replay)
				}
			}
			if c.mustForwardOnce && (denied || calls != 1) {
				res.Violate("nsacl/allowed-request-not-forwarded/"+c.kind+"/"+sig, fmt.Sprintf("%s path %s, case %s (bypass header %v): denied=%v handler calls=%d err=%v", j.root, p, c.kind, c.header, denied, calls, err), replay)
			}
		}
	})
	res.Set("evaluations", evals)
	res.Set("distinct_nontrivial", nontrivial)
	res.Set("request_paths", int64(len(jobs)))
	res.Set("rule", "every request type of WorkflowService and AdminService x every structural namespace path (incl. blob-encoded ones) x {forbidden here only, allowed here + forbidden at the next path, allowed everywhere} (for paths through history events also with a namespace-free event before / after the one on the path) x {bypass header, no header} through ACL alone and through translation -> ACL (chain order of makeServerOptions), plus remote names that map to an allowed / a forbidden local name; every must-refuse case is preceded, on the same long-lived interceptors, by a request of the same type that names no namespace; non-trivial = must be refused")
	res.Set("exhaustive", true)
	if len(jobs) > 0 {
		res.Sample(map[string]any{"root": jobs[0].root.String(), "path": jobs[0].paths[jobs[0].i].String(), "case": "forbidden-here-only"})
		res.Sample(map[string]any{"root": jobs[len(jobs)-1].root.String(), "path": jobs[len(jobs)-1].paths[jobs[len(jobs)-1].i].String(), "case": "remote-name-mapped-to-forbidden"})
	}
	res.Assume("the interceptor chain is assembled as makeServerOptions does (translation before ACL); the wiring part of this check verifies that order end to end on a real ClusterConnection")
}

// vfCorruptMarker turns the marker "MSG~" inside every encoded batch of msg into invalid UTF-8 (same length).
func vfCorruptMarker(msg proto.Message) {
	_, _ = vrt.Visit(msg.ProtoReflect(), false, func(c protoreflect.Message, fd protoreflect.FieldDescriptor) bool {
		if !vrt.EventBlobFields[fd.FullName()] {
			return false
		}
		fix := func(b protoreflect.Message) {
			dfd := b.Descriptor().Fields().ByName("data")
			b.Set(dfd, protoreflect.ValueOfBytes(bytes.ReplaceAll(b.Get(dfd).Bytes(), []byte("MSG~"), []byte("MSG\xff"))))
		}
		if fd.IsList() {
			for i := 0; i < c.Get(fd).List().Len(); i++ {
				fix(c.Get(fd).List().Get(i).Message())
			}
		} else {
			fix(c.Get(fd).Message())
		}
		return false
	})
}

// vfBuildAtPadded is vfBuildAt with, in every repeated HistoryEvent field on the way, one more event of a type that
// carries no namespace before or after the event on the path.
func vfBuildAtPadded(root vfRoot, p vrt.Path, value string, pad string) proto.Message {
	o := vrt.BuildOpts{
		SetLeaf: func(m protoreflect.Message, leaf protoreflect.FieldDescriptor) {
			m.Set(leaf, protoreflect.ValueOfString(value))
		},
		Decorate: vrt.DecorateEvent,
	}
	if pad == "repairable-invalid-utf8-event-before" {
		// the batch comes from an older server: an event before the one on the path has invalid UTF-8 in its failure
		// message (the marker is turned into an invalid byte in the encoded batch), which the proxy repairs
		o.Pad = vrt.PadFailedActivityEvent
		return vrt.BuildForPath(root.MD, p, o) // (vfCorruptMarker is applied by the caller, last)
	}
	switch strings.TrimSuffix(strings.TrimSuffix(pad, "json-encoded-blob"), "+") {
	case "skippable-event-before":
		o.Pad = vrt.PadSkippableEvent
	case "skippable-event-after":
		o.PadAfter = vrt.PadSkippableEvent
	}
	// "...json-encoded-blob": serialized batches on the path arrive JSON-encoded (Temporal's serializer reads proto3 and
	// JSON alike)
	o.BlobJSON = strings.HasSuffix(pad, "json-encoded-blob")
	// a second batch with nothing to map (same shape, a name no mapping mentions) next to the batch on the path
	switch pad {
	case "unmatched-batch-before":
		o.SiblingBlob, o.SiblingValue = "before", "some-other-namespace"
	case "unmatched-batch-after":
		o.SiblingBlob, o.SiblingValue = "after", "some-other-namespace"
	case "empty-batch-before":
		o.SiblingBlob = "empty-before"
	}
	return vrt.BuildForPath(root.MD, p, o)
}
