//go:build verif

package interceptor

// C17 (history-blob path): an event-bearing blob whose failure messages contain invalid UTF-8 is repaired
// when a translator visits it - whether or not anything in the blob matches the mapping - and a blob whose
// invalid bytes are elsewhere makes the translator report an error.

import (
	"bytes"
	"fmt"
	"strings"
	"sync/atomic"
	"testing"
	"unicode/utf8"

	commonpb "go.temporal.io/api/common/v1"
	failurepb "go.temporal.io/api/failure/v1"
	historypb "go.temporal.io/api/history/v1"
	"go.temporal.io/server/common/log"
	"google.golang.org/protobuf/proto"
	"google.golang.org/protobuf/reflect/protoreflect"

	vrt "github.com/temporalio/s2s-proxy/internal/verifrt"
	common122 "github.com/temporalio/s2s-proxy/proto/1_22/api/common/v1"
	enums122 "github.com/temporalio/s2s-proxy/proto/1_22/api/enums/v1"
)

func vfIsBlobField(fd protoreflect.FieldDescriptor) bool { return vrt.EventBlobFields[fd.FullName()] }

func vfIsFailureField(fd protoreflect.FieldDescriptor) bool {
	return fd.Kind() == protoreflect.MessageKind && !fd.IsMap() && fd.Message().FullName() == vrt.FailureFullName
}

// vfBlobWithBadFailure builds History{events: [event with a failure chain of length n at path p]} and returns
// its encoding with invalid UTF-8 in every failure message, plus the sanitised History. withNamespace adds
// a second event that names a namespace (so that something in the blob matches the mapping).
func vfBlobWithBadFailure(p vrt.Path, n int, withNamespace string) (data []byte, want *historypb.History, ok bool) {
	const marker = "BLOBMSG~"
	hist := vrt.BuildForPath(vrt.HistoryDescriptor(), p, vrt.BuildOpts{Decorate: vrt.DecorateEvent, SetLeaf: func(m protoreflect.Message, leaf protoreflect.FieldDescriptor) {
		var set func(f protoreflect.Message, k int)
		set = func(f protoreflect.Message, k int) {
			fmd := f.Descriptor()
			f.Set(fmd.Fields().ByName("message"), protoreflect.ValueOfString(fmt.Sprintf("%s%02d", marker, k)))
			if k < n {
				set(f.Mutable(fmd.Fields().ByName("cause")).Message(), k+1)
			}
		}
		if leaf.IsList() {
			f := vrt.NewMessage(leaf.Message())
			set(f, 1)
			m.Mutable(leaf).List().Append(protoreflect.ValueOfMessage(f))
		} else {
			set(m.Mutable(leaf).Message(), 1)
		}
	}}).(*historypb.History)
	if withNamespace != "" {
		ev := &historypb.HistoryEvent{EventId: 9, EventType: 29, // CHILD_WORKFLOW_EXECUTION_STARTED
			Attributes: &historypb.HistoryEvent_ChildWorkflowExecutionStartedEventAttributes{ChildWorkflowExecutionStartedEventAttributes: &historypb.ChildWorkflowExecutionStartedEventAttributes{Namespace: withNamespace}}}
		hist.Events = append(hist.Events, ev)
	}
	// only paths the legacy schema knows (the repair decodes with it): round trip through the gogo serializer
	valid, err := proto.MarshalOptions{Deterministic: true}.Marshal(hist)
	if err != nil {
		return nil, nil, false
	}
	old, err := gogoSerializer.DeserializeEvents(vfBlob122(valid))
	if err != nil {
		return nil, nil, false
	}
	re, err := gogoSerializer.SerializeEvents(old, vfBlob122(valid).EncodingType)
	if err != nil || bytes.Count(re.Data, []byte(marker)) != n {
		return nil, nil, false
	}
	data = valid
	for k := 1; k <= n; k++ {
		data = bytes.Replace(data, []byte(fmt.Sprintf("%s%02d", marker, k)), []byte(fmt.Sprintf("BLOBMSG\xff%02d", k)), 1)
	}
	want = &historypb.History{}
	if err := proto.Unmarshal(re.Data, want); err != nil {
		return nil, nil, false
	}
	// expected content: legacy-restricted events with the sanitised messages
	_, _ = vrt.Visit(want.ProtoReflect(), false, func(c protoreflect.Message, fd protoreflect.FieldDescriptor) bool {
		if c.Descriptor().FullName() == vrt.FailureFullName && fd.Name() == "message" {
			c.Set(fd, protoreflect.ValueOfString(strings.Replace(c.Get(fd).String(), "~", string(utf8.RuneError), 1)))
		}
		return false
	})
	return data, want, true
}

func TestVerifC17Blob(t *testing.T) {
	res := vrt.NewResult("C17", "exploration")
	defer func() {
		if err := res.Write(); err != nil {
			t.Fatal(err)
		}
	}()
	nsTr := NewNamespaceNameTranslator(log.NewNoopLogger(), map[string]string{vfLocalNS: vfRemoteNS}, map[string]string{vfRemoteNS: vfLocalNS})
	failurePaths := vrt.EnumeratePaths(vrt.HistoryDescriptor(), vfIsFailureField, vrt.WalkOptions{MaxPerType: 2})
	type job struct {
		root vfRoot
		path vrt.Path
	}
	var jobs []job
	for _, r := range vfRoots() {
		for _, p := range vrt.EnumeratePaths(r.MD, vfIsBlobField, vrt.WalkOptions{MaxPerType: 2}) {
			jobs = append(jobs, job{r, p})
		}
	}
	var evals, repaired, refused, unknownLegacy int64
	vfParallel(len(jobs), func(i int) {
		j := jobs[i]
		for fi, fp := range failurePaths {
			for _, n := range []int{1, 3} {
				for _, nsName := range []string{"", "unmapped-ns", "matching"} {
					if fi%4 != 0 && (n != 1 || nsName != "") {
						continue // the full cross product on every 4th failure path, the plain case on all
					}
					name := nsName
					if nsName == "matching" {
						name = vfLocalNS
						if j.root.Response {
							name = vfRemoteNS
						}
					}
					data, want, ok := vfBlobWithBadFailure(fp, n, name)
					if !ok {
						atomic.AddInt64(&unknownLegacy, 1)
						continue
					}
					if nsName == "matching" {
						// the expected blob also has the name translated
						_, _ = vrt.RefTranslateNames(want, map[string]string{vfLocalNS: vfRemoteNS, vfRemoteNS: vfLocalNS})
					}
					var holder *commonpb.DataBlob
					msg := vrt.BuildForPath(j.root.MD, j.path, vrt.BuildOpts{Decorate: vrt.DecorateEvent, SetLeaf: func(m protoreflect.Message, leaf protoreflect.FieldDescriptor) {
						holder = &commonpb.DataBlob{EncodingType: 1, Data: data}
						if leaf.IsList() {
							m.Mutable(leaf).List().Append(protoreflect.ValueOfMessage(holder.ProtoReflect()))
						} else {
							m.Set(leaf, protoreflect.ValueOfMessage(holder.ProtoReflect()))
						}
					}})
					var err error
					if j.root.Response {
						_, err = nsTr.TranslateResponse(msg)
					} else {
						_, err = nsTr.TranslateRequest(msg)
					}
					atomic.AddInt64(&evals, 1)
					atomic.AddInt64(&repaired, 1)
					replay := map[string]any{"root": j.root.String(), "blob_path": j.path.String(), "failure_path": fp.String(), "chain": n, "namespace_event": nsName}
					sig := string(j.path.Leaf().FullName()) + "/ns=" + nsName
					if err != nil {
						res.Violate("blob-repair/error/"+sig, fmt.Sprintf("%s blob %s, failure at %s (chain %d): translator returned %v", j.root, j.path, fp, n, err), replay)
						continue
					}
					// read the blob back from the message
					var got *commonpb.DataBlob
					_, _ = vrt.Visit(msg.ProtoReflect(), false, func(c protoreflect.Message, fd protoreflect.FieldDescriptor) bool {
						if vfIsBlobField(fd) && got == nil {
							if fd.IsList() {
								got = c.Get(fd).List().Get(0).Message().Interface().(*commonpb.DataBlob)
							} else {
								got = c.Get(fd).Message().Interface().(*commonpb.DataBlob)
							}
						}
						return false
					})
					gh := &historypb.History{}
					if got == nil || proto.Unmarshal(got.Data, gh) != nil {
						res.Violate("blob-repair/invalid-blob-passed-on/"+sig, fmt.Sprintf("%s blob %s, failure at %s (chain %d, namespace event %q): the blob handed on still does not decode (invalid UTF-8 not repaired)", j.root, j.path, fp, n, nsName), replay)
						continue
					}
					if !proto.Equal(gh, want) {
						res.Violate("blob-repair/unfaithful/"+sig, fmt.Sprintf("%s blob %s, failure at %s: repaired blob differs\n got:  %.300v\n want: %.300v", j.root, j.path, fp, gh, want), replay)
					}
				}
			}
		}
		// invalid UTF-8 the repair cannot fix - in a string that is not a failure message, alone or next to a failure
		// message that can be repaired, or in a failure chain beyond the supported depth: must be reported, blob untouched
		scheduled := &historypb.HistoryEvent{EventId: 1, EventType: 10, Attributes: &historypb.HistoryEvent_ActivityTaskScheduledEventAttributes{
			ActivityTaskScheduledEventAttributes: &historypb.ActivityTaskScheduledEventAttributes{ActivityId: "ACT~ID"}}}
		failed := func(depth int) *historypb.HistoryEvent {
			f := &failurepb.Failure{Message: "FAIL~MSG"}
			for k := 1; k < depth; k++ {
				f = &failurepb.Failure{Message: "FAIL~MSG", Cause: f}
			}
			return &historypb.HistoryEvent{EventId: 2, EventType: 12, Attributes: &historypb.HistoryEvent_ActivityTaskFailedEventAttributes{
				ActivityTaskFailedEventAttributes: &historypb.ActivityTaskFailedEventAttributes{Failure: f}}}
		}
		for _, uc := range []struct {
			name   string
			events []*historypb.HistoryEvent
		}{
			{"invalid-activity-id", []*historypb.HistoryEvent{scheduled}},
			{"invalid-activity-id-after-repairable-failure", []*historypb.HistoryEvent{failed(1), scheduled}},
			{"invalid-activity-id-before-repairable-failure", []*historypb.HistoryEvent{scheduled, failed(2)}},
			{"failure-chain-of-40-invalid-messages", []*historypb.HistoryEvent{failed(40)}},
		} {
			data, _ := proto.Marshal(&historypb.History{Events: uc.events})
			data = bytes.ReplaceAll(data, []byte("ACT~ID"), []byte("ACT\xffID"))
			data = bytes.ReplaceAll(data, []byte("FAIL~MSG"), []byte("FAIL\xffMSG"))
			msg := vrt.BuildForPath(j.root.MD, j.path, vrt.BuildOpts{Decorate: vrt.DecorateEvent, SetLeaf: func(m protoreflect.Message, leaf protoreflect.FieldDescriptor) {
				b := &commonpb.DataBlob{EncodingType: 1, Data: data}
				if leaf.IsList() {
					m.Mutable(leaf).List().Append(protoreflect.ValueOfMessage(b.ProtoReflect()))
				} else {
					m.Set(leaf, protoreflect.ValueOfMessage(b.ProtoReflect()))
				}
			}})
			before := proto.Clone(msg)
			var err error
			if j.root.Response {
				_, err = nsTr.TranslateResponse(msg)
			} else {
				_, err = nsTr.TranslateRequest(msg)
			}
			atomic.AddInt64(&evals, 1)
			atomic.AddInt64(&refused, 1)
			rp := map[string]any{"root": j.root.String(), "blob_path": j.path.String(), "case": uc.name}
			if err == nil {
				res.Violate("blob-repair/unfixable-blob-not-reported/"+uc.name+"/"+string(j.path.Leaf().FullName()), fmt.Sprintf("%s blob %s, %s: the translator reports no error", j.root, j.path, uc.name), rp)
			} else if !proto.Equal(before, msg) {
				res.Violate("blob-repair/unfixable-blob-changed/"+uc.name+"/"+string(j.path.Leaf().FullName()), fmt.Sprintf("%s blob %s, %s: error reported (%v) but the message was changed", j.root, j.path, uc.name, err), rp)
			}
		}
	})
	res.Set("evaluations", evals)
	res.Set("distinct_nontrivial", repaired+refused)
	res.Set("blob_cases_to_be_repaired", repaired)
	res.Set("blob_cases_to_be_reported", refused)
	res.Set("blob_field_paths", int64(len(jobs)))
	res.Set("failure_paths_in_history", int64(len(failurePaths)))
	res.Set("failure_paths_unknown_to_legacy_schema_skipped", unknownLegacy)
	res.Set("rule", "history-blob path: every path to an event-bearing DataBlob field (single and repeated) in every root type x every failure path inside a History (chain length 1, and on every 4th path also 3) x {nothing else in the blob, an unmapped namespace, a mapped namespace} through the namespace translator: the blob handed on decodes and equals the legacy-restricted history with sanitised failure messages; a blob with invalid UTF-8 the repair cannot fix (another string field, alone or before/after a repairable failure message; a chain of 40 invalid failure messages) makes the translator return an error and leaves the message unchanged")
	res.Sample(map[string]any{"root": jobs[0].root.String(), "blob_path": jobs[0].path.String(), "failure_path": failurePaths[0].String()})
}

func vfBlob122(data []byte) *common122.DataBlob {
	return &common122.DataBlob{EncodingType: enums122.ENCODING_TYPE_PROTO3, Data: data}
}
