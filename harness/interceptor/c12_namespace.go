//go:build verif

package interceptor

// C12: namespace names are translated wherever they occur. Every structural path (from the descriptors)
// from every request/response type of both services to a namespace-name field, one at a time and all at
// once, against a descriptor-driven reference translation.

import (
	"context"
	"fmt"
	"strings"
	"sync"
	"sync/atomic"
	"testing"

	"go.temporal.io/server/common/log"
	"google.golang.org/grpc"
	"google.golang.org/protobuf/proto"
	"google.golang.org/protobuf/reflect/protoreflect"

	vrt "github.com/temporalio/s2s-proxy/internal/verifrt"
)

const (
	vfLocalNS  = "local-ns"
	vfRemoteNS = "remote-ns"
)

type vfC12Case struct {
	Root    string `json:"root"`
	Path    string `json:"path"`
	Padding bool   `json:"padding"`
	After   bool   `json:"padding_after,omitempty"`
	Variant string `json:"variant"`
}

func vfBuildAt(root vfRoot, p vrt.Path, value string, pad bool) proto.Message {
	o := vrt.BuildOpts{
		SetLeaf: func(m protoreflect.Message, leaf protoreflect.FieldDescriptor) {
			m.Set(leaf, protoreflect.ValueOfString(value))
		},
		Decorate: vrt.DecorateEvent,
	}
	if pad {
		o.Pad = vrt.PadSkippableEvent
	}
	return vrt.BuildForPath(root.MD, p, o)
}

type vfC12Stats struct {
	evals, nontrivial, paths, blobPaths, eventPaths int64
	eventTypes                                      sync.Map
}

// vfC12Check runs the real translator on msg and compares with the reference.
func vfC12Check(res *vrt.Result, tr Translator, root vfRoot, msg proto.Message, sig, where string, replay any, st *vfC12Stats) {
	mapping := map[string]string{vfLocalNS: vfRemoteNS}
	if root.Response {
		mapping = map[string]string{vfRemoteNS: vfLocalNS}
	}
	ref := proto.Clone(msg)
	refMatched, err := vrt.RefTranslateNames(ref, mapping)
	if err != nil {
		res.Violate("harness/reference-error", fmt.Sprintf("%s %s: %v", root, where, err), replay)
		return
	}
	var matched bool
	func() {
		defer func() {
			if p := recover(); p != nil {
				err = fmt.Errorf("panic: %v", p)
			}
		}()
		if root.Response {
			matched, err = tr.TranslateResponse(msg)
		} else {
			matched, err = tr.TranslateRequest(msg)
		}
	}()
	atomic.AddInt64(&st.evals, 1)
	if refMatched {
		atomic.AddInt64(&st.nontrivial, 1)
	}
	if err != nil {
		res.Violate("translator-error/"+sig, fmt.Sprintf("%s, %s: translator returned %v", root, where, err), replay)
		return
	}
	eq, cerr := vrt.CanonEqual(msg, ref)
	if cerr != nil {
		res.Violate("translator-corrupts-blob/"+sig, fmt.Sprintf("%s, %s: result has an undecodable blob: %v", root, where, cerr), replay)
		return
	}
	if !eq {
		res.Violate("untranslated/"+sig, fmt.Sprintf("%s, %s: the message handed on differs from the reference translation (mapping %v)\n got:  %.600v\n want: %.600v", root, where, mapping, msg, ref), replay)
		return
	}
	if matched != refMatched {
		res.Violate("changed-flag/"+sig, fmt.Sprintf("%s, %s: translator reported matched=%v, reference %v", root, where, matched, refMatched), replay)
	}
}

func TestVerifC12(t *testing.T) {
	res := vrt.NewResult("C12", "exploration")
	defer func() {
		if err := res.Write(); err != nil {
			t.Fatal(err)
		}
	}()
	tr := NewNamespaceNameTranslator(log.NewNoopLogger(), map[string]string{vfLocalNS: vfRemoteNS}, map[string]string{vfRemoteNS: vfLocalNS})
	roots := vfRoots()
	type job struct {
		root vfRoot
		path vrt.Path
	}
	var jobs []job
	perRoot := map[string]int{}
	for _, r := range roots {
		ps := vrt.EnumeratePaths(r.MD, vrt.IsNamespaceNameField, vrt.WalkOptions{MaxPerType: vfMaxPerType(), ThroughBlobs: true})
		perRoot[r.String()] = len(ps)
		for _, p := range ps {
			jobs = append(jobs, job{r, p})
		}
	}
	replayFilter := ""
	if p := vrt.ReplayPath(); p != "" {
		var c vfC12Case
		if err := vfReadJSON(p, &c); err != nil {
			t.Fatal(err)
		}
		replayFilter = c.Root + "|" + c.Path
	}
	st := &vfC12Stats{}
	vfParallel(len(jobs), func(i int) {
		j := jobs[i]
		if replayFilter != "" && replayFilter != j.root.String()+"|"+j.path.String() {
			return
		}
		value := vfLocalNS
		if j.root.Response {
			value = vfRemoteNS
		}
		sig := vrt.PathSignature(j.path)
		atomic.AddInt64(&st.paths, 1)
		if vrt.PathBlobField(j.path) != "" {
			atomic.AddInt64(&st.blobPaths, 1)
		}
		if et := vrt.PathEventType(j.path); et != "" {
			atomic.AddInt64(&st.eventPaths, 1)
			st.eventTypes.Store(et, true)
		}
		hasEventList := false
		for _, s := range j.path {
			if s.Field.IsList() && s.Field.Kind() == protoreflect.MessageKind && s.Field.Message().FullName() == vrt.HistoryEventName {
				hasEventList = true
			}
		}
		pads := []string{""}
		if hasEventList {
			pads = append(pads, "skippable-event-before", "skippable-event-after")
		}
		if vrt.PathBlobField(j.path) != "" {
			// the same batch arriving JSON-encoded (Temporal's serializer reads proto3 and JSON alike)
			pads = append(pads, "json-encoded-blob", "skippable-event-before+json-encoded-blob")
			// and next to a batch with nothing to map (only repeated blob fields get the second batch)
			pads = append(pads, "unmatched-batch-before", "unmatched-batch-after", "empty-batch-before")
		}
		for _, pad := range pads {
			msg := vfBuildAtPadded(j.root, j.path, value, pad)
			c := vfC12Case{Root: j.root.String(), Path: j.path.String(), Padding: pad != "", After: pad == "skippable-event-after", Variant: "single-path"}
			vfC12Check(res, tr, j.root, msg, sig, fmt.Sprintf("path %s (padding=%q)", j.path, pad), c, st)
		}
	})
	// all at once: fully populated message per root, through the public interface and through the interceptor
	ti := NewTranslationInterceptor(log.NewNoopLogger(), []Translator{tr})
	var populated int64
	// every repeated message field with one element, then with two (a walk that stops after the first element of its kind)
	for _, listLen := range []int{1, 2} {
		vrt.PopulateListLen = listLen
		vfParallel(len(roots), func(i int) {
			r := roots[i]
			if replayFilter != "" && !strings.HasPrefix(replayFilter, r.String()+"|(all)") {
				return
			}
			value := vfLocalNS
			if r.Response {
				value = vfRemoteNS
			}
			msg := vrt.PopulateNames(r.MD, value)
			c := vfC12Case{Root: r.String(), Path: "(all)", Variant: fmt.Sprintf("fully-populated, %d element(s) per repeated field", listLen)}
			vfC12Check(res, tr, r, proto.Clone(msg), "fully-populated:"+string(r.MD.Name()), "fully populated message", c, st)
			atomic.AddInt64(&populated, 1)
			// the same through the unary interceptor chain: the request as the handler sees it / the response as returned
			if !r.Response {
				req := proto.Clone(msg)
				ref := proto.Clone(msg)
				_, _ = vrt.RefTranslateNames(ref, map[string]string{vfLocalNS: vfRemoteNS})
				var seen proto.Message
				_, _ = ti.Intercept(context.Background(), req, &grpc.UnaryServerInfo{FullMethod: r.Full}, func(ctx context.Context, q any) (any, error) {
					seen = proto.Clone(q.(proto.Message))
					return nil, nil
				})
				if seen != nil {
					if eq, _ := vrt.CanonEqual(seen, ref); !eq {
						res.Violate("untranslated/interceptor:"+string(r.MD.Name()), fmt.Sprintf("%s through TranslationInterceptor.Intercept: the handler saw a request that differs from the reference translation", r), c)
					}
				}
			} else {
				resp := proto.Clone(msg)
				ref := proto.Clone(msg)
				_, _ = vrt.RefTranslateNames(ref, map[string]string{vfRemoteNS: vfLocalNS})
				out, _ := ti.Intercept(context.Background(), nil, &grpc.UnaryServerInfo{FullMethod: r.Full}, func(ctx context.Context, q any) (any, error) { return resp, nil })
				if om, ok := out.(proto.Message); ok {
					if eq, _ := vrt.CanonEqual(om, ref); !eq {
						res.Violate("untranslated/interceptor:"+string(r.MD.Name()), fmt.Sprintf("%s through TranslationInterceptor.Intercept: the caller got a response that differs from the reference translation", r), c)
					}
				}
			}
		})
	}
	vrt.PopulateListLen = 1
	nTypes := 0
	st.eventTypes.Range(func(_, _ any) bool { nTypes++; return true })
	res.Set("evaluations", st.evals)
	res.Set("distinct_nontrivial", st.nontrivial)
	res.Set("paths", st.paths)
	res.Set("paths_through_blobs", st.blobPaths)
	res.Set("paths_through_history_events", st.eventPaths)
	res.Set("event_types_with_a_namespace_path", int64(nTypes))
	res.Set("root_types", int64(len(roots)))
	res.Set("fully_populated_roots", populated)
	res.Set("rule", "for every request and response type of WorkflowService and AdminService: every structural path from the descriptors (through message fields, repeated fields, map values, every oneof arm, History.events, event-bearing DataBlobs; each message type at most twice per path) to a namespace-name field (string field named namespace / *_namespace, NamespaceInfo.name), minimal message with the mapped name at that path, with and without a skippable event before / after it, and - for paths through a serialized batch - with the batch JSON-encoded instead of proto3; plus fully populated messages per root type (one and two elements in every repeated message field); non-trivial = the reference translation finds a mapped name")
	res.Set("exhaustive", replayFilter == "")
	if len(jobs) > 0 {
		res.Sample(map[string]any{"root": jobs[0].root.String(), "path": jobs[0].path.String()})
		res.Sample(map[string]any{"root": jobs[len(jobs)/2].root.String(), "path": jobs[len(jobs)/2].path.String()})
		res.Sample(map[string]any{"root": jobs[len(jobs)-1].root.String(), "path": jobs[len(jobs)-1].path.String()})
	}
	res.Assume("a field carries a namespace name iff it is a singular string field named namespace or *_namespace, or NamespaceInfo.name (143 fields in the pinned API)")
	res.Assume("event-bearing blobs are the eleven DataBlob fields documented as serialized history events; other blobs are opaque")
}
