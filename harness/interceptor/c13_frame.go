//go:build verif

package interceptor

// C13 (translator level): frame condition and round trip.
//  (a) value classes at every namespace path: only exact matches change, every other field and every
//      message with nothing to map comes out identical (blobs not re-encoded);
//  (b) for every one-to-one mapping over a 4-letter alphabet with <= k pairs (chains included), one
//      translation applies the mapping exactly once and response∘request restores the original names.

import (
	"bytes"
	"context"
	"fmt"
	"io"
	"sort"
	"strings"
	"sync/atomic"
	"testing"

	commonpb "go.temporal.io/api/common/v1"
	"go.temporal.io/api/workflowservice/v1"
	"go.temporal.io/server/api/adminservice/v1"
	persistencespb "go.temporal.io/server/api/persistence/v1"
	"go.temporal.io/server/common/log"
	"google.golang.org/grpc"
	"google.golang.org/grpc/metadata"
	"google.golang.org/protobuf/proto"

	"github.com/temporalio/s2s-proxy/common"
	vrt "github.com/temporalio/s2s-proxy/internal/verifrt"
)

// vfFakeServerStream records what is handed to the stream.
type vfFakeServerStream struct {
	grpc.ServerStream
	ctx  context.Context
	sent []proto.Message
}

func (f *vfFakeServerStream) Context() context.Context { return f.ctx }
func (f *vfFakeServerStream) SendMsg(m any) error {
	f.sent = append(f.sent, proto.Clone(m.(proto.Message)))
	return nil
}
func (f *vfFakeServerStream) RecvMsg(m any) error { return io.EOF }

func vfDetMarshal(m proto.Message) []byte {
	b, err := proto.MarshalOptions{Deterministic: true}.Marshal(m)
	if err != nil {
		panic(err)
	}
	return b
}

// vfOneToOneMappings: all injective partial maps over letters with 1..maxPairs pairs.
func vfOneToOneMappings(letters []string, maxPairs int) []map[string]string {
	var out []map[string]string
	var rec func(keys []string, used map[string]bool, cur map[string]string, start int)
	rec = func(keys []string, used map[string]bool, cur map[string]string, start int) {
		if len(cur) > 0 {
			c := map[string]string{}
			for k, v := range cur {
				c[k] = v
			}
			out = append(out, c)
		}
		if len(cur) == maxPairs {
			return
		}
		for i := start; i < len(letters); i++ {
			k := letters[i]
			for _, v := range letters {
				if used[v] {
					continue
				}
				cur[k] = v
				used[v] = true
				rec(keys, used, cur, i+1)
				delete(cur, k)
				delete(used, v)
			}
		}
	}
	rec(nil, map[string]bool{}, map[string]string{}, 0)
	return out
}

func vfInverse(m map[string]string) map[string]string {
	inv := map[string]string{}
	for k, v := range m {
		inv[v] = k
	}
	return inv
}

func vfMapString(m map[string]string) string {
	var ps []string
	for _, k := range vfSortedKeys(m) {
		ps = append(ps, k+"->"+m[k])
	}
	return strings.Join(ps, ",")
}

func TestVerifC13(t *testing.T) {
	res := vrt.NewResult("C13", "exploration")
	defer func() {
		if err := res.Write(); err != nil {
			t.Fatal(err)
		}
	}()
	roots := vfRoots()
	nsTr := NewNamespaceNameTranslator(log.NewNoopLogger(), map[string]string{vfLocalNS: vfRemoteNS}, map[string]string{vfRemoteNS: vfLocalNS})
	saTr := vfNewSATranslator()
	var evals, nontrivial, unchangedChecked int64

	// (a) frame condition ---------------------------------------------------------------------------
	classes := map[string]string{"mapped": vfLocalNS, "unmapped": "other-ns", "proper-prefix": "local-n", "mapped-plus-suffix": vfLocalNS + "-x", "empty": "", "range-only": vfRemoteNS}
	type job struct {
		root vfRoot
		path vrt.Path
	}
	var jobs []job
	for _, r := range roots {
		for _, p := range vrt.EnumeratePaths(r.MD, vrt.IsNamespaceNameField, vrt.WalkOptions{MaxPerType: vfMaxPerType(), ThroughBlobs: true}) {
			jobs = append(jobs, job{r, p})
		}
	}
	frame := func(r vfRoot, msg proto.Message, cls, sig, where string, replay any) {
		value := classes[cls]
		mapping := map[string]string{vfLocalNS: vfRemoteNS}
		if r.Response {
			mapping = map[string]string{vfRemoteNS: vfLocalNS}
		}
		_ = value
		ref := proto.Clone(msg)
		refMatched, err := vrt.RefTranslateNames(ref, mapping)
		if err != nil {
			res.Violate("harness/reference-error", err.Error(), replay)
			return
		}
		before := vfDetMarshal(msg)
		var terr error
		for _, tr := range []Translator{nsTr, saTr} {
			if r.Response {
				_, terr = tr.TranslateResponse(msg)
			} else {
				_, terr = tr.TranslateRequest(msg)
			}
			if terr != nil && tr == nsTr {
				res.Violate("frame/translator-error/"+sig, fmt.Sprintf("%s %s: %v", r, where, terr), replay)
				return
			}
		}
		atomic.AddInt64(&evals, 1)
		if refMatched {
			atomic.AddInt64(&nontrivial, 1)
		}
		if eq, cerr := vrt.CanonEqual(msg, ref); cerr != nil || !eq {
			res.Violate("frame/other-field-changed/"+cls+"/"+sig, fmt.Sprintf("%s %s, value class %s (%q): result differs from the reference (only exact matches of %v may change)\n got:  %.500v\n want: %.500v", r, where, cls, classes[cls], mapping, msg, ref), replay)
			return
		}
		if !refMatched {
			atomic.AddInt64(&unchangedChecked, 1)
			if after := vfDetMarshal(msg); !bytes.Equal(before, after) {
				res.Violate("frame/unmatched-message-rewritten/"+cls+"/"+sig, fmt.Sprintf("%s %s, value class %s: nothing to map, but the encoded message changed (a blob was re-encoded or a field rewritten)", r, where, cls), replay)
			}
		}
	}
	clsNames := vfSortedKeys(classes)
	vfParallel(len(jobs), func(i int) {
		j := jobs[i]
		for _, cls := range clsNames {
			v := classes[cls]
			if j.root.Response {
				// mirror the classes for the response direction
				v = strings.Replace(v, "local", "remote#", 1)
				v = strings.Replace(v, "remote-ns", "local-ns", 1)
				v = strings.Replace(v, "remote#", "remote", 1)
			}
			msg := vfBuildAt(j.root, j.path, v, false)
			frame(j.root, msg, cls, vrt.PathSignature(j.path), "path "+j.path.String(), map[string]any{"root": j.root.String(), "path": j.path.String(), "class": cls})
			// histories: the mapped name with an event of a type that carries no namespace before / after the event on the path
			if cls == "mapped" && (vrt.PathEventType(j.path) != "" || vrt.PathBlobField(j.path) != "") {
				pads := []string{"skippable-event-before", "skippable-event-after"}
				if vrt.PathBlobField(j.path) != "" {
					// a batch with nothing to map before / after the batch that holds the mapped name; the batch JSON-encoded
					pads = append(pads, "unmatched-batch-before", "unmatched-batch-after", "json-encoded-blob", "empty-batch-before")
				}
				for _, pad := range pads {
					msg := vfBuildAtPadded(j.root, j.path, v, pad)
					frame(j.root, msg, cls+"/"+pad, vrt.PathSignature(j.path), "path "+j.path.String()+" ("+pad+")", map[string]any{"root": j.root.String(), "path": j.path.String(), "class": cls, "pad": pad})
				}
			}
		}
	})
	for _, listLen := range []int{1, 2} {
		vrt.PopulateListLen = listLen
		vfParallel(len(roots), func(i int) {
			r := roots[i]
			for _, cls := range clsNames {
				v := classes[cls]
				if r.Response {
					v = strings.Replace(v, "local", "remote#", 1)
					v = strings.Replace(v, "remote-ns", "local-ns", 1)
					v = strings.Replace(v, "remote#", "remote", 1)
				}
				msg := vrt.PopulateNames(r.MD, v)
				frame(r, msg, cls, "fully-populated:"+string(r.MD.Name()), fmt.Sprintf("fully populated (%d element(s) per repeated field)", listLen), map[string]any{"root": r.String(), "path": "(all)", "class": cls, "list_len": listLen})
			}
		})
	}
	vrt.PopulateListLen = 1

	// (b) exactly-once and round trip -----------------------------------------------------------------
	maxPairs := 2
	if vrt.Thorough() {
		maxPairs = 3
	}
	letters := []string{"a", "b", "c", "d"}
	mappings := vfOneToOneMappings(letters, maxPairs)
	// roots that can carry a namespace name at all
	var nsRoots []vfRoot
	for _, r := range roots {
		if !r.Response && len(vrt.EnumeratePaths(r.MD, vrt.IsNamespaceNameField, vrt.WalkOptions{MaxPerType: 1, ThroughBlobs: true})) > 0 {
			nsRoots = append(nsRoots, r)
		}
	}
	if !vrt.Thorough() {
		// quick: the roots with the richest structure (histories, blobs, links, failures) + a stride over the rest
		var sel []vfRoot
		for i, r := range nsRoots {
			n := string(r.MD.Name())
			if strings.Contains(n, "History") || strings.Contains(n, "Poll") || strings.Contains(n, "Stream") || strings.Contains(n, "Respond") || strings.Contains(n, "Import") || i%6 == 0 {
				sel = append(sel, r)
			}
		}
		nsRoots = sel
	}
	var rtCases int64
	names := []string{"a", "b", "c", "d", "e"}
	// pre-built messages per (root, name) - requests and the response type of the same method
	type rootPair struct{ req, resp vfRoot }
	var pairs []rootPair
	for _, r := range nsRoots {
		for _, q := range roots {
			if q.Full == r.Full && q.Response {
				pairs = append(pairs, rootPair{r, q})
			}
		}
	}
	vfParallel(len(mappings), func(mi int) {
		m := mappings[mi]
		inv := vfInverse(m)
		tr := NewNamespaceNameTranslator(log.NewNoopLogger(), m, inv)
		dom, rng := map[string]bool{}, map[string]bool{}
		for k, v := range m {
			dom[k] = true
			rng[v] = true
		}
		for _, rp := range pairs {
			for _, x := range names {
				for _, r := range []vfRoot{rp.req, rp.resp} {
					msg := vrt.PopulateNames(r.MD, x)
					orig := proto.Clone(msg)
					ref := proto.Clone(msg)
					_, _ = vrt.RefTranslateNames(ref, m)
					if _, err := tr.TranslateRequest(msg); err != nil {
						continue
					}
					atomic.AddInt64(&rtCases, 1)
					replay := map[string]any{"root": r.String(), "mapping": m, "name": x}
					if eq, _ := vrt.CanonEqual(msg, ref); !eq {
						res.Violate("roundtrip/not-applied-exactly-once:"+string(r.MD.Name()), fmt.Sprintf("%s, mapping {%s}, every namespace field = %q: one request-direction translation does not equal applying the mapping exactly once\n got:  %.400v\n want: %.400v", r, vfMapString(m), x, msg, ref), replay)
						continue
					}
					if dom[x] || (!dom[x] && !rng[x]) {
						if _, err := tr.TranslateResponse(msg); err != nil {
							continue
						}
						if eq, _ := vrt.CanonEqual(msg, orig); !eq {
							res.Violate("roundtrip/not-restored:"+string(r.MD.Name()), fmt.Sprintf("%s, mapping {%s}, name %q: response∘request does not restore the original message", r, vfMapString(m), x), replay)
						}
					}
				}
			}
		}
	})
	// (b2) search-attribute keys: all one-to-one mappings over {a,b,c,d} (swaps, chains, cycles) x every key set
	// whose unmapped keys do not collide with the image of its mapped keys, typed container and bare map: one
	// translation equals the simultaneous renaming (values follow their keys), the inverse restores the original
	var saCases int64
	saMappings := vfOneToOneMappings(letters, len(letters))
	vfParallel(len(saMappings), func(mi int) {
		m := saMappings[mi]
		inv := vfInverse(m)
		tr := NewSearchAttributeTranslator(log.NewNoopLogger(), map[string]map[string]string{"ns-id": m}, map[string]map[string]string{"ns-id": inv})
		for mask := 1; mask < 1<<len(letters); mask++ {
			var keys []string
			for i, l := range letters {
				if mask&(1<<i) != 0 {
					keys = append(keys, l)
				}
			}
			present := map[string]bool{}
			for _, k := range keys {
				present[k] = true
			}
			collide, reversible := false, true
			for _, k := range keys {
				if img, ok := m[k]; ok {
					if _, mapped := m[img]; present[img] && !mapped {
						collide = true
					}
				} else if _, inRange := inv[k]; inRange {
					reversible = false
				}
			}
			if collide {
				continue
			}
			for _, form := range []string{"typed", "bare-map"} {
				fields := map[string]*commonpb.Payload{}
				for _, k := range keys {
					fields[k] = &commonpb.Payload{Metadata: map[string][]byte{"encoding": []byte("json/plain")}, Data: []byte("\"value of " + k + "\"")}
				}
				var msg proto.Message
				if form == "typed" {
					msg = &workflowservice.StartWorkflowExecutionRequest{WorkflowId: "wf", SearchAttributes: &commonpb.SearchAttributes{IndexedFields: fields}}
				} else {
					msg = &adminservice.DescribeMutableStateResponse{DatabaseMutableState: &persistencespb.WorkflowMutableState{ExecutionInfo: &persistencespb.WorkflowExecutionInfo{WorkflowId: "wf", SearchAttributes: fields}}}
				}
				orig := proto.Clone(msg)
				ref := proto.Clone(msg)
				if _, err := vrt.RefTranslateSA(ref, m); err != nil {
					res.Violate("harness/reference-error", err.Error(), nil)
					continue
				}
				replay := map[string]any{"sa_mapping": m, "keys": keys, "form": form}
				atomic.AddInt64(&saCases, 1)
				if _, err := tr.TranslateRequest(msg); err != nil {
					res.Violate("sa-mapping/translator-error", fmt.Sprintf("mapping {%s}, keys %v, %s: %v", vfMapString(m), keys, form, err), replay)
					continue
				}
				if eq, _ := vrt.CanonEqual(msg, ref); !eq {
					res.Violate("sa-mapping/not-applied-exactly-once/"+form, fmt.Sprintf("search-attribute mapping {%s}, keys %v (%s): one translation does not equal renaming every mapped key once, values following their keys\n got:  %v\n want: %v", vfMapString(m), keys, form, vrt.SAKeys(msg), vrt.SAKeys(ref)), replay)
					continue
				}
				if reversible {
					if _, err := tr.TranslateResponse(msg); err == nil {
						if eq, _ := vrt.CanonEqual(msg, orig); !eq {
							res.Violate("sa-mapping/not-restored/"+form, fmt.Sprintf("search-attribute mapping {%s}, keys %v (%s): response∘request does not restore the original keys\n got:  %v\n want: %v", vfMapString(m), keys, form, vrt.SAKeys(msg), vrt.SAKeys(orig)), replay)
						}
					}
				}
			}
		}
	})
	// (e) streams: what the stream interceptor hands on. On an ordinary replication stream the messages the handler
	// sends are translated in the response direction, exactly once; a stream that a peer proxy instance forwards
	// (intra-proxy marker) is left alone - it has been, or will be, translated on the hop that faces the cluster - for
	// every one-to-one mapping, chains (a->b, b->c) included, where translating twice shows.
	var streamCases int64
	streamRoot := vfRoot{}
	for _, r := range roots {
		if r.Response && string(r.MD.Name()) == "StreamWorkflowReplicationMessagesResponse" {
			streamRoot = r
		}
	}
	if streamRoot.MD != nil {
		info := &grpc.StreamServerInfo{FullMethod: streamRoot.Full, IsClientStream: true, IsServerStream: true}
		for _, m := range mappings {
			inv := vfInverse(m)
			ti := NewTranslationInterceptor(log.NewNoopLogger(), []Translator{NewNamespaceNameTranslator(log.NewNoopLogger(), m, inv)})
			for _, x := range names {
				for _, intra := range []bool{false, true} {
					msg := vrt.PopulateNames(streamRoot.MD, x)
					want := proto.Clone(msg)
					if !intra {
						_, _ = vrt.RefTranslateNames(want, inv)
					}
					ctx := context.Background()
					if intra {
						ctx = metadata.NewIncomingContext(ctx, metadata.Pairs(common.IntraProxyHeaderKey, common.IntraProxyHeaderValue, common.IntraProxyOriginProxyIDHeader, "peer-proxy", common.IntraProxyHopCountHeader, "1"))
					}
					fs := &vfFakeServerStream{ctx: ctx}
					_ = ti.InterceptStream(nil, fs, info, func(_ any, ss grpc.ServerStream) error { return ss.SendMsg(msg) })
					streamCases++
					replay := map[string]any{"mapping": m, "name": x, "intra_proxy": intra}
					if len(fs.sent) != 1 {
						res.Violate("stream/message-not-handed-on", fmt.Sprintf("mapping {%s}, name %q, intra-proxy=%v: %d messages reached the stream", vfMapString(m), x, intra, len(fs.sent)), replay)
						continue
					}
					if eq, _ := vrt.CanonEqual(fs.sent[0], want); !eq {
						sig := "stream/not-translated-exactly-once"
						if intra {
							sig = "stream/intra-proxy-stream-translated"
						}
						res.Violate(sig, fmt.Sprintf("mapping {%s}, every namespace field = %q, intra-proxy marker %v: the message handed to the stream differs from the expected one (ordinary stream: the response mapping applied once; forwarded stream: untouched)\n got:  %.300v\n want: %.300v", vfMapString(m), x, intra, fs.sent[0], want), replay)
					}
				}
			}
		}
	}
	res.Set("stream_cases", streamCases)
	res.Set("sa_mapping_cases", saCases)
	res.Set("evaluations", evals+rtCases+saCases+streamCases)
	res.Set("distinct_nontrivial", nontrivial+rtCases/2+saCases)
	res.Set("frame_cases", evals)
	res.Set("frame_cases_checked_byte_identical", unchangedChecked)
	res.Set("roundtrip_cases", rtCases)
	res.Set("mappings", int64(len(mappings)))
	res.Set("roundtrip_roots", int64(len(pairs)))
	sort.Strings(clsNames)
	res.Set("rule", fmt.Sprintf("(a) every namespace path of every root x value classes %v (mirrored for the response direction) + fully populated message per root and class, through the namespace and search-attribute translators in the proxy's order; (b) all %d one-to-one mappings over {a,b,c,d} with <= %d pairs (identity pairs and chains a->b,b->c included) x %d method request/response pairs x names a..e: one translation equals the reference applied once, and response∘request restores the message when the name is in the domain or outside domain and range; (b2) all one-to-one search-attribute mappings over {a,b,c,d} (swaps, chains, cycles) x every non-colliding key set x {typed container, bare map}; non-trivial = the reference changes something", clsNames, len(mappings), maxPairs, len(pairs)))
	res.Set("exhaustive", true)
	res.Sample(map[string]any{"mapping": mappings[len(mappings)/2], "name": "a"})
	res.Sample(map[string]any{"class": "proper-prefix", "root": jobs[0].root.String(), "path": jobs[0].path.String()})
	res.Assume("a name that is only in the range of the mapping (e.g. c under {a->b, b->c}) is ambiguous by configuration; round trip is not asserted for it")
}
