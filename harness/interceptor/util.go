//go:build verif

package interceptor

import (
	"encoding/json"
	"os"
)

func vfReadJSON(path string, v any) error {
	raw, err := os.ReadFile(path)
	if err != nil {
		return err
	}
	return json.Unmarshal(raw, v)
}
