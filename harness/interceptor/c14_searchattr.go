//go:build verif

package interceptor

// C14: search-attribute keys are renamed consistently and values are untouched.

import (
	"context"
	"fmt"
	"sync/atomic"
	"testing"

	"go.temporal.io/server/common/log"
	"google.golang.org/grpc"
	"google.golang.org/protobuf/proto"
	"google.golang.org/protobuf/reflect/protoreflect"

	vrt "github.com/temporalio/s2s-proxy/internal/verifrt"
)

func vfNewSATranslator() Translator {
	// the maps the proxy builds for one server: requests local->remote, responses remote->local
	req := map[string]map[string]string{"ns-id": {"local-attr": "remote-attr", "local-attr-2": "remote-attr-2"}}
	resp := map[string]map[string]string{"ns-id": {"remote-attr": "local-attr", "remote-attr-2": "local-attr-2"}}
	return NewSearchAttributeTranslator(log.NewNoopLogger(), req, resp)
}

func TestVerifC14(t *testing.T) {
	res := vrt.NewResult("C14", "exploration")
	defer func() {
		if err := res.Write(); err != nil {
			t.Fatal(err)
		}
	}()
	tr := vfNewSATranslator()
	reqMapping := map[string]string{"local-attr": "remote-attr", "local-attr-2": "remote-attr-2"}
	respMapping := map[string]string{"remote-attr": "local-attr", "remote-attr-2": "local-attr-2"}
	type job struct {
		root vfRoot
		path vrt.Path
	}
	var jobs []job
	var wfRoots []vfRoot
	for _, r := range vfRoots() {
		if r.Service != "AdminService" {
			wfRoots = append(wfRoots, r)
			continue
		}
		for _, p := range vrt.EnumeratePaths(r.MD, vrt.IsSAContainer, vrt.WalkOptions{MaxPerType: vfMaxPerType(), ThroughBlobs: true}) {
			jobs = append(jobs, job{r, p})
		}
	}
	var evals, nontrivial, blobPaths int64
	setNames := vfSortedKeys(vrt.SAKeySets)
	vfParallel(len(jobs), func(i int) {
		j := jobs[i]
		if vrt.PathBlobField(j.path) != "" {
			atomic.AddInt64(&blobPaths, 1)
		}
		mapping, side := reqMapping, "local"
		if j.root.Response {
			mapping, side = respMapping, "remote"
		}
		// paths through a serialized batch are also presented with the batch JSON-encoded (Temporal's serializer reads
		// proto3 and JSON alike)
		encodings := []bool{false}
		if vrt.PathBlobField(j.path) != "" {
			encodings = append(encodings, true)
		}
		// paths through history events: also with a second event whose search attributes hold nothing to rename, before
		// and after the event on the path
		type variant struct {
			asJSON bool
			pad    string
		}
		var variants []variant
		for _, asJSON := range encodings {
			variants = append(variants, variant{asJSON, ""})
		}
		if vrt.PathEventType(j.path) != "" {
			variants = append(variants, variant{false, "unmapped-container-before"}, variant{false, "unmapped-container-after"})
		}
		for _, vr := range variants {
			asJSON, pad := vr.asJSON, vr.pad
			for _, sn := range append(setNames, "absent") {
				if pad != "" && sn != "mapped-only" && sn != "mixed" {
					continue
				}
				bo := vrt.BuildOpts{Decorate: vrt.DecorateEvent, BlobJSON: asJSON}
				switch pad {
				case "unmapped-container-before":
					bo.Pad = vrt.PadUnmappedSAEvent
				case "unmapped-container-after":
					bo.PadAfter = vrt.PadUnmappedSAEvent
				}
				bo.SetLeaf = func(m protoreflect.Message, leaf protoreflect.FieldDescriptor) {
					switch sn {
					case "absent":
						// container left nil; keep the parent non-empty so the path exists up to here
					case "empty-map":
						if !leaf.IsMap() {
							m.Mutable(leaf) // empty SearchAttributes message, nil map
						}
					default:
						vrt.SetSA(m, leaf, vrt.SAKeySets[sn], side)
					}
				}
				msg := vrt.BuildForPath(j.root.MD, j.path, bo)
				replay := map[string]any{"root": j.root.String(), "path": j.path.String(), "keys": sn, "json_encoded_blob": asJSON, "pad": pad}
				ref := proto.Clone(msg)
				refMatched, err := vrt.RefTranslateSA(ref, mapping)
				if err != nil {
					res.Violate("harness/reference-error", err.Error(), replay)
					continue
				}
				before := proto.Clone(msg)
				var matched bool
				if j.root.Response {
					matched, err = tr.TranslateResponse(msg)
				} else {
					matched, err = tr.TranslateRequest(msg)
				}
				atomic.AddInt64(&evals, 1)
				if refMatched {
					atomic.AddInt64(&nontrivial, 1)
				}
				sig := vrt.PathSignature(j.path) + "/keys=" + sn
				if asJSON {
					sig += "/json-encoded-blob"
				}
				if pad != "" {
					sig += "/" + pad
				}
				if err != nil {
					res.Violate("sa-translator-error/"+sig, fmt.Sprintf("%s path %s keys %s: %v", j.root, j.path, sn, err), replay)
					continue
				}
				eq, cerr := vrt.CanonEqual(msg, ref)
				if cerr != nil || !eq {
					res.Violate("sa-keys-wrong/"+sig, fmt.Sprintf("%s path %s key set %s: containers after translation %v, reference %v (before: %v) err=%v", j.root, j.path, sn, vrt.SAKeys(msg), vrt.SAKeys(ref), vrt.SAKeys(before), cerr), replay)
					continue
				}
				if matched != refMatched {
					res.Violate("sa-changed-flag/"+sig, fmt.Sprintf("%s path %s key set %s: matched=%v reference %v", j.root, j.path, sn, matched, refMatched), replay)
				}
			}
		}
	})
	// exclusion: workflow-service methods are not matched, and the interceptor leaves their messages alone
	ti := NewTranslationInterceptor(log.NewNoopLogger(), []Translator{tr})
	var excl int64
	for _, r := range wfRoots {
		if tr.MatchMethod(r.Full) {
			res.Violate("sa-workflowservice-not-excluded/match-method", fmt.Sprintf("MatchMethod(%s) = true", r.Full), map[string]any{"root": r.String()})
		}
		paths := vrt.EnumeratePaths(r.MD, vrt.IsSAContainer, vrt.WalkOptions{MaxPerType: vfMaxPerType(), ThroughBlobs: true})
		for _, p := range paths {
			// aliases spelled exactly like mapped keys of the direction that would apply
			side := "local"
			if r.Response {
				side = "remote"
			}
			msg := vrt.BuildForPath(r.MD, p, vrt.BuildOpts{Decorate: vrt.DecorateEvent, SetLeaf: func(m protoreflect.Message, leaf protoreflect.FieldDescriptor) {
				vrt.SetSA(m, leaf, vrt.SAKeySets["mixed"], side)
			}})
			before := proto.Clone(msg)
			var got proto.Message
			if r.Response {
				out, _ := ti.Intercept(context.Background(), nil, &grpc.UnaryServerInfo{FullMethod: r.Full}, func(context.Context, any) (any, error) { return msg, nil })
				got, _ = out.(proto.Message)
			} else {
				_, _ = ti.Intercept(context.Background(), msg, &grpc.UnaryServerInfo{FullMethod: r.Full}, func(_ context.Context, q any) (any, error) {
					got = proto.Clone(q.(proto.Message))
					return nil, nil
				})
			}
			excl++
			if got == nil || !proto.Equal(got, before) {
				res.Violate("sa-workflowservice-not-excluded/"+vrt.PathSignature(p), fmt.Sprintf("%s path %s: a workflow-service message was changed by the search-attribute translator: %v -> %v", r, p, vrt.SAKeys(before), vrt.SAKeys(got)),
					map[string]any{"root": r.String(), "path": p.String()})
			}
		}
	}
	res.Set("evaluations", evals+excl)
	res.Set("distinct_nontrivial", nontrivial)
	res.Set("paths_to_containers_admin", int64(len(jobs)))
	res.Set("paths_through_blobs", blobPaths)
	res.Set("workflowservice_exclusion_cases", excl)
	res.Set("rule", "every structural path from an AdminService request/response/stream message to a search-attribute container (field of type SearchAttributes, or map<string,Payload> named search_attributes), directly and through event-bearing blobs, x key sets {mapped only, unmapped only, mixed (8 keys), empty, absent}; for every WorkflowService message every such path with keys spelled like mapped keys through the interceptor; non-trivial = the reference renames a key")
	res.Set("exhaustive", true)
	if len(jobs) > 0 {
		res.Sample(map[string]any{"root": jobs[0].root.String(), "path": jobs[0].path.String()})
		res.Sample(map[string]any{"root": jobs[len(jobs)-1].root.String(), "path": jobs[len(jobs)-1].path.String()})
	}
	res.Assume("unmapped keys never equal a mapping target (the statement's precondition)")
	res.Assume("Go randomises map iteration order inside translateIndexedFields; the mixed key set has 8 keys so that an order-dependent defect shows on some of the hundreds of evaluations, but that order is not enumerated")
}
