//go:build verif

package interceptor

// Shared pieces of the descriptor-driven checks (C12, C13a/b, C14, C16 request side).

import (
	"fmt"
	"sort"
	"strings"
	"sync"

	"go.temporal.io/api/workflowservice/v1"
	"go.temporal.io/server/api/adminservice/v1"
	"google.golang.org/protobuf/proto"
	"google.golang.org/protobuf/reflect/protoreflect"
	"google.golang.org/protobuf/reflect/protoregistry"

	vrt "github.com/temporalio/s2s-proxy/internal/verifrt"
)

type vfRoot struct {
	Service  string
	Method   string
	Full     string // /pkg.Service/Method
	Response bool
	MD       protoreflect.MessageDescriptor
}

func (r vfRoot) String() string {
	k := "Request"
	if r.Response {
		k = "Response"
	}
	return fmt.Sprintf("%s.%s %s (%s)", r.Service, r.Method, k, r.MD.Name())
}

var vfRootsOnce sync.Once
var vfRootList []vfRoot

// vfRoots: request and response type of every method of both proxied services.
func vfRoots() []vfRoot {
	vfRootsOnce.Do(func() {
		for _, sd := range []protoreflect.ServiceDescriptor{
			adminservice.File_temporal_server_api_adminservice_v1_service_proto.Services().ByName("AdminService"),
			workflowservice.File_temporal_api_workflowservice_v1_service_proto.Services().ByName("WorkflowService"),
		} {
			ms := sd.Methods()
			for i := 0; i < ms.Len(); i++ {
				m := ms.Get(i)
				full := fmt.Sprintf("/%s/%s", sd.FullName(), m.Name())
				vfRootList = append(vfRootList, vfRoot{string(sd.Name()), string(m.Name()), full, false, m.Input()},
					vfRoot{string(sd.Name()), string(m.Name()), full, true, m.Output()})
			}
		}
	})
	return vfRootList
}

// vfIsNamespaceNameField: the reference definition of "a field that carries a namespace name", by
// protobuf descriptor (not by Go field name): a singular string field named namespace or *_namespace, and
// NamespaceInfo.name. (*_namespace_id fields are ids, not names.)
func vfIsNamespaceNameField(fd protoreflect.FieldDescriptor) bool {
	if fd.Kind() != protoreflect.StringKind || fd.IsList() || fd.IsMap() {
		return false
	}
	n := string(fd.Name())
	if n == "namespace" || strings.HasSuffix(n, "_namespace") {
		return true
	}
	return fd.FullName() == "temporal.api.namespace.v1.NamespaceInfo.name"
}

var vfEventTypeEnum protoreflect.EnumDescriptor

func vfEventTypeFor(attrField protoreflect.FieldDescriptor) (protoreflect.EnumNumber, bool) {
	if vfEventTypeEnum == nil {
		et, err := protoregistry.GlobalTypes.FindEnumByName("temporal.api.enums.v1.EventType")
		if err != nil {
			panic(err)
		}
		vfEventTypeEnum = et.Descriptor()
	}
	n := string(attrField.Name())
	if !strings.HasSuffix(n, "_event_attributes") {
		return 0, false
	}
	name := "EVENT_TYPE_" + strings.ToUpper(strings.TrimSuffix(n, "_event_attributes"))
	v := vfEventTypeEnum.Values().ByName(protoreflect.Name(name))
	if v == nil {
		return 0, false
	}
	return v.Number(), true
}

const vfHistoryEventName = protoreflect.FullName("temporal.api.history.v1.HistoryEvent")

// vfDecorateEvent keeps HistoryEvent.event_type consistent with the attributes arm the path goes through
// (real events always are); for paths through other fields of an event (links) it uses a type that is on
// the skip list, the hardest case for the shortcut.
func vfDecorateEvent(m protoreflect.Message, next protoreflect.FieldDescriptor) {
	if m.Descriptor().FullName() != vfHistoryEventName {
		return
	}
	etField := m.Descriptor().Fields().ByName("event_type")
	if n, ok := vfEventTypeFor(next); ok {
		m.Set(etField, protoreflect.ValueOfEnum(n))
	} else {
		m.Set(etField, protoreflect.ValueOfEnum(6)) // EVENT_TYPE_WORKFLOW_TASK_STARTED, skippable
	}
	m.Set(m.Descriptor().Fields().ByName("event_id"), protoreflect.ValueOfInt64(5))
}

// vfPadSkippableEvent puts a skippable event in front of the event that carries the path.
func vfPadSkippableEvent(f protoreflect.FieldDescriptor) protoreflect.Message {
	if f.Message().FullName() != vfHistoryEventName {
		return nil
	}
	ev := vrt.NewMessage(f.Message())
	ev.Set(f.Message().Fields().ByName("event_type"), protoreflect.ValueOfEnum(6))
	ev.Set(f.Message().Fields().ByName("event_id"), protoreflect.ValueOfInt64(4))
	return ev
}

// vfPathEventType returns the name of the event type a path goes through ("" if none).
func vfPathEventType(p vrt.Path) string {
	et := ""
	for i, st := range p {
		if st.Field.ContainingMessage().FullName() == vfHistoryEventName {
			if n, ok := vfEventTypeFor(st.Field); ok {
				et = string(vfEventTypeEnum.Values().ByNumber(n).Name())
			} else if i < len(p) {
				et = "(non-attribute field " + string(st.Field.Name()) + ")"
			}
		}
	}
	return et
}

func vfPathBlobField(p vrt.Path) string {
	b := ""
	for _, st := range p {
		if st.Blob {
			b = string(st.Field.FullName())
		}
	}
	return b
}

// vfPathSignature is a root-independent description of where a path ends, for violation signatures.
func vfPathSignature(p vrt.Path) string {
	var parts []string
	if b := vfPathBlobField(p); b != "" {
		parts = append(parts, "blob="+b)
	}
	if et := vfPathEventType(p); et != "" {
		parts = append(parts, "event="+et)
	}
	// the tail after the last HistoryEvent attribute arm (or the last 2 steps)
	tailFrom := len(p) - 2
	for i, st := range p {
		if st.Field.ContainingMessage().FullName() == vfHistoryEventName {
			tailFrom = i + 1
		}
	}
	if tailFrom < 0 {
		tailFrom = 0
	}
	if tailFrom > len(p)-1 {
		tailFrom = len(p) - 1
	}
	var tail []string
	for _, st := range p[tailFrom:] {
		tail = append(tail, string(st.Field.Name()))
	}
	parts = append(parts, "leaf="+string(p.Leaf().ContainingMessage().Name())+"."+strings.Join(tail, "."))
	return strings.Join(parts, "/")
}

// vfRefTranslateNames is the reference translation: every namespace-name field whose value is a key of
// mapping gets the mapped value; returns whether any such field was found ("matched").
func vfRefTranslateNames(m proto.Message, mapping map[string]string) (bool, error) {
	return vrt.Visit(m.ProtoReflect(), true, func(c protoreflect.Message, fd protoreflect.FieldDescriptor) bool {
		if !vfIsNamespaceNameField(fd) {
			return false
		}
		old := c.Get(fd).String()
		nv, ok := mapping[old]
		if !ok {
			return false
		}
		if nv != old {
			c.Set(fd, protoreflect.ValueOfString(nv))
		}
		return true
	})
}

func vfCanonEqual(a, b proto.Message) (bool, error) {
	ca, cb := proto.Clone(a), proto.Clone(b)
	if err := vrt.CanonicalizeBlobs(ca); err != nil {
		return false, err
	}
	if err := vrt.CanonicalizeBlobs(cb); err != nil {
		return false, err
	}
	return proto.Equal(ca, cb), nil
}

func vfSortedKeys[V any](m map[string]V) []string {
	ks := make([]string, 0, len(m))
	for k := range m {
		ks = append(ks, k)
	}
	sort.Strings(ks)
	return ks
}

// vfParallel runs f(i) for i in [0,n) on all cores.
func vfParallel(n int, f func(i int)) {
	var wg sync.WaitGroup
	next := make(chan int, 256)
	for w := 0; w < vrt.Workers(); w++ {
		wg.Add(1)
		go func() {
			defer wg.Done()
			for i := range next {
				f(i)
			}
		}()
	}
	for i := 0; i < n; i++ {
		next <- i
	}
	close(next)
	wg.Wait()
}
