//go:build verif

package interceptor

// Shared pieces of the descriptor-driven checks (C12, C13a/b, C14, C16 request side).

import (
	"fmt"
	"sort"
	"sync"

	"go.temporal.io/api/workflowservice/v1"
	"go.temporal.io/server/api/adminservice/v1"
	"google.golang.org/protobuf/reflect/protoreflect"

	vrt "github.com/temporalio/s2s-proxy/internal/verifrt"
)

type vfRoot struct {
	Service  string
	Method   string
	Full     string // /pkg.Service/Method
	Response bool
	MD       protoreflect.MessageDescriptor
}

func (r vfRoot) String() string {
	k := "Request"
	if r.Response {
		k = "Response"
	}
	return fmt.Sprintf("%s.%s %s (%s)", r.Service, r.Method, k, r.MD.Name())
}

var vfRootsOnce sync.Once
var vfRootList []vfRoot

// vfRoots: request and response type of every method of both proxied services.
func vfRoots() []vfRoot {
	vfRootsOnce.Do(func() {
		for _, sd := range []protoreflect.ServiceDescriptor{
			adminservice.File_temporal_server_api_adminservice_v1_service_proto.Services().ByName("AdminService"),
			workflowservice.File_temporal_api_workflowservice_v1_service_proto.Services().ByName("WorkflowService"),
		} {
			ms := sd.Methods()
			for i := 0; i < ms.Len(); i++ {
				m := ms.Get(i)
				full := fmt.Sprintf("/%s/%s", sd.FullName(), m.Name())
				vfRootList = append(vfRootList, vfRoot{string(sd.Name()), string(m.Name()), full, false, m.Input()},
					vfRoot{string(sd.Name()), string(m.Name()), full, true, m.Output()})
			}
		}
	})
	return vfRootList
}

func vfSortedKeys[V any](m map[string]V) []string {
	ks := make([]string, 0, len(m))
	for k := range m {
		ks = append(ks, k)
	}
	sort.Strings(ks)
	return ks
}

// vfParallel runs f(i) for i in [0,n) on all cores.
func vfParallel(n int, f func(i int)) {
	var wg sync.WaitGroup
	next := make(chan int, 256)
	for w := 0; w < vrt.Workers(); w++ {
		wg.Add(1)
		go func() {
			defer wg.Done()
			for i := range next {
				f(i)
			}
		}()
	}
	for i := 0; i < n; i++ {
		next <- i
	}
	close(next)
	wg.Wait()
}

// vfMaxPerType: how often one message type may occur on an enumerated path (thorough: one more level of self-nesting -
// failure causes, links, nested histories).
func vfMaxPerType() int {
	if vrt.Thorough() {
		return 4
	}
	return 2
}
