//go:build verif

package encryption

// C19: full cross product peer credential x configuration x role on in-memory handshakes with the real
// tls.Config objects the proxy builds. Certificates are minted at run time.

import (
	"crypto/tls"
	"crypto/x509"
	"fmt"
	"net"
	"os"
	"path/filepath"
	"testing"
	"time"

	"go.temporal.io/server/common/log"

	vrt "github.com/temporalio/s2s-proxy/internal/verifrt"
)

// vfHandshake runs a handshake and one application byte in each direction over an in-memory pipe;
// returns whether BOTH ends completed everything.
func vfHandshake(serverCfg, clientCfg *tls.Config) (ok bool, serverErr, clientErr error) {
	// loopback TCP (kernel-buffered): net.Pipe is unbuffered, so an alert written while the peer is itself
	// writing would block both ends until the deadline
	ln, lerr := net.Listen("tcp", "127.0.0.1:0")
	if lerr != nil {
		return false, lerr, lerr
	}
	defer ln.Close()
	accepted := make(chan net.Conn, 1)
	go func() {
		c, err := ln.Accept()
		if err != nil {
			close(accepted)
			return
		}
		accepted <- c
	}()
	b, derr := net.Dial("tcp", ln.Addr().String())
	if derr != nil {
		return false, derr, derr
	}
	a, okc := <-accepted
	if !okc {
		b.Close()
		return false, fmt.Errorf("accept failed"), fmt.Errorf("accept failed")
	}
	defer a.Close()
	defer b.Close()
	deadline := time.Now().Add(60 * time.Second)
	_ = a.SetDeadline(deadline)
	_ = b.SetDeadline(deadline)
	srvDone := make(chan error, 1)
	go func() {
		s := tls.Server(a, serverCfg)
		if err := s.Handshake(); err != nil {
			a.Close()
			srvDone <- err
			return
		}
		buf := make([]byte, 1)
		if _, err := s.Read(buf); err != nil {
			a.Close()
			srvDone <- err
			return
		}
		_, err := s.Write([]byte{'s'})
		srvDone <- err
	}()
	c := tls.Client(b, clientCfg)
	clientErr = c.Handshake()
	if clientErr == nil {
		if _, clientErr = c.Write([]byte{'c'}); clientErr == nil {
			buf := make([]byte, 1)
			_, clientErr = c.Read(buf)
		}
	}
	if clientErr != nil {
		b.Close()
	}
	serverErr = <-srvDone
	return serverErr == nil && clientErr == nil, serverErr, clientErr
}

func TestVerifC19(t *testing.T) {
	res := vrt.NewResult("C19", "exploration")
	defer func() {
		if err := res.Write(); err != nil {
			t.Fatal(err)
		}
	}()
	dir := os.Getenv("VERIF_WORKDIR")
	if dir == "" {
		dir = t.TempDir()
	}
	dir = filepath.Join(dir, "certs")
	_ = os.MkdirAll(dir, 0o755)
	ca1 := vrt.NewCA(dir, "ca-configured")
	ca2 := vrt.NewCA(dir, "ca-other")
	// the host's system trust store is made observable: it holds exactly one throw-away "public" CA, so a configuration
	// that silently falls back to the system roots admits the peers signed by it (the store is read once per process,
	// at the first verification without an explicit pool)
	sysDir := filepath.Join(dir, "system-roots-empty-dir")
	_ = os.MkdirAll(sysDir, 0o755)
	sysCA := vrt.NewCA(dir, "ca-host-system-store")
	_ = os.Setenv("SSL_CERT_FILE", sysCA.Path)
	_ = os.Setenv("SSL_CERT_DIR", sysDir)
	both := []x509.ExtKeyUsage{x509.ExtKeyUsageClientAuth, x509.ExtKeyUsageServerAuth}
	const serverName = "server.verif.test"
	proxyCert := vrt.NewLeaf(dir, vrt.LeafOpts{Name: "proxy-own", Signer: ca1, DNS: []string{serverName, "proxy.verif.test"}, EKU: both})
	type cred struct {
		name    string
		leaf    *vrt.Leaf
		chainOK bool // chains to the configured CA with the right usage and validity
	}
	clientCreds := []cred{
		{"valid-chain", vrt.NewLeaf(dir, vrt.LeafOpts{Name: "client-valid", Signer: ca1, EKU: both}), true},
		{"self-signed", vrt.NewLeaf(dir, vrt.LeafOpts{Name: "client-selfsigned", EKU: both}), false},
		{"other-ca", vrt.NewLeaf(dir, vrt.LeafOpts{Name: "client-otherca", Signer: ca2, EKU: both}), false},
		{"expired", vrt.NewLeaf(dir, vrt.LeafOpts{Name: "client-expired", Signer: ca1, EKU: both, NotBefore: time.Now().Add(-48 * time.Hour), NotAfter: time.Now().Add(-24 * time.Hour)}), false},
		{"expired-30s-ago", vrt.NewLeaf(dir, vrt.LeafOpts{Name: "client-just-expired", Signer: ca1, EKU: both, NotBefore: time.Now().Add(-48 * time.Hour), NotAfter: time.Now().Add(-30 * time.Second)}), false},
		{"not-yet-valid", vrt.NewLeaf(dir, vrt.LeafOpts{Name: "client-future", Signer: ca1, EKU: both, NotBefore: time.Now().Add(24 * time.Hour), NotAfter: time.Now().Add(48 * time.Hour)}), false},
		{"wrong-usage(server-auth only)", vrt.NewLeaf(dir, vrt.LeafOpts{Name: "client-wrongusage", Signer: ca1, EKU: []x509.ExtKeyUsage{x509.ExtKeyUsageServerAuth}}), false},
		{"none", nil, false},
	}
	serverCreds := []struct {
		cred
		nameOK bool
	}{
		{cred{"valid-chain", vrt.NewLeaf(dir, vrt.LeafOpts{Name: "server-valid", Signer: ca1, DNS: []string{serverName}, EKU: both}), true}, true},
		{cred{"valid-chain-wrong-name", vrt.NewLeaf(dir, vrt.LeafOpts{Name: "server-wrongname", Signer: ca1, DNS: []string{"other.verif.test"}, EKU: both}), true}, false},
		{cred{"self-signed", vrt.NewLeaf(dir, vrt.LeafOpts{Name: "server-selfsigned", DNS: []string{serverName}, EKU: both}), false}, true},
		{cred{"other-ca", vrt.NewLeaf(dir, vrt.LeafOpts{Name: "server-otherca", Signer: ca2, DNS: []string{serverName}, EKU: both}), false}, true},
		{cred{"expired", vrt.NewLeaf(dir, vrt.LeafOpts{Name: "server-expired", Signer: ca1, DNS: []string{serverName}, EKU: both, NotBefore: time.Now().Add(-48 * time.Hour), NotAfter: time.Now().Add(-24 * time.Hour)}), false}, true},
		{cred{"expired-30s-ago", vrt.NewLeaf(dir, vrt.LeafOpts{Name: "server-just-expired", Signer: ca1, DNS: []string{serverName}, EKU: both, NotBefore: time.Now().Add(-48 * time.Hour), NotAfter: time.Now().Add(-30 * time.Second)}), false}, true},
		{cred{"valid-in-10-minutes", vrt.NewLeaf(dir, vrt.LeafOpts{Name: "server-soon-valid", Signer: ca1, DNS: []string{serverName}, EKU: both, NotBefore: time.Now().Add(10 * time.Minute), NotAfter: time.Now().Add(48 * time.Hour)}), false}, true},
		{cred{"wrong-usage(client-auth only)", vrt.NewLeaf(dir, vrt.LeafOpts{Name: "server-wrongusage", Signer: ca1, DNS: []string{serverName}, EKU: []x509.ExtKeyUsage{x509.ExtKeyUsageClientAuth}}), false}, true},
	}
	var evals, nontrivial int64
	logger := log.NewNoopLogger()

	// ---- server role: the proxy's listener (TCP gRPC credentials and the mux receiver use this config)
	for _, skip := range []bool{false, true} {
		cfgIn := TLSConfig{CertificatePath: proxyCert.CertPath, KeyPath: proxyCert.KeyPath, RemoteCAPath: ca1.Path, SkipCAVerification: skip}
		if skip {
			cfgIn.RemoteCAPath = ""
		}
		srvCfg, err := GetServerTLSConfig(cfgIn, logger)
		if err != nil || srvCfg == nil {
			res.Violate("tls/server-config-error", fmt.Sprintf("GetServerTLSConfig(%+v): %v", cfgIn, err), nil)
			continue
		}
		for _, c := range clientCreds {
			for _, insist := range []bool{false, true} {
				for _, maxVer := range []uint16{tls.VersionTLS13, tls.VersionTLS12} {
					peer := &tls.Config{RootCAs: x509.NewCertPool(), ServerName: serverName, MaxVersion: maxVer}
					peer.RootCAs.AddCert(ca1.Cert)
					if c.leaf != nil {
						if insist {
							leaf := c.leaf.TLSCert
							peer.GetClientCertificate = func(*tls.CertificateRequestInfo) (*tls.Certificate, error) { return &leaf, nil }
						} else {
							peer.Certificates = []tls.Certificate{c.leaf.TLSCert}
						}
					} else if insist {
						continue
					}
					ok, serr, cerr := vfHandshake(srvCfg, peer)
					evals++
					want := c.chainOK || skip
					if !want {
						nontrivial++
					}
					replay := map[string]any{"role": "server", "peer": c.name, "skip_verification": skip, "peer_insists": insist, "tls": maxVer}
					kind := fmt.Sprintf("verification=%v", !skip)
					if ok && !want {
						res.Violate("tls/server-admits-unauthenticated-client/"+c.name, fmt.Sprintf("listener with %s admitted a client presenting %s (peer sends its certificate regardless of the CA hint: %v, TLS %#x): handshake and application data completed on both ends", kind, c.name, insist, maxVer), replay)
					}
					if !ok && want {
						res.Violate("tls/server-refuses-legitimate-client/"+c.name, fmt.Sprintf("listener with %s refused a client presenting %s (insist=%v TLS %#x): server err %v, client err %v", kind, c.name, insist, maxVer, serr, cerr), replay)
					}
				}
			}
		}
	}
	// ---- client role: the proxy dialling out (TCP client and mux establisher use this config)
	for _, skip := range []bool{false, true} {
		for _, ownCert := range []bool{false, true} {
			cfgIn := TLSConfig{RemoteCAPath: ca1.Path, CAServerName: serverName, SkipCAVerification: skip}
			if ownCert {
				cfgIn.CertificatePath, cfgIn.KeyPath = proxyCert.CertPath, proxyCert.KeyPath
			}
			cliCfg, err := GetClientTLSConfig(cfgIn)
			if err != nil || cliCfg == nil {
				res.Violate("tls/client-config-error", fmt.Sprintf("GetClientTLSConfig(%+v): %v", cfgIn, err), nil)
				continue
			}
			for _, s := range serverCreds {
				for _, maxVer := range []uint16{tls.VersionTLS13, tls.VersionTLS12} {
					peer := &tls.Config{Certificates: []tls.Certificate{s.leaf.TLSCert}, MaxVersion: maxVer}
					c2 := cliCfg.Clone()
					c2.MaxVersion = maxVer
					ok, serr, cerr := vfHandshake(peer, c2)
					evals++
					want := (s.chainOK && s.nameOK) || skip
					if !want {
						nontrivial++
					}
					replay := map[string]any{"role": "client", "peer": s.name, "skip_verification": skip, "own_cert": ownCert, "tls": maxVer}
					if ok && !want {
						res.Violate("tls/client-accepts-unauthenticated-server/"+s.name, fmt.Sprintf("client config with verification=%v (own certificate %v) completed a connection to a server presenting %s (TLS %#x)", !skip, ownCert, s.name, maxVer), replay)
					}
					if !ok && want {
						res.Violate("tls/client-refuses-legitimate-server/"+s.name, fmt.Sprintf("client config with verification=%v refused a server presenting %s: server err %v client err %v", !skip, s.name, serr, cerr), replay)
					}
				}
			}
		}
	}
	// ---- client role, configuration shapes that leave something out while verification is NOT switched off: no
	// server name, no CA file. Either the configuration is refused, or whatever it produces still refuses every
	// server whose certificate does not chain to a trusted CA.
	for _, shape := range []struct {
		name string
		cfg  TLSConfig
	}{
		{"ca-file,no-server-name", TLSConfig{RemoteCAPath: ca1.Path}},
		{"own-cert,ca-file,no-server-name", TLSConfig{CertificatePath: proxyCert.CertPath, KeyPath: proxyCert.KeyPath, RemoteCAPath: ca1.Path}},
		{"own-cert,no-ca-file,no-server-name", TLSConfig{CertificatePath: proxyCert.CertPath, KeyPath: proxyCert.KeyPath}},
		{"no-ca-file,server-name", TLSConfig{CAServerName: serverName}},
		{"own-cert,no-ca-file,server-name", TLSConfig{CertificatePath: proxyCert.CertPath, KeyPath: proxyCert.KeyPath, CAServerName: serverName}},
	} {
		if !shape.cfg.IsEnabled() {
			continue
		}
		cliCfg, err := GetClientTLSConfig(shape.cfg)
		evals++
		if err != nil || cliCfg == nil {
			continue // refused at configuration time
		}
		for _, s := range serverCreds {
			if s.chainOK {
				continue
			}
			for _, maxVer := range []uint16{tls.VersionTLS13, tls.VersionTLS12} {
				peer := &tls.Config{Certificates: []tls.Certificate{s.leaf.TLSCert}, MaxVersion: maxVer}
				c2 := cliCfg.Clone()
				c2.MaxVersion = maxVer
				ok, _, _ := vfHandshake(peer, c2)
				evals++
				nontrivial++
				if ok {
					res.Violate("tls/client-accepts-unauthenticated-server/"+s.name+"/config:"+shape.name, fmt.Sprintf("client configuration {%s} (skipCAVerification not set) is accepted and completes a connection to a server presenting %s (TLS %#x)", shape.name, s.name, maxVer), map[string]any{"role": "client", "peer": s.name, "shape": shape.name, "tls": maxVer})
				}
			}
		}
	}
	// ---- CA bundle variants (config time)
	leafOnly := filepath.Join(dir, "leaf-only-bundle.pem")
	b, _ := os.ReadFile(proxyCert.CertPath)
	_ = os.WriteFile(leafOnly, b, 0o600)
	empty := filepath.Join(dir, "empty-bundle.pem")
	_ = os.WriteFile(empty, nil, 0o600)
	for _, bundle := range []struct{ name, path string }{{"leaf-only", leafOnly}, {"empty", empty}, {"missing-file", filepath.Join(dir, "nope.pem")}} {
		evals++
		nontrivial++
		if cfg, err := GetServerTLSConfig(TLSConfig{CertificatePath: proxyCert.CertPath, KeyPath: proxyCert.KeyPath, RemoteCAPath: bundle.path}, logger); err == nil {
			res.Violate("tls/bad-ca-bundle-accepted/server/"+bundle.name, fmt.Sprintf("GetServerTLSConfig accepted a %s CA bundle (ClientAuth=%v)", bundle.name, cfg.ClientAuth), map[string]any{"bundle": bundle.name})
		}
		evals++
		if _, err := GetClientTLSConfig(TLSConfig{RemoteCAPath: bundle.path, CAServerName: serverName}); err == nil {
			res.Violate("tls/bad-ca-bundle-accepted/client/"+bundle.name, fmt.Sprintf("GetClientTLSConfig accepted a %s CA bundle", bundle.name), map[string]any{"bundle": bundle.name})
		}
		// the same with the proxy's own certificate configured next to the unusable bundle
		evals++
		nontrivial++
		if cfg, err := GetClientTLSConfig(TLSConfig{CertificatePath: proxyCert.CertPath, KeyPath: proxyCert.KeyPath, RemoteCAPath: bundle.path, CAServerName: serverName}); err == nil {
			res.Violate("tls/bad-ca-bundle-accepted/client+own-cert/"+bundle.name, fmt.Sprintf("GetClientTLSConfig (own certificate configured) accepted a %s CA bundle: RootCAs set=%v, so the host's system roots decide which servers are trusted", bundle.name, cfg.RootCAs != nil), map[string]any{"bundle": bundle.name, "own_cert": true})
		}
	}
	// a self-signed certificate that is no CA (no basicConstraints) but asserts keyCertSign, as the whole bundle: not a CA
	// bundle; if it were accepted the certificate itself would be a trusted leaf
	pseudo := vrt.NewLeaf(dir, vrt.LeafOpts{Name: "selfsigned-keycertsign-no-basic-constraints", DNS: []string{serverName}, EKU: both, KeyUsage: x509.KeyUsageCertSign | x509.KeyUsageDigitalSignature})
	evals++
	nontrivial++
	if cfg, err := GetServerTLSConfig(TLSConfig{CertificatePath: proxyCert.CertPath, KeyPath: proxyCert.KeyPath, RemoteCAPath: pseudo.CertPath}, logger); err == nil {
		peer := &tls.Config{RootCAs: x509.NewCertPool(), ServerName: serverName, Certificates: []tls.Certificate{pseudo.TLSCert}}
		peer.RootCAs.AddCert(ca1.Cert)
		ok, _, _ := vfHandshake(cfg, peer)
		res.Violate("tls/bad-ca-bundle-accepted/server/non-ca-certificate-with-keyCertSign", fmt.Sprintf("GetServerTLSConfig accepted a bundle holding only a self-signed certificate without basicConstraints (keyCertSign set); a client presenting that certificate is admitted: %v", ok), map[string]any{"bundle": "non-ca-keycertsign"})
	}
	evals++
	nontrivial++
	if cfg, err := GetClientTLSConfig(TLSConfig{RemoteCAPath: pseudo.CertPath, CAServerName: serverName}); err == nil {
		ok, _, _ := vfHandshake(&tls.Config{Certificates: []tls.Certificate{pseudo.TLSCert}}, cfg.Clone())
		res.Violate("tls/bad-ca-bundle-accepted/client/non-ca-certificate-with-keyCertSign", fmt.Sprintf("GetClientTLSConfig accepted a bundle holding only a self-signed certificate without basicConstraints (keyCertSign set); a server presenting that certificate is accepted: %v", ok), map[string]any{"bundle": "non-ca-keycertsign"})
	}
	// a listener with its own certificate, verification not disabled and no CA configured: there is no configured CA any
	// peer could chain to, so either the configuration is refused or nobody is admitted - in particular not the peers the
	// host's system store vouches for
	sysClient := vrt.NewLeaf(dir, vrt.LeafOpts{Name: "client-signed-by-host-system-ca", Signer: sysCA, EKU: both})
	for _, c := range []struct {
		name string
		leaf *vrt.Leaf
	}{{"signed-by-a-CA-of-the-host-system-store", sysClient}, {"valid-chain-to-the-CA-used-elsewhere", clientCreds[0].leaf}, {"self-signed", clientCreds[1].leaf}} {
		evals++
		nontrivial++
		cfg, err := GetServerTLSConfig(TLSConfig{CertificatePath: proxyCert.CertPath, KeyPath: proxyCert.KeyPath}, logger)
		if err != nil || cfg == nil {
			continue // refused at start-up
		}
		peer := &tls.Config{RootCAs: x509.NewCertPool(), ServerName: serverName}
		peer.RootCAs.AddCert(ca1.Cert)
		leaf := c.leaf.TLSCert
		peer.GetClientCertificate = func(*tls.CertificateRequestInfo) (*tls.Certificate, error) { return &leaf, nil }
		if ok, _, _ := vfHandshake(cfg, peer); ok {
			res.Violate("tls/listener-without-configured-ca-admits-peer/"+c.name, fmt.Sprintf("server TLS block {certificate, key, no remoteCAPath, skipCAVerification not set} is accepted (ClientAuth=%v, ClientCAs set=%v) and the listener admits a client %s", cfg.ClientAuth, cfg.ClientCAs != nil, c.name), map[string]any{"role": "server", "shape": "no-ca-path", "peer": c.name})
		}
	}
	// the CA file goes away after the listener was configured (a rotation in progress, a remount): the listener keeps
	// admitting exactly the peers of the configured CA - in particular it does not fall back to the host's system store
	rotating := filepath.Join(dir, "rotating-ca.pem")
	if b, err := os.ReadFile(ca1.Path); err == nil {
		_ = os.WriteFile(rotating, b, 0o600)
	}
	if cfg, err := GetServerTLSConfig(TLSConfig{CertificatePath: proxyCert.CertPath, KeyPath: proxyCert.KeyPath, RemoteCAPath: rotating}, logger); err == nil && cfg != nil {
		_ = os.Rename(rotating, rotating+".gone")
		for _, c := range []struct {
			name string
			leaf *vrt.Leaf
			want bool
		}{{"signed-by-a-CA-of-the-host-system-store", sysClient, false}, {"self-signed", clientCreds[1].leaf, false}, {"other-ca", clientCreds[2].leaf, false}} {
			peer := &tls.Config{RootCAs: x509.NewCertPool(), ServerName: serverName}
			peer.RootCAs.AddCert(ca1.Cert)
			leaf := c.leaf.TLSCert
			peer.GetClientCertificate = func(*tls.CertificateRequestInfo) (*tls.Certificate, error) { return &leaf, nil }
			ok, _, _ := vfHandshake(cfg, peer)
			evals++
			nontrivial++
			if ok != c.want {
				res.Violate("tls/listener-admits-unauthenticated-client-while-ca-file-is-gone/"+c.name, fmt.Sprintf("listener configured with a readable CA file; the file is then removed; a client %s is admitted", c.name), map[string]any{"role": "server", "shape": "ca-file-removed-after-start", "peer": c.name})
			}
		}
		_ = os.Rename(rotating+".gone", rotating)
	}
	// two configurations with different CAs in one process must not influence each other
	other, err := GetClientTLSConfig(TLSConfig{RemoteCAPath: ca2.Path, CAServerName: serverName})
	if err == nil {
		again, _ := GetClientTLSConfig(TLSConfig{RemoteCAPath: ca1.Path, CAServerName: serverName})
		for _, pair := range []struct {
			cfg  *tls.Config
			cred *vrt.Leaf
			desc string
		}{{again, serverCreds[3].leaf, "config for ca-configured vs server signed by ca-other"}, {other, serverCreds[0].leaf, "config for ca-other vs server signed by ca-configured"}} {
			ok, _, _ := vfHandshake(&tls.Config{Certificates: []tls.Certificate{pair.cred.TLSCert}}, pair.cfg.Clone())
			evals++
			nontrivial++
			if ok {
				res.Violate("tls/ca-pools-shared-between-configs", "after building two client configs with different CA files: "+pair.desc+" completed", map[string]any{"case": pair.desc})
			}
		}
	}
	res.Set("evaluations", evals)
	res.Set("distinct_nontrivial", nontrivial)
	res.Set("rule", "server role: GetServerTLSConfig{cert,key,CA} x {verification on, skipCAVerification} x client credential {valid chain, self-signed, other CA, expired a day ago, expired 30 s ago, not yet valid, wrong usage, none} x {normal peer, peer that sends its certificate regardless of the CA hint} x {TLS1.3, TLS1.2}; client role: GetClientTLSConfig{CA, server name} x {verification on, skip} x {own certificate or not} x server credential {valid, valid chain wrong name, self-signed, other CA, expired, wrong usage} x {TLS1.3, TLS1.2}; CA bundle variants at config time (leaf only, empty, missing file, a self-signed non-CA certificate asserting keyCertSign); a listener with its own certificate, verification on and no CA path; the host's system trust store holds one throw-away CA so that any fall-back to it is observable; two configs with different CAs in one process. Success = handshake and one application byte in each direction on both ends. non-trivial = cases that must be refused")
	res.Set("exhaustive", true)
	res.Sample(map[string]any{"role": "server", "peer": "self-signed", "skip_verification": false, "peer_insists": true})
	res.Sample(map[string]any{"role": "client", "peer": "valid-chain-wrong-name", "skip_verification": false})
	res.Assume("handshakes run over loopback TCP with the tls.Config objects the proxy hands to grpc credentials / tls.Server / tls.Client; the TCP accept/dial code itself is not exercised")
}
