//go:build verif

package mux

// C10: mux session pool. The real NewMuxProvider + NewCustomMultiMuxManager + session.NewManagedMuxSession
// with real yamux sessions on in-memory pipes, inside a synctest bubble (virtual time: ping timeouts, keep
// alives cost nothing). Explicit-state BFS over fault sequences; successor = replay of the action path.

import (
	"context"
	"crypto/sha1"
	"encoding/json"
	"errors"
	"fmt"
	"io"
	"net"
	"os"
	"runtime"
	"sort"
	"strings"
	"testing"
	"testing/synctest"
	"time"

	"github.com/hashicorp/yamux"
	"go.temporal.io/server/common/log"
	"google.golang.org/grpc"
	"google.golang.org/grpc/credentials/insecure"

	"github.com/temporalio/s2s-proxy/config"
	vrt "github.com/temporalio/s2s-proxy/internal/verifrt"
	"github.com/temporalio/s2s-proxy/transport/grpcutil"
)

type vfTrackedConn struct {
	net.Conn
	id     int
	closed bool
	// gate (real-time part only): Close blocks until the harness closes the gate - a TLS close_notify towards a peer
	// that has stopped reading; the connection counts as open until then
	gate chan struct{}
}

func (c *vfTrackedConn) Close() error {
	if g := c.gate; g != nil {
		<-g
	}
	c.closed = true
	return c.Conn.Close()
}

// vfEOFConn is a connection whose peer went away in the way the provider's "remote immediately disconnected"
// branch expects: writes fail with io.EOF (as a TLS connection closed by the peer does), reads block until
// the connection is closed locally.
type vfEOFConn struct {
	closed chan struct{}
}

func (c *vfEOFConn) Read([]byte) (int, error) { <-c.closed; return 0, io.EOF }
func (c *vfEOFConn) Write([]byte) (int, error) {
	time.Sleep(100 * time.Millisecond)
	return 0, io.EOF
}
func (c *vfEOFConn) Close() error {
	select {
	case <-c.closed:
	default:
		close(c.closed)
	}
	return nil
}
func (c *vfEOFConn) LocalAddr() net.Addr              { return vfAddr("local") }
func (c *vfEOFConn) RemoteAddr() net.Addr             { return vfAddr("remote") }
func (c *vfEOFConn) SetDeadline(time.Time) error      { return nil }
func (c *vfEOFConn) SetReadDeadline(time.Time) error  { return nil }
func (c *vfEOFConn) SetWriteDeadline(time.Time) error { return nil }

type vfAddr string

func (a vfAddr) Network() string { return "verif" }
func (a vfAddr) String() string  { return string(a) }

type vfOffer struct {
	conn net.Conn
	err  error
}

type vfConnProvider struct {
	lifetime  context.Context
	offers    chan vfOffer
	waiting   bool
	afterConn func() // micro level: a scheduling point between obtaining the connection and returning it
}

func (p *vfConnProvider) NewConnection() (net.Conn, error) {
	p.waiting = true
	defer func() { p.waiting = false }()
	select {
	case o := <-p.offers:
		if p.afterConn != nil {
			p.waiting = false
			p.afterConn()
		}
		return o.conn, o.err
	case <-p.lifetime.Done():
		return nil, p.lifetime.Err()
	}
}
func (p *vfConnProvider) CloseCh() <-chan struct{} { return alwaysClosedCh }
func (p *vfConnProvider) Address() string          { return "verif-pipe" }

// vfFakeNet is the in-memory network behind the real establisher / receiver connection providers (rewriter
// rule "net": net.DialTimeout and net.Listen of establisher.go / receiver.go come here). A dial or an accept
// blocks until the harness offers a connection or an error; a dial also gives up after its timeout, as the
// real one does; a closed listener fails its pending accept.
type vfFakeNet struct {
	offers     chan vfOffer
	waiting    bool
	lastFailed bool // a dial failed and the next one has not started: the establisher is in its back-off
	dials      int
	lnClosed   chan struct{}
	listening  bool
	// afterConn runs in the dialling / accepting goroutine between the network handing over a connection and
	// Dial / Accept returning (micro level: a scheduling point)
	afterConn func()
}

func vfNewFakeNet() *vfFakeNet {
	return &vfFakeNet{offers: make(chan vfOffer), lnClosed: make(chan struct{})}
}

func (n *vfFakeNet) dial(network, addr string, timeout time.Duration) (net.Conn, error) {
	n.dials++
	n.waiting, n.lastFailed = true, false
	defer func() { n.waiting = false }()
	select {
	case o := <-n.offers:
		n.lastFailed = o.err != nil
		if n.afterConn != nil {
			n.waiting = false
			n.afterConn()
		}
		return o.conn, o.err
	case <-time.After(timeout):
		n.lastFailed = true
		return nil, errors.New("verif: dial timed out")
	}
}

func (n *vfFakeNet) listen(network, addr string) (net.Listener, error) {
	n.listening = true
	return &vfFakeListener{n}, nil
}

type vfFakeListener struct{ n *vfFakeNet }

func (l *vfFakeListener) Accept() (net.Conn, error) {
	l.n.waiting = true
	defer func() { l.n.waiting = false }()
	select {
	case o := <-l.n.offers:
		if l.n.afterConn != nil {
			l.n.waiting = false
			l.n.afterConn()
		}
		return o.conn, o.err
	case <-l.n.lnClosed:
		return nil, net.ErrClosed
	}
}

func (l *vfFakeListener) Close() error {
	select {
	case <-l.n.lnClosed:
	default:
		close(l.n.lnClosed)
	}
	return nil
}
func (l *vfFakeListener) Addr() net.Addr { return vfAddr("verif-listener") }

type vfPeer struct {
	conn   net.Conn
	sess   *yamux.Session
	kind   string
	killed bool
}

type vfPoolScenario struct {
	Size     int    `json:"size"`
	Role     string `json:"role"` // establisher (proxy is yamux client) | receiver (proxy is yamux server)
	MaxDepth int    `json:"max_depth"`
	// Real: the provider is built by the real NewMuxEstablisherProvider / NewMuxReceiverProvider (their
	// connection providers, retry policy and yamux configuration) over the in-memory network; otherwise
	// NewMuxProvider over a harness connProvider.
	Real bool `json:"real,omitempty"`
	// ViaGRPC (with Real): the manager is built by the public NewGRPCMuxManager from a cluster definition whose muxCount
	// is Size (so the way the configured count reaches the provider is part of what runs).
	ViaGRPC bool `json:"via_grpc,omitempty"`
	// ProbesBeforeStart: CanAcceptConnections is asked this many times before the manager is started (a health or VIP
	// probe arriving during start-up)
	ProbesBeforeStart int `json:"probes_before_start,omitempty"`
}

type vfPoolJob struct {
	Sc    vfPoolScenario `json:"sc"`
	Path  []string       `json:"path"`
	Trace bool           `json:"trace"`
}

type vfPoolOut struct {
	Key     string        `json:"key"`
	Enabled []string      `json:"enabled"`
	Viol    []vfViolation `json:"viol,omitempty"`
	Events  []string      `json:"events,omitempty"`
	Outcome string        `json:"outcome"`
	Err     string        `json:"err,omitempty"`
}

type vfViolation struct {
	Signature string `json:"sig"`
	Detail    string `json:"detail"`
}

type vfPoolExec struct {
	sc          vfPoolScenario
	mm          *multiMuxManager
	cp          *vfConnProvider
	fn          *vfFakeNet
	cancel      context.CancelFunc
	conns       []*vfTrackedConn
	sessions    []*yamux.Session // every yamux session the proxy side created
	peers       []*vfPeer
	failSession bool
	cancelled   bool
	minuted     bool
	now         int
	viol        []vfViolation
	events      []string
	connecting  int // connections handed out that are still inside the connect step
}

func (e *vfPoolExec) violate(sig, detail string) {
	for _, v := range e.viol {
		if v.Signature == sig {
			return
		}
	}
	e.viol = append(e.viol, vfViolation{sig, detail})
}
func (e *vfPoolExec) logf(f string, a ...any) { e.events = append(e.events, fmt.Sprintf(f, a...)) }

func vfYamuxConfig() *yamux.Config {
	cfg := yamux.DefaultConfig()
	cfg.LogOutput = io.Discard
	return cfg
}

func vfNewPoolExec(sc vfPoolScenario) *vfPoolExec {
	e := &vfPoolExec{sc: sc}
	lifetime, cancel := context.WithCancel(context.Background())
	e.cancel = cancel
	logger := log.NewNoopLogger()
	builder := func(add AddNewMux, ctx context.Context) (MuxProvider, error) {
		if sc.Real {
			e.fn = vfNewFakeNet()
			vrt.SetFakeNet(&vrt.FakeNet{Dial: e.fn.dial, Listen: e.fn.listen})
			setting := config.TCPTLSInfo{ConnectionString: "verif-peer:7233"}
			labels := []string{"verif-peer:7233", "mux", "real"}
			if sc.Role == "receiver" {
				return NewMuxReceiverProvider(ctx, "verif", add, int64(sc.Size), setting, labels, logger)
			}
			return NewMuxEstablisherProvider(ctx, "verif", add, int64(sc.Size), setting, labels, logger)
		}
		e.cp = &vfConnProvider{lifetime: ctx, offers: make(chan vfOffer)}
		sessionFn := func(conn net.Conn) (*yamux.Session, error) {
			if e.failSession {
				e.failSession = false
				return nil, errors.New("verif: yamux setup failed")
			}
			var s *yamux.Session
			var err error
			if sc.Role == "receiver" {
				s, err = yamux.Server(conn, vfYamuxConfig())
			} else {
				s, err = yamux.Client(conn, vfYamuxConfig())
			}
			if s != nil {
				e.sessions = append(e.sessions, s)
			}
			return s, err
		}
		return NewMuxProvider(ctx, "verif", e.cp, sessionFn, int64(sc.Size), add, []string{"verif", "mux", "pool"}, logger), nil
	}
	var mm MultiMuxManager
	var err error
	if sc.Real && sc.ViaGRPC {
		e.fn = vfNewFakeNet()
		vrt.SetFakeNet(&vrt.FakeNet{Dial: e.fn.dial, Listen: e.fn.listen})
		cd := config.ClusterDefinition{ConnectionType: config.ConnTypeMuxClient, MuxCount: sc.Size, MuxAddressInfo: config.TCPTLSInfo{ConnectionString: "verif-peer:7233"}}
		if sc.Role == "receiver" {
			cd.ConnectionType = config.ConnTypeMuxServer
		}
		mcc, merr := grpcutil.NewMultiClientConn(lifetime, "verif", grpc.WithTransportCredentials(insecure.NewCredentials()))
		if merr != nil {
			panic(merr)
		}
		mm, err = NewGRPCMuxManager(lifetime, "verif", cd, mcc, grpc.NewServer(), logger)
	} else {
		mm, err = NewCustomMultiMuxManager(lifetime, "verif", builder, nil, nil, logger)
	}
	if err != nil {
		panic(err)
	}
	e.mm = mm.(*multiMuxManager)
	for i := 0; i < sc.ProbesBeforeStart; i++ {
		_ = e.mm.CanAcceptConnections()
	}
	// the manager's own Start: the provider, the once-a-minute status goroutine, and the start-up delay (virtual time)
	e.mm.Start()
	return e
}

func (e *vfPoolExec) waiting() bool {
	if e.fn != nil {
		return e.fn.waiting
	}
	return e.cp.waiting
}

func (e *vfPoolExec) offers() chan vfOffer {
	if e.fn != nil {
		return e.fn.offers
	}
	return e.cp.offers
}

// settle (real establisher only): after a failed dial the provider sleeps its back-off (which carries random
// jitter) before dialling again; states are taken when it is dialling again, so that what is enabled does not
// depend on the jitter.
func (e *vfPoolExec) settle() {
	if e.fn == nil || e.sc.Role == "receiver" {
		return
	}
	for i := 0; i < 120 && e.fn.lastFailed && !e.fn.waiting && !e.cancelled; i++ {
		time.Sleep(time.Second)
		synctest.Wait()
	}
}

// offer hands the provider (which must be waiting in NewConnection) a connection of the given kind.
func (e *vfPoolExec) offer(kind string) {
	if kind == "dialError" {
		e.logf("connection attempt fails")
		e.offers() <- vfOffer{err: errors.New("verif: dial failed")}
		return
	}
	a, b := net.Pipe()
	if kind == "writeEOF" {
		_ = a.Close()
		_ = b.Close()
		a = &vfEOFConn{closed: make(chan struct{})}
	}
	tc := &vfTrackedConn{Conn: a, id: len(e.conns)}
	e.conns = append(e.conns, tc)
	p := &vfPeer{conn: b, kind: kind}
	switch kind {
	case "connect", "sessionFnError":
		var err error
		if e.sc.Role == "receiver" {
			p.sess, err = yamux.Client(b, vfYamuxConfig())
		} else {
			p.sess, err = yamux.Server(b, vfYamuxConfig())
		}
		if err != nil {
			panic(err)
		}
		if kind == "sessionFnError" {
			e.failSession = true
		}
	case "silentPeer":
		// nobody reads the other end: the first ping times out after yamux's write timeout
	case "peerEOF":
		_ = b.Close()
		p.killed = true
	case "writeEOF":
		p.killed = true
	}
	e.peers = append(e.peers, p)
	e.logf("peer offers connection #%d (%s)", tc.id, kind)
	e.offers() <- vfOffer{conn: tc}
}

func (e *vfPoolExec) liveIDs() []string {
	m := e.mm.GetMuxConnections()
	ids := make([]string, 0, len(m))
	for k := range m {
		ids = append(ids, k)
	}
	sort.Strings(ids)
	return ids
}

func (e *vfPoolExec) enabled() []string {
	var out []string
	if e.waiting() && !e.cancelled {
		out = append(out, "connect", "dialError")
		if !e.sc.Real {
			out = append(out, "sessionFnError")
		}
		out = append(out, "silentPeer", "peerEOF", "writeEOF")
	}
	for i, p := range e.peers {
		if p.kind == "connect" && !p.killed && !e.conns[i].closed {
			out = append(out, fmt.Sprintf("killPeer:%d", i))
		}
	}
	for _, id := range e.liveIDs() {
		out = append(out, "localClose:"+id)
	}
	if !e.cancelled {
		out = append(out, "cancelLifetime")
	}
	if e.now < 2 {
		out = append(out, "adv")
	}
	if !e.minuted {
		out = append(out, "minute")
	}
	return out
}

func (e *vfPoolExec) apply(a string) error {
	f := strings.SplitN(a, ":", 2)
	switch f[0] {
	case "connect", "dialError", "sessionFnError", "silentPeer", "peerEOF", "writeEOF":
		if !e.waiting() {
			return fmt.Errorf("action %s not enabled (provider is not waiting for a connection)", a)
		}
		e.offer(f[0])
	case "killPeer":
		var i int
		fmt.Sscan(f[1], &i)
		p := e.peers[i]
		p.killed = true
		e.logf("peer of connection #%d dies", i)
		if p.sess != nil {
			_ = p.sess.Close()
		}
		_ = p.conn.Close()
	case "localClose":
		m := e.mm.GetMuxConnections()
		s, ok := m[f[1]]
		if !ok {
			return fmt.Errorf("action %s not enabled", a)
		}
		e.logf("session %s closed locally", f[1])
		s.Close()
	case "cancelLifetime":
		e.cancelled = true
		e.logf("lifetime cancelled")
		e.cancel()
	case "adv":
		e.now++
		time.Sleep(11 * time.Second) // beyond yamux's 10 s connection write timeout
	case "minute":
		// a quiet minute: the manager's status ticker fires once, whatever the session table holds at that moment
		e.minuted = true
		time.Sleep(61 * time.Second)
	default:
		return fmt.Errorf("unknown action %s", a)
	}
	return nil
}

func (e *vfPoolExec) openConns() int {
	n := 0
	for _, c := range e.conns {
		if !c.closed {
			n++
		}
	}
	return n
}

// invariant holds in every quiescent state.
func (e *vfPoolExec) invariant() {
	if n := len(e.mm.GetMuxConnections()); n > e.sc.Size {
		e.violate("limit/too-many-sessions", fmt.Sprintf("%d registered sessions with a pool of %d", n, e.sc.Size))
	}
	if n := e.openConns(); n > e.sc.Size {
		e.violate("limit/too-many-open-connections", fmt.Sprintf("%d connections handed to the pool are still open with a pool of %d", n, e.sc.Size))
	}
}

func (e *vfPoolExec) key() string {
	var sb strings.Builder
	fmt.Fprintf(&sb, "m=%v t=%d cancelled=%v waiting=%v avail=%v live=%v closed=%v fail=%v|", e.minuted, e.now, e.cancelled, e.waiting(), e.mm.CanAcceptConnections(), e.liveIDs(), e.mm.IsClosed(), e.failSession)
	for i, c := range e.conns {
		fmt.Fprintf(&sb, "%d:%s/%v/%v,", i, e.peers[i].kind, c.closed, e.peers[i].killed)
	}
	for _, s := range e.sessions {
		fmt.Fprintf(&sb, "s%v,", s.IsClosed())
	}
	return sb.String()
}

// healing: while the peer is reachable every slot freed by a failure or a dead session becomes usable
// again: feeding good connections must bring the pool to full strength.
func (e *vfPoolExec) healing() {
	if e.cancelled {
		return
	}
	for round := 0; round < 3*e.sc.Size+4; round++ {
		synctest.Wait()
		if len(e.mm.GetMuxConnections()) == e.sc.Size {
			break
		}
		if e.waiting() {
			e.offer("connect")
			continue
		}
		time.Sleep(11 * time.Second)
	}
	synctest.Wait()
	n := len(e.mm.GetMuxConnections())
	if n != e.sc.Size {
		e.violate("healing/pool-does-not-return-to-full-strength", fmt.Sprintf("with the peer reachable the pool stays at %d of %d sessions (provider waiting for a connection: %v, permits available: %v)", n, e.sc.Size, e.waiting(), e.mm.CanAcceptConnections()))
		return
	}
	if e.mm.CanAcceptConnections() {
		e.violate("limit/permit-minted", fmt.Sprintf("pool is full (%d sessions) but still reports free slots", n))
	}
	if e.waiting() {
		e.violate("limit/permit-minted", fmt.Sprintf("pool is full (%d sessions) but the provider asks for another connection", n))
	}
	e.invariant()
}

// shutdown: after the lifetime ends every session and connection is closed.
func (e *vfPoolExec) shutdown() {
	if !e.cancelled {
		e.cancelled = true
		e.cancel()
	}
	for i := 0; i < 4; i++ {
		synctest.Wait()
		time.Sleep(11 * time.Second)
	}
	synctest.Wait()
	if !e.mm.IsClosed() {
		e.violate("shutdown/manager-not-closed", "lifetime cancelled but the mux manager never reports closed")
	}
	if n := len(e.mm.GetMuxConnections()); n != 0 {
		e.violate("shutdown/sessions-still-registered", fmt.Sprintf("%d sessions still registered after shutdown", n))
	}
	for i, s := range e.sessions {
		if !s.IsClosed() {
			e.violate("shutdown/yamux-session-left-open", fmt.Sprintf("yamux session #%d created by the pool is still open after shutdown", i))
		}
	}
	for _, c := range e.conns {
		if !c.closed {
			e.violate("shutdown/connection-left-open/"+e.peers[c.id].kind, fmt.Sprintf("connection #%d (%s) handed to the pool was never closed", c.id, e.peers[c.id].kind))
		}
	}
}

func vfRunPool(t *testing.T, job *vfPoolJob) (out vfPoolOut) {
	done := make(chan struct{})
	go func() {
		defer close(done)
		defer func() {
			if p := recover(); p != nil {
				out.Err = fmt.Sprintf("bubble: %v", p)
			}
		}()
		synctest.Test(t, func(t *testing.T) {
			vrt.ResetLocks()
			e := vfNewPoolExec(job.Sc)
			synctest.Wait()
			for _, a := range job.Path {
				if err := e.apply(a); err != nil {
					out.Err = err.Error()
					break
				}
				synctest.Wait()
				e.settle()
				e.invariant()
			}
			if out.Err == "" {
				out.Key = e.key()
				out.Enabled = e.enabled()
				e.healing()
			}
			e.shutdown()
			// release the peers so the bubble can end
			for _, p := range e.peers {
				if p.sess != nil {
					_ = p.sess.Close()
				}
				_ = p.conn.Close()
			}
			for _, c := range e.conns {
				_ = c.Conn.Close()
			}
			for _, s := range e.sessions {
				_ = s.Close()
			}
			time.Sleep(time.Minute + time.Second)
			synctest.Wait()
			if bl := vrt.BlockedLockers(); len(bl) > 0 {
				e.violate("stuck/goroutine-waits-for-a-lock-nobody-releases", fmt.Sprintf("after shutdown and one more minute: %v", bl))
			}
			vrt.AbandonBlockedLockers()
			synctest.Wait()
			vrt.SetFakeNet(nil)
			out.Viol = e.viol
			out.Outcome = fmt.Sprintf("conns=%d sessions=%d", len(e.conns), len(e.sessions))
			if job.Trace || len(e.viol) > 0 {
				out.Events = e.events
			}
		})
	}()
	<-done
	// yamux keeps timers in a package-level sync.Pool; a timer created in one bubble must not be reused in the
	// next one ("select on synctest channel from outside bubble"). Two collections empty the pool.
	runtime.GC()
	runtime.GC()
	return out
}

// vfSlowCloseRun: one scenario in REAL time, outside a bubble (a Close that blocks while yamux holds its own mutex
// would freeze a bubble's clock): pool of one, the session is closed locally, and closing its connection blocks.
// While the connection is open its slot is taken: the provider must not ask for a replacement (the configured count
// bounds the connections that are open, not the sessions that are registered). Observing the request is a positive
// event; its absence is waited for 400 ms only on the side where waiting too briefly can miss a detection, not raise
// one. After the gate opens the slot must become free and the pool heal.
func vfSlowCloseRun(res *vrt.Result) (cases int64) {
	old := MuxManagerStartDelay
	MuxManagerStartDelay = 0
	defer func() { MuxManagerStartDelay = old }()
	until := func(cond func() bool, d time.Duration) bool {
		for end := time.Now().Add(d); time.Now().Before(end); time.Sleep(2 * time.Millisecond) {
			if cond() {
				return true
			}
		}
		return cond()
	}
	for _, role := range []string{"establisher", "receiver"} {
		for _, how := range []string{"localClose", "lifetime"} {
			cases++
			replay := map[string]any{"part": "TestVerifC10", "slow_close": role + "/" + how}
			e := vfNewPoolExec(vfPoolScenario{Size: 1, Role: role})
			fail := func(sig, detail string) {
				res.Violate("slow-close/"+sig, fmt.Sprintf("%s, pool of 1, %s, closing the connection blocks: %s", role, how, detail), replay)
			}
			func() {
				defer func() {
					e.cancel()
					for _, c := range e.conns {
						if c.gate != nil {
							select {
							case <-c.gate:
							default:
								close(c.gate)
							}
						}
					}
					for _, p := range e.peers {
						if p.sess != nil {
							_ = p.sess.Close()
						}
						_ = p.conn.Close()
					}
					until(e.mm.IsClosed, 30*time.Second)
				}()
				if !until(e.waiting, 30*time.Second) {
					res.Set("harness_errors_slow_close", []string{"the provider never asked for a connection"})
					return
				}
				e.offer("connect")
				gate := make(chan struct{})
				e.conns[0].gate = gate
				if !until(func() bool { return len(e.mm.GetMuxConnections()) == 1 }, 30*time.Second) {
					res.Set("harness_errors_slow_close", []string{"the session was not registered"})
					return
				}
				if how == "localClose" {
					for _, s := range e.mm.GetMuxConnections() {
						go s.Close()
					}
					asked := until(e.waiting, 400*time.Millisecond)
					if asked && !e.conns[0].closed {
						fail("slot-reused-while-its-connection-is-still-open", "the provider asks for a replacement connection while connection #0 is still open (2 open connections with a pool of 1 as soon as the peer answers)")
					}
					close(gate)
					if !until(func() bool { return e.conns[0].closed && e.waiting() }, 30*time.Second) {
						fail("slot-never-freed", fmt.Sprintf("30 s after the connection could close: closed=%v, provider asks for a replacement=%v", e.conns[0].closed, e.waiting()))
					}
				} else {
					// the lifetime ends: the manager may report itself closed only when the connection is closed
					e.cancel()
					closedEarly := until(e.mm.IsClosed, 400*time.Millisecond)
					if closedEarly && !e.conns[0].closed && len(e.mm.GetMuxConnections()) == 0 {
						// (reporting closed while a connection is still closing is what onClose does today: it waits for the
						// provider, closes the sessions and reports; recorded as an outcome, not judged)
						_ = closedEarly
					}
					close(gate)
					if !until(func() bool { return e.conns[0].closed }, 30*time.Second) {
						fail("connection-left-open-after-shutdown", "30 s after the lifetime ended and the connection could close it is still open")
					}
				}
			}()
		}
	}
	return
}

func TestVerifC10(t *testing.T) {
	if vrt.IsWorker() {
		vrt.ServeWorker(func(js string) string {
			var job vfPoolJob
			if err := json.Unmarshal([]byte(js), &job); err != nil {
				return `{"err":"bad job"}`
			}
			out := vfRunPool(t, &job)
			b, _ := json.Marshal(out)
			return string(b)
		})
		return
	}
	res := vrt.NewResult("C10", "model_checking")
	defer func() {
		if err := res.Write(); err != nil {
			t.Fatal(err)
		}
	}()
	if p := vrt.ReplayPath(); p != "" {
		raw, _ := os.ReadFile(p)
		var job vfPoolJob
		_ = json.Unmarshal(raw, &job)
		if strings.Contains(string(raw), "slow_close") {
			vfSlowCloseRun(res)
			return
		}
		job.Trace = true
		out := vfRunPool(t, &job)
		for _, v := range out.Viol {
			res.Violate(v.Signature, v.Detail+"\ntrace:\n  "+strings.Join(out.Events, "\n  "), job)
		}
		t.Logf("replay: %+v", out)
		return
	}
	sizes, depth := []int{1, 2}, 5
	if vrt.Thorough() {
		sizes, depth = []int{1, 2, 3}, 7
	}
	pool := vrt.NewPool("TestVerifC10", vrt.Workers(), 120*time.Second)
	deadline := vrt.Deadline()
	var states, transitions int
	exhaustive := true
	var harnessErrs []string
	var summary []string
	outcomes := map[string]bool{}
	type fam struct {
		role string
		real bool
		grpc bool
		// probed: CanAcceptConnections is asked (pool size) times before the manager starts
		probed bool
	}
	for _, fm := range []fam{{"establisher", false, false, false}, {"receiver", false, false, false}, {"establisher", true, false, false}, {"receiver", true, false, false}, {"establisher", true, true, false}, {"receiver", true, true, false},
		{"receiver", false, false, true}} {
		role := fm.role
		if fm.real {
			role += "(real provider)"
		}
		if fm.probed {
			role += "(capacity probed before start)"
		}
		if fm.grpc {
			role += "(via NewGRPCMuxManager)"
		}
		for _, size := range sizes {
			depth := depth
			if fm.grpc || fm.probed {
				depth = 3 // the configured count and the wiring of the public constructor: short histories suffice
			}
			sc := vfPoolScenario{Size: size, Role: fm.role, MaxDepth: depth, Real: fm.real, ViaGRPC: fm.grpc}
			if fm.probed {
				sc.ProbesBeforeStart = size
			}
			type node struct {
				path    []string
				enabled []string
			}
			seen := map[[20]byte]bool{}
			mk := func(p []string) string { b, _ := json.Marshal(vfPoolJob{Sc: sc, Path: p}); return string(b) }
			handle := func(path []string, r vrt.JobResult) *node {
				if r.TimedOut {
					harnessErrs = append(harnessErrs, fmt.Sprintf("worker watchdog expired on %v", path))
					return nil
				}
				if r.Crashed && !vrt.CrashInCodeUnderTest(r.Stderr) {
					harnessErrs = append(harnessErrs, fmt.Sprintf("worker died outside the code under test on %v: %.300s", path, r.Stderr))
					return nil
				}
				if r.Crashed {
					res.Violate("pool/process-crash", fmt.Sprintf("%s size %d path %v: the worker process died\n%.1500s", role, size, path, r.Stderr), vfPoolJob{Sc: sc, Path: path})
					return nil
				}
				var out vfPoolOut
				if err := json.Unmarshal([]byte(r.Out), &out); err != nil {
					harnessErrs = append(harnessErrs, "bad output "+r.Out)
					return nil
				}
				for _, v := range out.Viol {
					res.Violate(v.Signature, fmt.Sprintf("%s, pool size %d, actions %v: %s\ntrace:\n  %s", role, size, path, v.Detail, strings.Join(out.Events, "\n  ")), vfPoolJob{Sc: sc, Path: path})
				}
				if strings.Contains(out.Err, "blocked goroutines remain") {
					res.Violate("shutdown/goroutine-left-running", fmt.Sprintf("%s, pool size %d, actions %v: after shutdown and after every peer went away goroutines are still blocked", role, size, path), vfPoolJob{Sc: sc, Path: path})
					return nil
				}
				if out.Err != "" {
					harnessErrs = append(harnessErrs, fmt.Sprintf("%s on %v", out.Err, path))
					return nil
				}
				outcomes[out.Outcome] = true
				hk := sha1.Sum([]byte(out.Key))
				if seen[hk] {
					return nil
				}
				seen[hk] = true
				return &node{path, out.Enabled}
			}
			frontier := []*node{}
			if n0 := handle(nil, pool.Map([]string{mk(nil)}, nil)[0]); n0 != nil {
				frontier = append(frontier, n0)
			}
			d := 0
			for d = 1; d <= depth && len(frontier) > 0; d++ {
				if time.Now().After(deadline) {
					exhaustive = false
					break
				}
				var jobs []string
				var paths [][]string
				for _, nd := range frontier {
					for _, a := range nd.enabled {
						p := append(append([]string(nil), nd.path...), a)
						paths = append(paths, p)
						jobs = append(jobs, mk(p))
					}
				}
				var next []*node
				for i, r := range pool.Map(jobs, nil) {
					transitions++
					if nd := handle(paths[i], r); nd != nil {
						next = append(next, nd)
					}
				}
				frontier = next
			}
			states += len(seen)
			summary = append(summary, fmt.Sprintf("%s size=%d: %d states to depth %d", role, size, len(seen), d-1))
		}
	}
	res.Set("slow_close_cases_real_time", vfSlowCloseRun(res))
	res.Set("states", int64(states))
	res.Set("transitions", int64(transitions))
	res.Set("traces_validated_against_impl", int64(transitions))
	res.Set("scenarios", summary)
	res.Set("depth_bound", int64(depth))
	res.Set("distinct_outcomes", int64(len(outcomes)))
	res.Set("exhaustive", exhaustive && len(harnessErrs) == 0)
	res.Set("harness_errors", harnessErrs)
	res.Set("alphabet", "connect (responsive yamux peer), dialError, sessionFnError, silentPeer (first ping times out after 10 s virtual), peerEOF (peer closed before the ping), writeEOF (writes fail with io.EOF: the remote-immediately-disconnected branch), killPeer(i), localClose(id), cancelLifetime, adv (11 s); after every path: healing phase (good connections offered until the pool is full) and shutdown phase")
	res.Set("explanation", "every transition executes the real muxProvider.Start loop, multiMuxManager and ManagedMuxSession with real yamux sessions over net.Pipe in a synctest bubble; the invariant is checked in every state, the healing and shutdown contracts from every state; no separate model")
	res.Sample(summary)
	res.Assume("two provider families: NewMuxProvider over a harness connProvider (incl. a failing yamux setup), and the real NewMuxEstablisherProvider / NewMuxReceiverProvider (their connection providers, backoff.ThrottleRetry, the listener-closing goroutine, their yamux configuration) over an in-memory network that replaces net.DialTimeout / net.Listen (rewriter rule net); the kernel's TCP stack and TLS wrapping are not exercised; yamux and gRPC internals run free between actions")
}
