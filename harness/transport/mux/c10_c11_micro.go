//go:build verif

package mux

// Micro level for C10 and C11: the provider loop, AddConnection / unregisterMux, the per-session cleanup and
// MultiClientConn.UpdateState run under the cooperative scheduler (their lock acquisitions, channel operations
// and goroutine starts are scheduling points); environment events (a peer dies, the lifetime ends) are taken
// at every such point. Stateless DFS with preemption bounding; after the explored part the scheduler is
// detached and the healing / shutdown / consistency contracts are checked free-running.

import (
	"context"
	"encoding/json"
	"fmt"
	"net"
	"os"
	"runtime"
	"sort"
	"strings"
	"testing"
	"testing/synctest"
	"time"

	"github.com/hashicorp/yamux"
	"go.temporal.io/server/common/log"
	"google.golang.org/grpc"
	"google.golang.org/grpc/credentials/insecure"

	"github.com/temporalio/s2s-proxy/config"
	vrt "github.com/temporalio/s2s-proxy/internal/verifrt"
	"github.com/temporalio/s2s-proxy/transport/grpcutil"
)

type vfMicroReplay struct {
	Scenario string `json:"scenario"`
	Choices  []int  `json:"choices"`
}

// vfPoolMicro: pool of `size`; the provider loop is managed; the environment offers a good connection and,
// at any scheduling point, kills that peer (killPeer) or cancels the lifetime (cancel).
func vfPoolMicro(size int, fault string) func(s *vrt.Sched) (string, string, string) {
	return vfPoolMicroOn(size, fault, "establisher", false)
}

// vfPoolMicroOn with real=true builds the provider with the real NewMuxEstablisherProvider /
// NewMuxReceiverProvider over the in-memory network; the fake listener has a scheduling point between handing
// over a connection and Accept returning, so the fault is also taken inside receivingConnProvider.NewConnection.
func vfPoolMicroOn(size int, fault, role string, real bool) func(s *vrt.Sched) (string, string, string) {
	return vfPoolMicroWith(size, fault, role, real, false)
}

// vfPoolMicroWith: observe=true adds a thread that reads the manager's state (Describe) as the status logs do, concurrently with the pool mutations.
func vfPoolMicroWith(size int, fault, role string, real, observe bool) func(s *vrt.Sched) (string, string, string) {
	return func(s *vrt.Sched) (sig, detail, outcome string) {
		defer vrt.SetFakeNet(nil)
		e := &vfPoolExec{sc: vfPoolScenario{Size: size, Role: role, Real: real}}
		lifetime, cancel := context.WithCancel(context.Background())
		e.cancel = cancel
		logger := log.NewNoopLogger()
		builder := func(add AddNewMux, ctx context.Context) (MuxProvider, error) {
			if real {
				e.fn = vfNewFakeNet()
				e.fn.afterConn = func() { vrt.Point("fakenet", "accepted") }
				vrt.SetFakeNet(&vrt.FakeNet{Dial: e.fn.dial, Listen: e.fn.listen})
				setting := config.TCPTLSInfo{ConnectionString: "verif-peer:7233"}
				labels := []string{"verif-peer:7233", "mux", "micro"}
				if role == "receiver" {
					return NewMuxReceiverProvider(ctx, "verif", add, int64(size), setting, labels, logger)
				}
				return NewMuxEstablisherProvider(ctx, "verif", add, int64(size), setting, labels, logger)
			}
			e.cp = &vfConnProvider{lifetime: ctx, offers: make(chan vfOffer), afterConn: func() { vrt.Point("connprovider", "connected") }}
			sessionFn := func(conn net.Conn) (*yamux.Session, error) {
				var sess *yamux.Session
				var err error
				if role == "receiver" {
					sess, err = yamux.Server(conn, vfYamuxConfig())
				} else {
					sess, err = yamux.Client(conn, vfYamuxConfig())
				}
				if sess != nil {
					e.sessions = append(e.sessions, sess)
				}
				return sess, err
			}
			return NewMuxProvider(ctx, "verif", e.cp, sessionFn, int64(size), add, []string{"verif", "mux", "micro"}, logger), nil
		}
		mm, err := NewCustomMultiMuxManager(lifetime, "verif", builder, nil, nil, logger)
		if err != nil {
			return "harness/setup", err.Error(), ""
		}
		e.mm = mm.(*multiMuxManager)
		// the provider goroutine is spawned by the rewritten `go` statement inside Start: managed because its
		// parent is
		s.Spawn("starter", func() { e.mm.muxProvider.Start() })
		if observe {
			s.Spawn("observer", func() {
				vrt.Point("observer", "start")
				_ = e.mm.Describe()
			})
		}
		s.Spawn("env", func() {
			e.offer("connect")
			vrt.Point("env", "before-fault")
			switch fault {
			case "killPeer":
				p := e.peers[0]
				p.killed = true
				_ = p.sess.Close()
				_ = p.conn.Close()
			case "cancel":
				e.cancelled = true
				e.cancel()
			}
		})
		s.Run()
		if s.Deadlock != "" {
			return "stuck/deadlock", s.Deadlock, "deadlock"
		}
		s.Detach()
		synctest.Wait()
		e.invariant()
		if fault != "cancel" {
			e.healing()
		}
		e.shutdown()
		for _, p := range e.peers {
			if p.sess != nil {
				_ = p.sess.Close()
			}
			_ = p.conn.Close()
		}
		for _, c := range e.conns {
			_ = c.Conn.Close()
		}
		for _, ys := range e.sessions {
			_ = ys.Close()
		}
		time.Sleep(time.Minute + time.Second)
		synctest.Wait()
		outcome = fmt.Sprintf("conns=%d sessions=%d", len(e.conns), len(e.sessions))
		if len(e.viol) > 0 {
			return e.viol[0].Signature, e.viol[0].Detail, outcome
		}
		return "", "", outcome
	}
}

// vfListMicro (C11): two sessions are added by one managed thread while the first one's peer dies; the
// listener is the real MultiClientConn. At quiescence the dialable endpoints must equal the registered sessions.
func vfListMicro() func(s *vrt.Sched) (string, string, string) {
	return func(s *vrt.Sched) (sig, detail, outcome string) {
		lifetime, cancel := context.WithCancel(context.Background())
		defer cancel()
		logger := log.NewNoopLogger()
		mcc, err := grpcutil.NewMultiClientConn(lifetime, "verif", grpc.WithTransportCredentials(insecure.NewCredentials()))
		if err != nil {
			return "harness/setup", err.Error(), ""
		}
		var cp *vfConnProvider
		builder := func(add AddNewMux, ctx context.Context) (MuxProvider, error) {
			cp = &vfConnProvider{lifetime: ctx, offers: make(chan vfOffer)}
			return NewMuxProvider(ctx, "verif", cp, func(conn net.Conn) (*yamux.Session, error) { return yamux.Client(conn, vfYamuxConfig()) }, 2, add, []string{"verif", "mux", "list"}, logger), nil
		}
		mmi, err := NewCustomMultiMuxManager(lifetime, "verif", builder, nil, []OnConnectionListUpdate{mcc.OnConnectionListUpdate}, logger)
		if err != nil {
			return "harness/setup", err.Error(), ""
		}
		mm := mmi.(*multiMuxManager)
		type pair struct {
			local, peer     net.Conn
			lsess, peerSess *yamux.Session
		}
		mk := func() pair {
			a, b := net.Pipe()
			ps, _ := yamux.Server(b, vfYamuxConfig())
			ls, _ := yamux.Client(a, vfYamuxConfig())
			return pair{a, b, ls, ps}
		}
		p1, p2 := mk(), mk()
		// the provider acquires a permit before every connection it hands to AddConnection
		if err := mm.muxProvider.DrainConns(context.Background(), 2); err != nil {
			return "harness/setup", err.Error(), ""
		}
		s.Spawn("adder", func() {
			mm.AddConnection(p1.lsess, p1.local)
			mm.AddConnection(p2.lsess, p2.local)
		})
		s.Spawn("env", func() {
			vrt.Point("env", "before-kill")
			_ = p1.peerSess.Close()
			_ = p1.peer.Close()
		})
		s.Run()
		if s.Deadlock != "" {
			return "stuck/deadlock", s.Deadlock, "deadlock"
		}
		s.Detach()
		synctest.Wait()
		time.Sleep(time.Second)
		synctest.Wait()
		ids := make([]string, 0)
		for k := range mm.GetMuxConnections() {
			ids = append(ids, k)
		}
		sort.Strings(ids)
		d := mcc.Describe()
		var keys []string
		if i := strings.Index(d, "conns={"); i >= 0 {
			for _, part := range strings.Split(d[i+len("conns={"):strings.LastIndex(d, "}")], "=[connFn]") {
				if part != "" {
					keys = append(keys, part)
				}
			}
		}
		sort.Strings(keys)
		outcome = fmt.Sprintf("registered=%v dialable=%v", ids, keys)
		cancel()
		_ = p2.peerSess.Close()
		_ = p2.peer.Close()
		_ = p1.local.Close()
		_ = p2.local.Close()
		time.Sleep(2 * time.Minute)
		synctest.Wait()
		if fmt.Sprint(ids) != fmt.Sprint(keys) {
			return "consistency/dialable-endpoints-differ-from-registered-sessions", fmt.Sprintf("at quiescence the manager has sessions %v but the client connection can dial %v", ids, keys), outcome
		}
		if mcc.CanMakeCalls() != (len(ids) > 0) && lifetime.Err() == nil {
			return "consistency/can-make-calls", fmt.Sprintf("CanMakeCalls()=%v with sessions %v", mcc.CanMakeCalls(), ids), outcome
		}
		return "", "", outcome
	}
}

func vfMicroRun(t *testing.T, property string, testName string, scenarios map[string]func(s *vrt.Sched) (string, string, string)) {
	for name, body := range scenarios {
		body := body
		scenarios[name] = func(s *vrt.Sched) (string, string, string) {
			defer func() { runtime.GC(); runtime.GC() }()
			return body(s)
		}
	}
	if vrt.IsWorker() {
		vrt.ServeShards(t, scenarios)
		return
	}
	res := vrt.NewResult(property, "model_checking")
	defer func() {
		if err := res.Write(); err != nil {
			t.Fatal(err)
		}
	}()
	wrap := func(body func(s *vrt.Sched) (string, string, string)) func(s *vrt.Sched) (string, string, string) {
		return func(s *vrt.Sched) (string, string, string) {
			a, b, c := body(s)
			return a, b, c
		}
	}
	if p := vrt.ReplayPath(); p != "" {
		var rp vfMicroReplay
		raw, _ := os.ReadFile(p)
		_ = json.Unmarshal(raw, &rp)
		if body, ok := scenarios[rp.Scenario]; ok {
			ex := vrt.RunSchedule(t, rp.Choices, 3000, wrap(body))
			t.Logf("replay %s: sig=%q detail=%q\n  %s", rp.Scenario, ex.Signature, ex.Violation, strings.Join(ex.Trace, "\n  "))
			if ex.Signature != "" {
				res.Violate(rp.Scenario+"/"+ex.Signature, ex.Violation, rp)
			}
		}
		return
	}
	bound := 2
	if vrt.Thorough() {
		bound = 3
	}
	deadline := vrt.Deadline()
	pool := vrt.NewPool(testName, vrt.Workers(), 10*time.Minute)
	names := make([]string, 0, len(scenarios))
	for n := range scenarios {
		names = append(names, n)
	}
	sort.Strings(names)
	// the one scenario whose schedule space at the tier's bound does not fit the tier's budget (>100 000 schedules with 2
	// preemptions) goes last and is explored bound by bound: everything with one preemption less first - that is the bound
	// the tier declares complete for it -, then the tier's bound with whatever time is left (reported, not part of the
	// exhaustiveness claim)
	const heavy = "real-receiver-lifetime-ends-during-accept"
	sort.SliceStable(names, func(i, j int) bool { return names[i] != heavy && names[j] == heavy })
	var schedules, decisions int64
	exhaustive := true
	var summary []string
	outcomes := map[string]int64{}
	for _, name := range names {
		body := scenarios[name]
		declared := bound
		if name == heavy {
			declared = bound - 1
		}
		st, viols := vrt.ExploreSharded(t, pool, name, declared, 3000, deadline, body)
		if name == heavy {
			res.Set("micro_bound_completed_"+name, int64(declared))
			st2, viols2 := vrt.ExploreSharded(t, pool, name, bound, 3000, deadline, body)
			viols = append(viols, viols2...)
			schedules += st2.Executions
			decisions += st2.Decisions
			for o, c := range st2.Outcomes {
				outcomes[name+": "+o] += c
			}
			summary = append(summary, fmt.Sprintf("%s, beyond its declared bound (%d preemptions): %d schedules, complete: %v", name, bound, st2.Executions, st2.Exhaustive))
			if len(st2.HarnessErrors) > 0 {
				res.Set("harness_errors_"+name, st2.HarnessErrors[:1])
				st.Exhaustive = false
			}
		}
		perSig := map[string]int{}
		for _, v := range viols {
			perSig[v.Signature]++
			if perSig[v.Signature] > 3 {
				continue
			}
			res.Violate(name+"/"+v.Signature, fmt.Sprintf("scenario %s, schedule %v: %s\nschedule:\n  %s", name, v.Choices, v.Detail, strings.Join(v.Trace, "\n  ")), vfMicroReplay{name, v.Choices})
		}
		schedules += st.Executions
		decisions += st.Decisions
		exhaustive = exhaustive && st.Exhaustive
		for o, c := range st.Outcomes {
			outcomes[name+": "+o] += c
		}
		summary = append(summary, fmt.Sprintf("%s (<=%d preemptions): %d schedules, <=%d decisions, %d deadlocks, %d divergences", name, declared, st.Executions, st.MaxPoints, st.Deadlocks, st.Diverged))
		if len(st.HarnessErrors) > 0 {
			res.Set("harness_errors_"+name, st.HarnessErrors[:1])
		}
	}
	res.Set("states", schedules)
	res.Set("transitions", decisions)
	res.Set("traces_validated_against_impl", schedules)
	res.Set("micro_schedules", schedules)
	res.Set("micro_preemption_bound_completed", int64(bound))
	res.Set("micro_scenarios", summary)
	res.Set("exhaustive", exhaustive)
	ks := make([]string, 0, len(outcomes))
	for k := range outcomes {
		ks = append(ks, k)
	}
	sort.Strings(ks)
	for i := 0; i < len(ks) && i < 4; i++ {
		res.Sample(map[string]any{"micro_outcome": ks[i], "schedules": outcomes[ks[i]]})
	}
	res.Assume("micro level: scheduling points at lock acquisitions, channel operations and goroutine starts of provider.go, multi_mux_manager.go, managed_mux_session.go, multi_client_conn.go, establisher.go and receiver.go (the last two over an in-memory network); yamux and gRPC goroutines run free")
}

func TestVerifC10Micro(t *testing.T) {
	scenarios := map[string]func(s *vrt.Sched) (string, string, string){
		"pool1-peer-dies-during-connect":     vfPoolMicro(1, "killPeer"),
		"pool2-peer-dies-during-connect":     vfPoolMicro(2, "killPeer"),
		"pool1-lifetime-ends-during-connect": vfPoolMicro(1, "cancel"),
		// the real connection providers (establisher.go / receiver.go) over the in-memory network
		"real-receiver-lifetime-ends-during-accept":  vfPoolMicroOn(1, "cancel", "receiver", true),
		"real-receiver-peer-dies-during-accept":      vfPoolMicroOn(1, "killPeer", "receiver", true),
		"real-establisher-lifetime-ends-during-dial": vfPoolMicroOn(1, "cancel", "establisher", true),
		// a reader of the manager's state (status log, health check) runs while the session table changes
		"pool1-peer-dies-while-state-is-read": vfPoolMicroWith(1, "killPeer", "establisher", false, true),
	}
	if vrt.Thorough() {
		scenarios["pool1-lifetime-ends-while-state-is-read"] = vfPoolMicroWith(1, "cancel", "establisher", false, true)
	}
	vfMicroRun(t, "C10", "TestVerifC10Micro", scenarios)
}

func TestVerifC11Micro(t *testing.T) {
	vfMicroRun(t, "C11", "TestVerifC11Micro", map[string]func(s *vrt.Sched) (string, string, string){
		"add-add-while-first-peer-dies": vfListMicro(),
	})
}
