//go:build verif

package mux
