//go:build verif

package mux

// C11: real multiMuxManager -> real grpcutil.MultiClientConn (as its connection-list listener) -> real gRPC
// over real yamux sessions on in-memory pipes, in a synctest bubble. Explicit-state BFS over sequences of
// session additions, local closes, peer deaths and RPCs.

import (
	"context"
	"crypto/sha1"
	"encoding/json"
	"fmt"
	"net"
	"os"
	"runtime"
	"sort"
	"strings"
	"sync"
	"testing"
	"testing/synctest"
	"time"

	"github.com/hashicorp/yamux"
	"go.temporal.io/server/api/adminservice/v1"
	"go.temporal.io/server/common/log"
	"google.golang.org/grpc"
	"google.golang.org/grpc/codes"
	"google.golang.org/grpc/status"

	"github.com/temporalio/s2s-proxy/config"
	vrt "github.com/temporalio/s2s-proxy/internal/verifrt"
	"github.com/temporalio/s2s-proxy/metrics"
	"github.com/temporalio/s2s-proxy/transport/grpcutil"
	"github.com/temporalio/s2s-proxy/transport/mux/session"
)

type vfEchoAdmin struct {
	adminservice.UnimplementedAdminServiceServer
	name string
}

func (e *vfEchoAdmin) DescribeCluster(context.Context, *adminservice.DescribeClusterRequest) (*adminservice.DescribeClusterResponse, error) {
	return &adminservice.DescribeClusterResponse{ClusterName: e.name}, nil
}

type vfCCPeer struct {
	conn   net.Conn
	sess   *yamux.Session
	srv    *grpc.Server
	killed bool
	name   string
	mute   *vfMuteConn
	// closedLocally: the proxy closed the session of this peer itself (closeLocal)
	closedLocally bool
	// incoming yamux streams, accepted once per session and handed to the current gRPC server incarnation
	streams    chan net.Conn
	acceptDone chan struct{}
}

// vfSessWrap is what the client connection is handed for a registered session: the real ManagedMuxSession,
// except that the environment can make its next Open fail once (a transient yamux failure on a live session:
// write timeout, stream exhaustion) and can put its health state to Error (what healthCheck does after one
// failed ping) without the session ending.
type vfSessWrap struct {
	session.ManagedMuxSession
	e  *vfCCExec
	id string
}

func (w *vfSessWrap) Open() (net.Conn, error) {
	w.e.smu.Lock()
	stall := w.e.stalled[w.id]
	w.e.smu.Unlock()
	if stall != nil {
		select {
		case <-stall:
		default:
			// the peer has stopped accepting streams (its accept backlog is full): opening a stream blocks until the
			// session ends
			w.e.logf("Open on session %s blocks (peer does not accept streams)", w.id)
			<-stall
			return nil, yamux.ErrSessionShutdown
		}
	}
	if w.e.failOpen[w.id] > 0 {
		w.e.failOpen[w.id]--
		w.e.logf("Open on session %s fails once (transient)", w.id)
		return nil, yamux.ErrConnectionWriteTimeout
	}
	return w.ManagedMuxSession.Open()
}

func (w *vfSessWrap) State() *session.MuxSessionInfo {
	if w.e.degraded[w.id] {
		return &session.MuxSessionInfo{State: session.Error, Err: yamux.ErrConnectionWriteTimeout}
	}
	return w.ManagedMuxSession.State()
}

// OnConnectionListUpdate makes vfCCExec the listener the manager notifies; it forwards to the real
// MultiClientConn with every session wrapped.
func (e *vfCCExec) OnConnectionListUpdate(muxes map[string]session.ManagedMuxSession) {
	wrapped := make(map[string]session.ManagedMuxSession, len(muxes))
	for k, v := range muxes {
		wrapped[k] = &vfSessWrap{ManagedMuxSession: v, e: e, id: k}
	}
	e.mcc.OnConnectionListUpdate(wrapped)
}

// vfPeerListener lets a peer's gRPC server be stopped and replaced without closing the yamux session it
// serves on: one acceptor goroutine per session feeds incoming streams to whichever listener incarnation is
// current; closing an incarnation only ends its own Accept.
type vfPeerListener struct {
	p      *vfCCPeer
	closed chan struct{}
	once   sync.Once
}

func (p *vfCCPeer) listener() *vfPeerListener {
	if p.streams == nil {
		p.streams = make(chan net.Conn)
		p.acceptDone = make(chan struct{})
		go func() {
			defer close(p.acceptDone)
			for {
				c, err := p.sess.Accept()
				if err != nil {
					return
				}
				select {
				case p.streams <- c:
				case <-p.sess.CloseChan():
					_ = c.Close()
					return
				}
			}
		}()
	}
	return &vfPeerListener{p: p, closed: make(chan struct{})}
}

func (l *vfPeerListener) Accept() (net.Conn, error) {
	select {
	case c := <-l.p.streams:
		return c, nil
	case <-l.closed:
		return nil, net.ErrClosed
	case <-l.p.acceptDone:
		return nil, net.ErrClosed
	}
}
func (l *vfPeerListener) Close() error   { l.once.Do(func() { close(l.closed) }); return nil }
func (l *vfPeerListener) Addr() net.Addr { return l.p.sess.Addr() }

// vfMuteConn is the proxy's end of a connection that can turn into a black hole: once muted, what the proxy writes
// vanishes and nothing arrives any more - no data, no EOF, no reset (a partition, a NAT entry that timed out). Only the
// proxy's own Close ends it.
type vfMuteConn struct {
	net.Conn
	mu     sync.Mutex
	muted  bool
	closed chan struct{}
	once   sync.Once
}

func (c *vfMuteConn) isMuted() bool { c.mu.Lock(); defer c.mu.Unlock(); return c.muted }
func (c *vfMuteConn) Read(p []byte) (int, error) {
	if !c.isMuted() {
		n, err := c.Conn.Read(p)
		if !c.isMuted() {
			return n, err
		}
	}
	<-c.closed
	return 0, net.ErrClosed
}
func (c *vfMuteConn) Write(p []byte) (int, error) {
	if c.isMuted() {
		select {
		case <-c.closed:
			return 0, net.ErrClosed
		default:
			return len(p), nil
		}
	}
	return c.Conn.Write(p)
}
func (c *vfMuteConn) Close() error {
	c.once.Do(func() { close(c.closed) })
	return c.Conn.Close()
}

type vfCCScenario struct {
	Size  int `json:"size"`
	Depth int `json:"depth"`
	// MaxFaults bounds the environment faults (degrade, failOpen, bounce) per path.
	MaxFaults int `json:"max_faults"`
	// Real: the manager is built by the real NewGRPCMuxManager (mux-client definition: the real establisher over
	// the in-memory network, the per-session gRPC server and yamux observer, the listener wiring of
	// grpc_mux_manager.go); otherwise NewCustomMultiMuxManager over a harness connProvider.
	Real bool `json:"real,omitempty"`
}

type vfCCJob struct {
	Sc    vfCCScenario `json:"sc"`
	Path  []string     `json:"path"`
	Trace bool         `json:"trace"`
}

type vfCCExec struct {
	// pristine: only add and rpc actions so far (no fault, no session ended)
	pristine bool
	sc       vfCCScenario
	mm       *multiMuxManager
	mcc      *grpcutil.MultiClientConn
	cp       *vfConnProvider
	fn       *vfFakeNet
	cancel   context.CancelFunc
	peers    []*vfCCPeer
	idToPeer map[string]int
	viol     []vfViolation
	events   []string
	rpcs     int
	now      int
	failOpen map[string]int
	degraded map[string]bool
	faults   int
	idled    bool
	// stalled[id]: Open on that session blocks until the channel is closed (session ended / teardown)
	smu     sync.Mutex
	stalled map[string]chan struct{}
}

func (e *vfCCExec) release(id string) {
	e.smu.Lock()
	defer e.smu.Unlock()
	for k, ch := range e.stalled {
		if id == "" || k == id {
			select {
			case <-ch:
			default:
				close(ch)
			}
		}
	}
}

func (e *vfCCExec) isStalled(id string) bool {
	e.smu.Lock()
	defer e.smu.Unlock()
	ch := e.stalled[id]
	if ch == nil {
		return false
	}
	select {
	case <-ch:
		return false
	default:
		return true
	}
}

func (e *vfCCExec) violate(sig, detail string) {
	for _, v := range e.viol {
		if v.Signature == sig {
			return
		}
	}
	e.viol = append(e.viol, vfViolation{sig, detail})
}
func (e *vfCCExec) logf(f string, a ...any) { e.events = append(e.events, fmt.Sprintf(f, a...)) }

func vfNewCCExec(sc vfCCScenario) *vfCCExec {
	e := &vfCCExec{sc: sc, idToPeer: map[string]int{}, failOpen: map[string]int{}, degraded: map[string]bool{}, stalled: map[string]chan struct{}{}, pristine: true}
	// the goroutine that swaps the client connection's dial map is late by a millisecond: what it started before asking
	// for the lock runs first
	vrt.LazyLock = func(site string) bool { return strings.HasPrefix(site, "multi_client_conn.go:") }
	lifetime, cancel := context.WithCancel(context.Background())
	e.cancel = cancel
	logger := log.NewNoopLogger()
	// as proxy/cluster_connection.go createClient builds it: name "client-conn-<connection name>" (here a connection
	// name with digits in it) and the production dial options (round_robin over the sessions, the repairing codec)
	mcc, err := grpcutil.NewMultiClientConn(lifetime, "client-conn-cluster-10", grpcutil.MakeDialOptions(nil, metrics.GetGRPCClientMetrics("outbound"))...)
	if err != nil {
		panic(err)
	}
	e.mcc = mcc
	if sc.Real {
		e.fn = vfNewFakeNet()
		vrt.SetFakeNet(&vrt.FakeNet{Dial: e.fn.dial, Listen: e.fn.listen})
		cd := config.ClusterDefinition{ConnectionType: config.ConnTypeMuxClient, MuxCount: sc.Size,
			MuxAddressInfo: config.TCPTLSInfo{ConnectionString: "verif-peer:7233"}}
		mm, err := NewGRPCMuxManager(lifetime, "verif", cd, e, grpc.NewServer(), logger)
		if err != nil {
			panic(err)
		}
		e.mm = mm.(*multiMuxManager)
		e.mm.Start() // the provider, the once-a-minute status goroutine and the start-up delay (virtual time)
		return e
	}
	builder := func(add AddNewMux, ctx context.Context) (MuxProvider, error) {
		e.cp = &vfConnProvider{lifetime: ctx, offers: make(chan vfOffer)}
		// (this family's yamux settings are the harness's: keep-alive every 5 minutes, so that the session's own health
		// check - every minute - records a failed ping well before yamux gives the connection up)
		sessionFn := func(conn net.Conn) (*yamux.Session, error) {
			cfg := vfYamuxConfig()
			cfg.KeepAliveInterval = 5 * time.Minute
			return yamux.Client(conn, cfg)
		}
		return NewMuxProvider(ctx, "verif", e.cp, sessionFn, int64(sc.Size), add, []string{"verif", "mux", "cc"}, logger), nil
	}
	mm, err := NewCustomMultiMuxManager(lifetime, "verif", builder, nil, []OnConnectionListUpdate{e.OnConnectionListUpdate}, logger)
	if err != nil {
		panic(err)
	}
	e.mm = mm.(*multiMuxManager)
	e.mm.Start() // the provider, the once-a-minute status goroutine and the start-up delay (virtual time)
	return e
}

func (e *vfCCExec) add() {
	a, b := net.Pipe()
	i := len(e.peers)
	p := &vfCCPeer{conn: b, name: fmt.Sprintf("peer-%d", i)}
	var err error
	if p.sess, err = yamux.Server(b, vfYamuxConfig()); err != nil {
		panic(err)
	}
	p.srv = grpc.NewServer()
	adminservice.RegisterAdminServiceServer(p.srv, &vfEchoAdmin{name: p.name})
	go func(srv *grpc.Server, l net.Listener) { _ = srv.Serve(l) }(p.srv, p.listener())
	before := e.liveIDs()
	e.peers = append(e.peers, p)
	e.logf("session to %s offered", p.name)
	p.mute = &vfMuteConn{Conn: a, closed: make(chan struct{})}
	e.offers() <- vfOffer{conn: p.mute}
	vfCCWait()
	for _, id := range e.liveIDs() {
		found := false
		for _, b := range before {
			if b == id {
				found = true
			}
		}
		if !found {
			e.idToPeer[id] = i
		}
	}
}

func (e *vfCCExec) waiting() bool {
	if e.fn != nil {
		return e.fn.waiting
	}
	return e.cp.waiting
}

func (e *vfCCExec) offers() chan vfOffer {
	if e.fn != nil {
		return e.fn.offers
	}
	return e.cp.offers
}

// settle (real establisher only): after a dial that timed out the provider sleeps its back-off (random jitter) before
// it dials again; states are taken when it is dialling again, so that what is enabled does not depend on the jitter.
func (e *vfCCExec) settle() {
	if e.fn == nil {
		return
	}
	for i := 0; i < 120 && e.fn.lastFailed && !e.fn.waiting; i++ {
		time.Sleep(time.Second)
		vfCCWait()
	}
}

func (e *vfCCExec) liveIDs() []string {
	m := e.mm.GetMuxConnections()
	ids := make([]string, 0, len(m))
	for k := range m {
		ids = append(ids, k)
	}
	sort.Strings(ids)
	return ids
}

func (e *vfCCExec) livePeerNames() map[string]bool {
	out := map[string]bool{}
	for _, id := range e.liveIDs() {
		if pi, ok := e.idToPeer[id]; ok && !e.peers[pi].killed {
			out[e.peers[pi].name] = true
		}
	}
	return out
}

// consistency: the set of endpoints the client connection may dial equals the set of registered sessions.
func (e *vfCCExec) consistency(when string) {
	ids := e.liveIDs()
	d := e.mcc.Describe()
	var keys []string
	if i := strings.Index(d, "conns={"); i >= 0 {
		body := d[i+len("conns={") : strings.LastIndex(d, "}")]
		for _, part := range strings.Split(body, "=[connFn]") {
			if part != "" {
				keys = append(keys, part)
			}
		}
	}
	sort.Strings(keys)
	// every connection the provider was given and that neither side has ended is a registered session
	wantLive := 0
	for _, p := range e.peers {
		if !p.killed && !p.closedLocally {
			wantLive++
		}
	}
	if len(ids) != wantLive {
		e.violate("consistency/registered-sessions-differ-from-live-connections", fmt.Sprintf("%s: %d connections were established and not ended by either side, %d sessions are registered (%v)", when, wantLive, len(ids), ids))
	}
	if fmt.Sprint(keys) != fmt.Sprint(ids) {
		e.violate("consistency/dialable-endpoints-differ-from-registered-sessions", fmt.Sprintf("%s: registered sessions %v, client connection can dial %v", when, ids, keys))
	}
	if e.mcc.CanMakeCalls() != (len(ids) > 0) {
		e.violate("consistency/can-make-calls", fmt.Sprintf("%s: CanMakeCalls()=%v with %d registered sessions", when, e.mcc.CanMakeCalls(), len(ids)))
	}
}

// vfCCWait: quiescence, including goroutines that are merely late for a lock (verifrt.LazyLock)
func vfCCWait() {
	for {
		synctest.Wait()
		if !vrt.LazyPending() {
			return
		}
		time.Sleep(time.Millisecond)
	}
}

func (e *vfCCExec) rpc() {
	e.rpcs++
	live := e.livePeerNames()
	client := adminservice.NewAdminServiceClient(e.mcc)
	var lastErr error
	served := ""
	var firstErr error
	for attempt := 0; attempt < 3 && served == ""; attempt++ {
		ctx, cancel := context.WithTimeout(context.Background(), 2*time.Second)
		resp, err := client.DescribeCluster(ctx, &adminservice.DescribeClusterRequest{})
		cancel()
		if err == nil {
			served = resp.ClusterName
			break
		}
		if attempt == 0 {
			firstErr = err
		}
		lastErr = err
		time.Sleep(2 * time.Second)
		vfCCWait()
	}
	e.logf("rpc: served by %q err=%v (live peers %v)", served, lastErr, live)
	usable := 0
	for _, id := range e.liveIDs() {
		if pi, ok := e.idToPeer[id]; ok && !e.peers[pi].killed && !e.isStalled(id) {
			usable++
		}
	}
	if len(live) > 0 && usable == 0 {
		// every live session has a peer that does not accept streams: a call may fail, but may only be served by a live one
		if served != "" && !live[served] {
			e.violate("rpc/served-over-unregistered-session", fmt.Sprintf("call answered by %s, live registered sessions are %v", served, live))
		}
	} else if len(live) > 0 {
		if firstErr != nil && e.pristine {
			// nothing has gone wrong on this path (no fault, no session ended): the update that registered the sessions has
			// been applied, so every endpoint is dialable and the very first call is served
			e.violate("rpc/first-call-refused-although-nothing-ever-failed", fmt.Sprintf("live sessions to %v, no fault and no session end on this path, yet the first call failed: %v", live, firstErr))
		}
		if served == "" {
			e.violate("rpc/fails-although-a-session-is-live", fmt.Sprintf("live sessions to %v, but 3 calls (2 s deadline each, 2 s apart) all failed: %v", live, lastErr))
		} else if !live[served] {
			e.violate("rpc/served-over-unregistered-session", fmt.Sprintf("call answered by %s, live registered sessions are %v", served, live))
		}
	} else if served != "" {
		e.violate("rpc/served-although-no-session-registered", fmt.Sprintf("no session is registered, yet the call was answered by %s", served))
	} else if len(e.idToPeer) > 0 && status.Code(lastErr) != codes.Unavailable {
		// sessions existed and none remains: the client connection has been told so (an empty endpoint list), and a call
		// is answered with Unavailable at once - it does not wait for its deadline
		e.violate("rpc/no-session-left-but-not-reported-unavailable", fmt.Sprintf("every session is gone, the call ended with %v (want code Unavailable)", lastErr))
	}
}

func (e *vfCCExec) enabled() []string {
	var out []string
	if e.waiting() && len(e.peers) < e.sc.Size+2 {
		out = append(out, "add")
	}
	for _, id := range e.liveIDs() {
		out = append(out, "closeLocal:"+id)
		if pi, ok := e.idToPeer[id]; ok && !e.peers[pi].killed {
			out = append(out, fmt.Sprintf("killPeer:%d", pi))
		}
	}
	if e.rpcs < 3 {
		out = append(out, "rpc")
	}
	if !e.idled {
		out = append(out, "idle")
	}
	if e.faults < e.sc.MaxFaults {
		for _, id := range e.liveIDs() {
			if !e.degraded[id] {
				out = append(out, "degrade:"+id)
			}
			if e.failOpen[id] == 0 {
				out = append(out, "failOpen:"+id)
			}
			if pi, ok := e.idToPeer[id]; ok && !e.peers[pi].killed {
				out = append(out, fmt.Sprintf("bounce:%d", pi))
				if !e.isStalled(id) {
					out = append(out, "stall:"+id)
				}
				out = append(out, fmt.Sprintf("blackhole:%d", pi))
			}
		}
	}
	return out
}

func (e *vfCCExec) apply(a string) error {
	f := strings.SplitN(a, ":", 2)
	if f[0] != "add" && f[0] != "rpc" {
		e.pristine = false
	}
	switch f[0] {
	case "add":
		if !e.waiting() {
			return fmt.Errorf("action %s not enabled", a)
		}
		e.add()
	case "closeLocal":
		s, ok := e.mm.GetMuxConnections()[f[1]]
		if !ok {
			return fmt.Errorf("action %s not enabled", a)
		}
		e.logf("session %s closed locally", f[1])
		if pi, ok := e.idToPeer[f[1]]; ok {
			e.peers[pi].closedLocally = true
		}
		s.Close()
		e.release(f[1])
	case "killPeer":
		var i int
		fmt.Sscan(f[1], &i)
		p := e.peers[i]
		p.killed = true
		e.logf("%s dies", p.name)
		p.srv.Stop()
		_ = p.sess.Close()
		_ = p.conn.Close()
		for id, pi := range e.idToPeer {
			if pi == i {
				e.release(id)
			}
		}
	case "blackhole":
		// the connection of this session goes silent (no data, no EOF, no reset); 7 minutes later the session must be gone:
		// the failed pings are recorded by the session's health check, the keep-alive gives the connection up
		var i int
		fmt.Sscan(f[1], &i)
		p := e.peers[i]
		if p.killed || p.mute == nil {
			return fmt.Errorf("action %s not enabled", a)
		}
		e.faults++
		e.logf("the connection to %s goes silent (black hole)", p.name)
		p.mute.mu.Lock()
		p.mute.muted = true
		p.mute.mu.Unlock()
		p.killed = true
		for id, pi := range e.idToPeer {
			if pi == i {
				e.release(id)
			}
		}
		time.Sleep(7 * time.Minute)
	case "stall":
		// the peer of this session stops accepting streams while the session stays up, and its gRPC server restarts:
		// the client's transport on the session ends, gRPC dials the endpoint again and that dial stays pending
		pi, ok := e.idToPeer[f[1]]
		if !ok || e.peers[pi].killed {
			return fmt.Errorf("action %s not enabled", a)
		}
		e.faults++
		e.smu.Lock()
		e.stalled[f[1]] = make(chan struct{})
		e.smu.Unlock()
		p := e.peers[pi]
		e.logf("%s stops accepting streams on session %s (session stays up); its transport ends", p.name, f[1])
		p.srv.Stop()
		p.srv = grpc.NewServer()
		adminservice.RegisterAdminServiceServer(p.srv, &vfEchoAdmin{name: p.name})
		go func(srv *grpc.Server, l net.Listener) { _ = srv.Serve(l) }(p.srv, p.listener())
	case "rpc":
		e.rpc()
	case "idle":
		// a quiet period longer than gRPC's idle timeout (30 min): the channel goes idle and rebuilds its resolver at
		// the next call
		e.idled = true
		e.logf("31 minutes without calls")
		time.Sleep(31 * time.Minute)
	case "degrade":
		e.faults++
		e.degraded[f[1]] = true
		e.logf("session %s: health state Error (one ping failed), session still up", f[1])
	case "failOpen":
		e.faults++
		e.failOpen[f[1]] = 1
	case "bounce":
		// the peer's gRPC server restarts on the same yamux session: the client's HTTP/2 transport on that session
		// ends and gRPC dials the endpoint again
		var i int
		fmt.Sscan(f[1], &i)
		e.faults++
		p := e.peers[i]
		e.logf("%s: gRPC server restarts (session stays up)", p.name)
		p.srv.Stop()
		p.srv = grpc.NewServer()
		adminservice.RegisterAdminServiceServer(p.srv, &vfEchoAdmin{name: p.name})
		go func(srv *grpc.Server, l net.Listener) { _ = srv.Serve(l) }(p.srv, p.listener())
	default:
		return fmt.Errorf("unknown action %s", a)
	}
	return nil
}

func (e *vfCCExec) key() string {
	var sb strings.Builder
	var deg, fo []string
	for id, d := range e.degraded {
		if d {
			deg = append(deg, id)
		}
	}
	for id, n := range e.failOpen {
		if n > 0 {
			fo = append(fo, id)
		}
	}
	var st []string
	for _, id := range e.liveIDs() {
		if e.isStalled(id) {
			st = append(st, id)
		}
	}
	sort.Strings(deg)
	sort.Strings(fo)
	fmt.Fprintf(&sb, "live=%v waiting=%v rpcs=%d faults=%d degraded=%v failOpen=%v stalled=%v idled=%v|", e.liveIDs(), e.waiting(), e.rpcs, e.faults, deg, fo, st, e.idled)
	for i, p := range e.peers {
		fmt.Fprintf(&sb, "%d:%v,", i, p.killed)
	}
	return sb.String()
}

func vfRunCC(t *testing.T, job *vfCCJob) (out vfPoolOut) {
	done := make(chan struct{})
	go func() {
		defer close(done)
		defer func() {
			if p := recover(); p != nil {
				out.Err = fmt.Sprintf("bubble: %v", p)
			}
		}()
		synctest.Test(t, func(t *testing.T) {
			vrt.ResetLocks()
			e := vfNewCCExec(job.Sc)
			vfCCWait()
			e.consistency("initially")
			// every step runs under a watchdog in virtual time: a step that has not completed after 3 hours (the longest action, idle, takes 31 minutes) is stuck
			// (the rewritten locks park, so a goroutine waiting for a lock nobody releases does not stop the clock)
			step := func(what string, f func()) bool {
				fin := make(chan struct{})
				go func() { defer close(fin); f() }()
				tm := time.NewTimer(3 * time.Hour)
				defer tm.Stop()
				select {
				case <-fin:
					return true
				case <-tm.C:
					e.violate("stuck/session-list-update-blocked", fmt.Sprintf("%s has not completed after 3 hours of virtual time; goroutines waiting for a lock: %v", what, vrt.BlockedLockers()))
					// the verdict is recorded at once: what follows only lets the bubble end
					out.Viol, out.Events = e.viol, e.events
					e.release("")
					again := time.NewTimer(time.Minute)
					defer again.Stop()
					select {
					case <-fin:
					case <-again.C:
						// still stuck (a lock nobody will release): the parked goroutines leave, running their deferred calls
						vrt.AbandonBlockedLockers()
						<-fin
					}
					return false
				}
			}
			for _, a := range job.Path {
				ok := step("action "+a, func() {
					if err := e.apply(a); err != nil {
						out.Err = err.Error()
						return
					}
					vfCCWait()
					e.settle()
					e.consistency("after " + a)
				})
				if !ok || out.Err != "" {
					break
				}
			}
			if out.Err == "" && len(e.viol) == 0 {
				step("the closing calls", func() {
					out.Key = e.key()
					out.Enabled = e.enabled()
					// closing: a call in the state reached, then (if nothing is live) a new session appears and calls resume
					e.rpc()
					if len(e.livePeerNames()) == 0 && e.waiting() {
						e.add()
						vfCCWait()
						e.consistency("after a new session appeared")
						e.rpc()
					}
				})
			}
			e.release("")
			e.cancel()
			for _, p := range e.peers {
				p.srv.Stop()
				_ = p.sess.Close()
				_ = p.conn.Close()
			}
			time.Sleep(2 * time.Minute)
			vfCCWait()
			vrt.AbandonBlockedLockers()
			vfCCWait()
			vrt.SetFakeNet(nil)
			out.Viol = e.viol
			out.Outcome = fmt.Sprintf("peers=%d rpcs=%d", len(e.peers), e.rpcs)
			if job.Trace || len(e.viol) > 0 {
				out.Events = e.events
			}
		})
	}()
	<-done
	runtime.GC()
	runtime.GC()
	return out
}

func TestVerifC11(t *testing.T) {
	if vrt.IsWorker() {
		vrt.ServeWorker(func(js string) string {
			var job vfCCJob
			if err := json.Unmarshal([]byte(js), &job); err != nil {
				return `{"err":"bad job"}`
			}
			out := vfRunCC(t, &job)
			b, _ := json.Marshal(out)
			return string(b)
		})
		return
	}
	res := vrt.NewResult("C11", "model_checking")
	defer func() {
		if err := res.Write(); err != nil {
			t.Fatal(err)
		}
	}()
	if p := vrt.ReplayPath(); p != "" {
		raw, _ := os.ReadFile(p)
		var job vfCCJob
		_ = json.Unmarshal(raw, &job)
		job.Trace = true
		out := vfRunCC(t, &job)
		for _, v := range out.Viol {
			res.Violate(v.Signature, v.Detail+"\ntrace:\n  "+strings.Join(out.Events, "\n  "), job)
		}
		t.Logf("replay: %+v", out)
		return
	}
	scs := []vfCCScenario{{Size: 2, Depth: 5, MaxFaults: 2}, {Size: 2, Depth: 4, MaxFaults: 1, Real: true}}
	if vrt.Thorough() {
		scs = []vfCCScenario{{Size: 3, Depth: 7, MaxFaults: 2}, {Size: 3, Depth: 6, MaxFaults: 2, Real: true}}
	}
	pool := vrt.NewPool("TestVerifC11", vrt.Workers(), 120*time.Second)
	deadline := vrt.Deadline()
	type node struct {
		path    []string
		enabled []string
	}
	var harnessErrs []string
	transitions, states, d := 0, 0, 0
	exhaustive := true
	outcomes := map[string]bool{}
	var summary []string
	var sc vfCCScenario
	for _, sc = range scs {
		seen := map[[20]byte]bool{}
		mk := func(p []string) string { b, _ := json.Marshal(vfCCJob{Sc: sc, Path: p}); return string(b) }
		handle := func(path []string, r vrt.JobResult) *node {
			if r.Crashed && vrt.CrashInCodeUnderTest(r.Stderr) {
				res.Violate("session-list/process-crash", fmt.Sprintf("pool size %d, actions %v: the process died in the code under test\n%.1500s", sc.Size, path, r.Stderr), vfCCJob{Sc: sc, Path: path})
				return nil
			}
			if r.Crashed || r.TimedOut {
				harnessErrs = append(harnessErrs, fmt.Sprintf("worker crashed=%v timedOut=%v on %v: %.300s", r.Crashed, r.TimedOut, path, r.Stderr))
				return nil
			}
			var out vfPoolOut
			if err := json.Unmarshal([]byte(r.Out), &out); err != nil {
				harnessErrs = append(harnessErrs, "bad output "+r.Out)
				return nil
			}
			for _, v := range out.Viol {
				res.Violate(v.Signature, fmt.Sprintf("pool size %d, actions %v: %s\ntrace:\n  %s", sc.Size, path, v.Detail, strings.Join(out.Events, "\n  ")), vfCCJob{Sc: sc, Path: path})
			}
			if len(out.Viol) > 0 && out.Err != "" {
				return nil // the verdicts of this execution stand; how its bubble ended does not matter any more
			}
			if out.Err != "" && !strings.Contains(out.Err, "blocked goroutines remain") {
				harnessErrs = append(harnessErrs, fmt.Sprintf("%s on %v", out.Err, path))
				return nil
			}
			outcomes[out.Outcome] = true
			hk := sha1.Sum([]byte(out.Key))
			if seen[hk] {
				return nil
			}
			seen[hk] = true
			return &node{path, out.Enabled}
		}
		frontier := []*node{}
		if n0 := handle(nil, pool.Map([]string{mk(nil)}, nil)[0]); n0 != nil {
			frontier = append(frontier, n0)
		}
		for d = 1; d <= sc.Depth && len(frontier) > 0; d++ {
			if time.Now().After(deadline) {
				exhaustive = false
				break
			}
			var jobs []string
			var paths [][]string
			for _, nd := range frontier {
				for _, a := range nd.enabled {
					p := append(append([]string(nil), nd.path...), a)
					paths = append(paths, p)
					jobs = append(jobs, mk(p))
				}
			}
			var next []*node
			for i, r := range pool.Map(jobs, nil) {
				transitions++
				if nd := handle(paths[i], r); nd != nil {
					next = append(next, nd)
				}
			}
			frontier = next
		}
		states += len(seen)
		fam := "harness connProvider"
		if sc.Real {
			fam = "NewGRPCMuxManager (real establisher, in-memory network)"
		}
		summary = append(summary, fmt.Sprintf("%s, pool size %d: %d states to depth %d", fam, sc.Size, len(seen), d-1))
	}
	res.Set("states", int64(states))
	res.Set("scenarios", summary)
	res.Set("transitions", int64(transitions))
	res.Set("traces_validated_against_impl", int64(transitions))
	res.Set("depth_completed", int64(d-1))
	res.Set("pool_size", int64(sc.Size))
	res.Set("distinct_outcomes", int64(len(outcomes)))
	res.Set("exhaustive", exhaustive && len(harnessErrs) == 0)
	res.Set("harness_errors", harnessErrs)
	res.Set("alphabet", "add (new yamux session with a gRPC echo server behind it), closeLocal(id), killPeer(i), rpc (DescribeCluster, up to 3 tries of 2 s each 2 s apart), idle (31 minutes without calls, once), and up to max_faults of: degrade(id) (the session's health state reads Error while it stays up), failOpen(id) (its next Open fails once), bounce(i) (the peer's gRPC server restarts on the same session, so the client redials), stall(id) (the peer stops accepting streams while the session stays up and its transport ends: the redial stays pending until the session ends), blackhole(i) (the connection goes silent - no data, no EOF - and 7 minutes pass: the session must be gone); after every path a closing rpc and, if nothing is live, a new session followed by an rpc")
	res.Set("explanation", "every transition runs the real multiMuxManager (listener = real MultiClientConn.OnConnectionListUpdate; second family: built by the real NewGRPCMuxManager with the real establisher over an in-memory network), real yamux and a real grpc.ClientConn/Server pair in a synctest bubble; after every action the dialable endpoint set is compared with the registered sessions and CanMakeCalls; no separate model")
	res.Sample(map[string]any{"pool_size": sc.Size, "states": states})
	res.Assume("the client connection is built as createClient builds it (name client-conn-<connection name>, production dial options: round_robin); every step runs under a 3-hour virtual-time watchdog (rewritten locks park instead of blocking the clock)")
	res.Assume("gRPC and yamux internals run free (in virtual time) between actions; a call is given 3 tries within 10 s of virtual time before 'fails although a session is live' is reported")
}
