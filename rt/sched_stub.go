package verifrt

// placeholder until the cooperative scheduler (micro level) is linked in: no scheduler active.
type schedIface interface {
	lock(site string, m any, read bool)
	unlock(site string, m any, read bool)
}

var activeSched schedIface

func curSched() schedIface { return activeSched }

// Point is a scheduling point inserted by the rewriter (rule "points"); a no-op without a scheduler.
func Point(site, kind string) {}

// Go starts a goroutine spawned by rewritten code (rule "go"); plain go without a scheduler.
func Go(site string, f func()) { go f() }
