package verifrt

// Temporal-specific reference semantics shared by the translation / ACL checks: what a namespace-name
// field, an event-bearing blob and a search-attribute container are (by protobuf descriptor), reference
// translations, deterministic fully populated messages. Generated from the harness helpers so that both the
// interceptor-level and the wiring-level checks use one definition.

import (
	"sort"
	"strings"
	"sync"

	commonpb "go.temporal.io/api/common/v1"
	"google.golang.org/protobuf/proto"
	"google.golang.org/protobuf/reflect/protoreflect"
	"google.golang.org/protobuf/reflect/protoregistry"
)

// IsNamespaceNameField: the reference definition of "a field that carries a namespace name", by
// protobuf descriptor (not by Go field name): a singular string field named namespace or *_namespace, and
// NamespaceInfo.name. (*_namespace_id fields are ids, not names.)
func IsNamespaceNameField(fd protoreflect.FieldDescriptor) bool {
	if fd.Kind() != protoreflect.StringKind || fd.IsList() || fd.IsMap() {
		return false
	}
	n := string(fd.Name())
	if n == "namespace" || strings.HasSuffix(n, "_namespace") {
		return true
	}
	return fd.FullName() == "temporal.api.namespace.v1.NamespaceInfo.name"
}

var EventTypeEnum protoreflect.EnumDescriptor
var eventTypeOnce sync.Once

func EventTypeFor(attrField protoreflect.FieldDescriptor) (protoreflect.EnumNumber, bool) {
	eventTypeOnce.Do(func() {
		et, err := protoregistry.GlobalTypes.FindEnumByName("temporal.api.enums.v1.EventType")
		if err != nil {
			panic(err)
		}
		EventTypeEnum = et.Descriptor()
	})
	n := string(attrField.Name())
	if !strings.HasSuffix(n, "_event_attributes") {
		return 0, false
	}
	name := "EVENT_TYPE_" + strings.ToUpper(strings.TrimSuffix(n, "_event_attributes"))
	v := EventTypeEnum.Values().ByName(protoreflect.Name(name))
	if v == nil {
		return 0, false
	}
	return v.Number(), true
}

const HistoryEventName = protoreflect.FullName("temporal.api.history.v1.HistoryEvent")

// DecorateEvent keeps HistoryEvent.event_type consistent with the attributes arm the path goes through
// (real events always are); for paths through other fields of an event (links) it uses a type that is on
// the skip list, the hardest case for the shortcut.
func DecorateEvent(m protoreflect.Message, next protoreflect.FieldDescriptor) {
	if m.Descriptor().FullName() != HistoryEventName {
		return
	}
	etField := m.Descriptor().Fields().ByName("event_type")
	if n, ok := EventTypeFor(next); ok {
		m.Set(etField, protoreflect.ValueOfEnum(n))
	} else {
		m.Set(etField, protoreflect.ValueOfEnum(6)) // EVENT_TYPE_WORKFLOW_TASK_STARTED, skippable
	}
	m.Set(m.Descriptor().Fields().ByName("event_id"), protoreflect.ValueOfInt64(5))
}

// PadSkippableEvent puts a skippable event in front of the event that carries the path.
func PadSkippableEvent(f protoreflect.FieldDescriptor) protoreflect.Message {
	if f.Message().FullName() != HistoryEventName {
		return nil
	}
	ev := NewMessage(f.Message())
	ev.Set(f.Message().Fields().ByName("event_type"), protoreflect.ValueOfEnum(6))
	ev.Set(f.Message().Fields().ByName("event_id"), protoreflect.ValueOfInt64(4))
	return ev
}

// PadFailedActivityEvent: an ActivityTaskFailed event whose failure message is the marker "MSG~" (the harness turns
// the marker into invalid UTF-8 in the encoded batch afterwards: a batch from an older server that needs the repair).
func PadFailedActivityEvent(f protoreflect.FieldDescriptor) protoreflect.Message {
	if f.Message().FullName() != HistoryEventName {
		return nil
	}
	ev := NewMessage(f.Message())
	ev.Set(f.Message().Fields().ByName("event_type"), protoreflect.ValueOfEnum(12)) // ACTIVITY_TASK_FAILED
	ev.Set(f.Message().Fields().ByName("event_id"), protoreflect.ValueOfInt64(4))
	attrs := ev.Mutable(f.Message().Fields().ByName("activity_task_failed_event_attributes")).Message()
	fail := attrs.Mutable(attrs.Descriptor().Fields().ByName("failure")).Message()
	fail.Set(fail.Descriptor().Fields().ByName("message"), protoreflect.ValueOfString("MSG~"))
	return ev
}

// PadUnmappedSAEvent: an UpsertWorkflowSearchAttributes event whose search attributes hold only a key that no mapping
// mentions (a container with nothing to rename next to the one on the path).
func PadUnmappedSAEvent(f protoreflect.FieldDescriptor) protoreflect.Message {
	if f.Message().FullName() != HistoryEventName {
		return nil
	}
	ev := NewMessage(f.Message())
	ev.Set(f.Message().Fields().ByName("event_type"), protoreflect.ValueOfEnum(22)) // UPSERT_WORKFLOW_SEARCH_ATTRIBUTES
	ev.Set(f.Message().Fields().ByName("event_id"), protoreflect.ValueOfInt64(4))
	attrs := ev.Mutable(f.Message().Fields().ByName("upsert_workflow_search_attributes_event_attributes")).Message()
	SetSA(attrs, attrs.Descriptor().Fields().ByName("search_attributes"), []string{"other-attr"}, "local")
	return ev
}

// PathEventType returns the name of the event type a path goes through ("" if none).
func PathEventType(p Path) string {
	et := ""
	for i, st := range p {
		if st.Field.ContainingMessage().FullName() == HistoryEventName {
			if n, ok := EventTypeFor(st.Field); ok {
				et = string(EventTypeEnum.Values().ByNumber(n).Name())
			} else if i < len(p) {
				et = "(non-attribute field " + string(st.Field.Name()) + ")"
			}
		}
	}
	return et
}

func PathBlobField(p Path) string {
	b := ""
	for _, st := range p {
		if st.Blob {
			b = string(st.Field.FullName())
		}
	}
	return b
}

// PathSignature is a root-independent description of where a path ends, for violation signatures.
func PathSignature(p Path) string {
	var parts []string
	if b := PathBlobField(p); b != "" {
		parts = append(parts, "blob="+b)
	}
	if et := PathEventType(p); et != "" {
		parts = append(parts, "event="+et)
	}
	// the tail after the last HistoryEvent attribute arm (or the last 2 steps)
	tailFrom := len(p) - 2
	for i, st := range p {
		if st.Field.ContainingMessage().FullName() == HistoryEventName {
			tailFrom = i + 1
		}
	}
	if tailFrom < 0 {
		tailFrom = 0
	}
	if tailFrom > len(p)-1 {
		tailFrom = len(p) - 1
	}
	var tail []string
	for _, st := range p[tailFrom:] {
		tail = append(tail, string(st.Field.Name()))
	}
	parts = append(parts, "leaf="+string(p.Leaf().ContainingMessage().Name())+"."+strings.Join(tail, "."))
	return strings.Join(parts, "/")
}

// RefTranslateNames is the reference translation: every namespace-name field whose value is a key of
// mapping gets the mapped value; returns whether any such field was found ("matched").
func RefTranslateNames(m proto.Message, mapping map[string]string) (bool, error) {
	return Visit(m.ProtoReflect(), true, func(c protoreflect.Message, fd protoreflect.FieldDescriptor) bool {
		if !IsNamespaceNameField(fd) {
			return false
		}
		old := c.Get(fd).String()
		nv, ok := mapping[old]
		if !ok {
			return false
		}
		if nv != old {
			c.Set(fd, protoreflect.ValueOfString(nv))
		}
		return true
	})
}

func CanonEqual(a, b proto.Message) (bool, error) {
	ca, cb := proto.Clone(a), proto.Clone(b)
	if err := CanonicalizeBlobs(ca); err != nil {
		return false, err
	}
	if err := CanonicalizeBlobs(cb); err != nil {
		return false, err
	}
	return proto.Equal(ca, cb), nil
}

// PopulateNames: fully populated message with `value` in every namespace-name field.
func PopulateNames(md protoreflect.MessageDescriptor, value string) proto.Message {
	str := func(path string, fd protoreflect.FieldDescriptor) string {
		if IsNamespaceNameField(fd) {
			return value
		}
		return "s:" + path
	}
	var custom func(fd protoreflect.FieldDescriptor, path string) (protoreflect.Value, bool)
	custom = func(fd protoreflect.FieldDescriptor, path string) (protoreflect.Value, bool) {
		if fd.Kind() == protoreflect.MessageKind && !fd.IsMap() && fd.Message().FullName() == "temporal.api.common.v1.DataBlob" {
			blobMD := fd.Message()
			b := NewMessage(blobMD)
			b.Set(blobMD.Fields().ByName("encoding_type"), protoreflect.ValueOfEnum(1))
			if EventBlobFields[fd.FullName()] {
				hist := PopulateCustom(HistoryDescriptor(), 2, str, custom)
				FixEventTypes(hist.ProtoReflect())
				data, err := proto.MarshalOptions{Deterministic: true}.Marshal(hist)
				if err != nil {
					panic(err)
				}
				b.Set(blobMD.Fields().ByName("data"), protoreflect.ValueOfBytes(data))
			} else {
				b.Set(blobMD.Fields().ByName("data"), protoreflect.ValueOfBytes([]byte("opaque:"+path)))
			}
			if fd.IsList() {
				return protoreflect.Value{}, false // handled below through a list append
			}
			return protoreflect.ValueOfMessage(b), true
		}
		return protoreflect.Value{}, false
	}
	m := PopulateCustom(md, 2, str, custom)
	FillBlobLists(m.ProtoReflect(), str, custom)
	FixEventTypes(m.ProtoReflect())
	return m
}

// FillBlobLists replaces the (opaque) elements Populate put into repeated DataBlob fields that are
// event-bearing with valid encoded histories.
func FillBlobLists(m protoreflect.Message, str func(string, protoreflect.FieldDescriptor) string, custom func(protoreflect.FieldDescriptor, string) (protoreflect.Value, bool)) {
	m.Range(func(fd protoreflect.FieldDescriptor, v protoreflect.Value) bool {
		if fd.Kind() != protoreflect.MessageKind {
			return true
		}
		if fd.IsList() && fd.Message().FullName() == "temporal.api.common.v1.DataBlob" {
			l := v.List()
			for i := 0; i < l.Len(); i++ {
				b := l.Get(i).Message()
				b.Set(b.Descriptor().Fields().ByName("encoding_type"), protoreflect.ValueOfEnum(1))
				if EventBlobFields[fd.FullName()] {
					hist := PopulateCustom(HistoryDescriptor(), 2, str, custom)
					FixEventTypes(hist.ProtoReflect())
					data, _ := proto.MarshalOptions{Deterministic: true}.Marshal(hist)
					b.Set(b.Descriptor().Fields().ByName("data"), protoreflect.ValueOfBytes(data))
				}
			}
			return true
		}
		switch {
		case fd.IsMap():
			if fd.MapValue().Kind() == protoreflect.MessageKind {
				v.Map().Range(func(_ protoreflect.MapKey, mv protoreflect.Value) bool {
					FillBlobLists(mv.Message(), str, custom)
					return true
				})
			}
		case fd.IsList():
			for i := 0; i < v.List().Len(); i++ {
				FillBlobLists(v.List().Get(i).Message(), str, custom)
			}
		default:
			FillBlobLists(v.Message(), str, custom)
		}
		return true
	})
}

// FixEventTypes makes event_type agree with the populated attributes arm everywhere.
func FixEventTypes(m protoreflect.Message) {
	if m.Descriptor().FullName() == HistoryEventName {
		m.Range(func(fd protoreflect.FieldDescriptor, _ protoreflect.Value) bool {
			if n, ok := EventTypeFor(fd); ok {
				m.Set(m.Descriptor().Fields().ByName("event_type"), protoreflect.ValueOfEnum(n))
				return false
			}
			return true
		})
	}
	m.Range(func(fd protoreflect.FieldDescriptor, v protoreflect.Value) bool {
		if fd.Kind() != protoreflect.MessageKind || strings.HasPrefix(string(fd.Message().FullName()), "google.protobuf.") && !fd.IsMap() {
			return true
		}
		switch {
		case fd.IsMap():
			if fd.MapValue().Kind() == protoreflect.MessageKind {
				v.Map().Range(func(_ protoreflect.MapKey, mv protoreflect.Value) bool { FixEventTypes(mv.Message()); return true })
			}
		case fd.IsList():
			for i := 0; i < v.List().Len(); i++ {
				FixEventTypes(v.List().Get(i).Message())
			}
		default:
			FixEventTypes(v.Message())
		}
		return true
	})
}

const SATypeName = protoreflect.FullName("temporal.api.common.v1.SearchAttributes")
const PayloadName = protoreflect.FullName("temporal.api.common.v1.Payload")

// IsSAContainer: the reference definition of a search-attribute container, by descriptor: a field of
// type temporal.api.common.v1.SearchAttributes, or a map<string, Payload> field named search_attributes.
func IsSAContainer(fd protoreflect.FieldDescriptor) bool {
	if fd.Kind() != protoreflect.MessageKind {
		return false
	}
	if fd.IsMap() {
		return fd.Name() == "search_attributes" && fd.MapKey().Kind() == protoreflect.StringKind &&
			fd.MapValue().Kind() == protoreflect.MessageKind && fd.MapValue().Message().FullName() == PayloadName
	}
	return !fd.IsList() && fd.Message().FullName() == SATypeName
}

// SAMap returns the key->payload map of a container field in c (nil if absent).
func SAMap(c protoreflect.Message, fd protoreflect.FieldDescriptor) protoreflect.Map {
	if !c.Has(fd) {
		return nil
	}
	if fd.IsMap() {
		return c.Get(fd).Map()
	}
	sa := c.Get(fd).Message()
	f := sa.Descriptor().Fields().ByName("indexed_fields")
	if !sa.Has(f) {
		return nil
	}
	return sa.Get(f).Map()
}

func SAMutableMap(c protoreflect.Message, fd protoreflect.FieldDescriptor) protoreflect.Map {
	if fd.IsMap() {
		return c.Mutable(fd).Map()
	}
	sa := c.Mutable(fd).Message()
	return sa.Mutable(sa.Descriptor().Fields().ByName("indexed_fields")).Map()
}

// RefTranslateSA renames mapped keys in every container (values untouched); returns "matched".
func RefTranslateSA(m proto.Message, mapping map[string]string) (bool, error) {
	return Visit(m.ProtoReflect(), true, func(c protoreflect.Message, fd protoreflect.FieldDescriptor) bool {
		if !IsSAContainer(fd) {
			return false
		}
		mp := SAMap(c, fd)
		if mp == nil || mp.Len() == 0 {
			return false
		}
		type kv struct {
			k string
			v protoreflect.Value
		}
		var all []kv
		matched := false
		mp.Range(func(k protoreflect.MapKey, v protoreflect.Value) bool {
			all = append(all, kv{k.String(), v})
			return true
		})
		for _, e := range all {
			if _, ok := mapping[e.k]; ok {
				matched = true
			}
		}
		if !matched {
			return false
		}
		mm := SAMutableMap(c, fd)
		for _, e := range all {
			mm.Clear(protoreflect.ValueOfString(e.k).MapKey())
		}
		for _, e := range all {
			nk := e.k
			if v, ok := mapping[e.k]; ok {
				nk = v
			}
			mm.Set(protoreflect.ValueOfString(nk).MapKey(), e.v)
		}
		return true
	})
}

var SAKeySets = map[string][]string{
	"mapped-only":   {"local-attr"},
	"unmapped-only": {"other-attr"},
	"mixed":         {"aa-first", "local-attr", "local-attr-2", "other-attr", "zz-last", "m1", "m2", "m3"},
	"empty-map":     {},
}

func SetSA(c protoreflect.Message, fd protoreflect.FieldDescriptor, keys []string, side string) {
	mm := SAMutableMap(c, fd)
	for _, k := range keys {
		name := k
		if side == "remote" {
			name = strings.Replace(k, "local-", "remote-", 1)
		}
		p := &commonpb.Payload{Metadata: map[string][]byte{"encoding": []byte("json/plain"), "type": []byte("Keyword")}, Data: []byte("\"value of " + k + "\"")}
		mm.Set(protoreflect.ValueOfString(name).MapKey(), protoreflect.ValueOfMessage(p.ProtoReflect()))
	}
}

func SAKeys(m proto.Message) []string {
	var out []string
	_, _ = Visit(m.ProtoReflect(), true, func(c protoreflect.Message, fd protoreflect.FieldDescriptor) bool {
		if IsSAContainer(fd) {
			if mp := SAMap(c, fd); mp != nil {
				mp.Range(func(k protoreflect.MapKey, v protoreflect.Value) bool {
					out = append(out, k.String()+"="+string(v.Message().Interface().(*commonpb.Payload).GetData()))
					return true
				})
			}
		}
		return false
	})
	sort.Strings(out)
	return out
}

// PopulateNamesSA is PopulateNames with every search-attribute container (also inside event-bearing blobs)
// holding the "mixed" key set spelled for the given side ("local" or "remote").
func PopulateNamesSA(md protoreflect.MessageDescriptor, nsValue, saSide string) proto.Message {
	m := PopulateNames(md, nsValue)
	_, err := Visit(m.ProtoReflect(), true, func(c protoreflect.Message, fd protoreflect.FieldDescriptor) bool {
		if !IsSAContainer(fd) {
			return false
		}
		mm := SAMutableMap(c, fd)
		var keys []protoreflect.MapKey
		mm.Range(func(k protoreflect.MapKey, _ protoreflect.Value) bool { keys = append(keys, k); return true })
		for _, k := range keys {
			mm.Clear(k)
		}
		SetSA(c, fd, SAKeySets["mixed"], saSide)
		return true
	})
	if err != nil {
		panic(err)
	}
	return m
}

// FillEmptyNames sets every empty namespace-name field of every message present in m (also inside
// event-bearing blobs) to value, so that a case built for one path is "allowed everywhere else".
func FillEmptyNames(m proto.Message, value string) {
	var fill func(pm protoreflect.Message) bool
	fill = func(pm protoreflect.Message) bool {
		changed := false
		fs := pm.Descriptor().Fields()
		for i := 0; i < fs.Len(); i++ {
			fd := fs.Get(i)
			if IsNamespaceNameField(fd) && pm.Get(fd).String() == "" {
				if od := fd.ContainingOneof(); od != nil && !od.IsSynthetic() && pm.WhichOneof(od) != nil && pm.WhichOneof(od) != fd {
					continue // another arm of the oneof is set
				}
				pm.Set(fd, protoreflect.ValueOfString(value))
				changed = true
			}
		}
		return changed
	}
	// top-level message first, then everything reachable
	top := fill(m.ProtoReflect())
	_ = top
	for pass := 0; pass < 2; pass++ {
		_, err := Visit(m.ProtoReflect(), true, func(c protoreflect.Message, fd protoreflect.FieldDescriptor) bool {
			if fd.Kind() != protoreflect.MessageKind || fd.IsMap() && fd.MapValue().Kind() != protoreflect.MessageKind {
				return false
			}
			if strings.HasPrefix(string(fd.Message().FullName()), "google.protobuf.") {
				return false
			}
			changed := false
			v := c.Get(fd)
			switch {
			case fd.IsMap():
				v.Map().Range(func(_ protoreflect.MapKey, mv protoreflect.Value) bool {
					if fill(mv.Message()) {
						changed = true
					}
					return true
				})
			case fd.IsList():
				for i := 0; i < v.List().Len(); i++ {
					if fill(v.List().Get(i).Message()) {
						changed = true
					}
				}
			default:
				if fill(v.Message()) {
					changed = true
				}
			}
			return changed
		})
		if err != nil {
			panic(err)
		}
	}
}
