package verifrt

// Descriptor-driven enumeration for the translation / ACL / repair properties: structural paths from a
// root message type to fields of interest (through singular and repeated message fields, map values, every
// oneof arm and serialized history-event blobs), builders for the minimal message realising one path and
// for a fully populated message, and a reference traversal that never uses the code's own walker.

import (
	"fmt"
	"sort"
	"strings"

	"go.temporal.io/api/temporalproto"
	"google.golang.org/protobuf/proto"
	"google.golang.org/protobuf/reflect/protoreflect"
	"google.golang.org/protobuf/reflect/protoregistry"
)

// EventBlobFields are the DataBlob fields documented as serialized history events (a marshalled
// temporal.api.history.v1.History).
var EventBlobFields = map[protoreflect.FullName]bool{
	"temporal.api.workflowservice.v1.GetWorkflowExecutionHistoryResponse.raw_history":              true,
	"temporal.server.api.adminservice.v1.GetWorkflowExecutionRawHistoryResponse.history_batches":   true,
	"temporal.server.api.adminservice.v1.GetWorkflowExecutionRawHistoryV2Response.history_batches": true,
	"temporal.server.api.adminservice.v1.ImportWorkflowExecutionRequest.history_batches":           true,
	"temporal.server.api.adminservice.v1.ReapplyEventsRequest.events":                              true,
	"temporal.server.api.replication.v1.HistoryTaskAttributes.events":                              true,
	"temporal.server.api.replication.v1.HistoryTaskAttributes.new_run_events":                      true,
	"temporal.server.api.replication.v1.HistoryTaskAttributes.events_batches":                      true,
	"temporal.server.api.replication.v1.NewRunInfo.event_batch":                                    true,
	"temporal.server.api.replication.v1.BackfillHistoryTaskAttributes.event_batches":               true,
	"temporal.server.api.replication.v1.VersionedTransitionArtifact.event_batches":                 true,
}

const historyFullName = protoreflect.FullName("temporal.api.history.v1.History")

// Step is one hop of a structural path.
type Step struct {
	Field protoreflect.FieldDescriptor
	// Blob: the field is an event-bearing DataBlob; the following steps are relative to the History inside.
	Blob bool
}

type Path []Step

func (p Path) String() string {
	var sb strings.Builder
	for i, s := range p {
		if i > 0 {
			sb.WriteString(".")
		}
		sb.WriteString(string(s.Field.Name()))
		if s.Field.IsList() {
			sb.WriteString("[]")
		}
		if s.Field.IsMap() {
			sb.WriteString("{}")
		}
		if s.Blob {
			sb.WriteString("<blob>")
		}
	}
	return sb.String()
}

// Leaf is the last field of the path.
func (p Path) Leaf() protoreflect.FieldDescriptor { return p[len(p)-1].Field }

type WalkOptions struct {
	// MaxPerType bounds how often one message type may occur on a path (default 2).
	MaxPerType int
	// ThroughBlobs continues paths into event-bearing blobs.
	ThroughBlobs bool
	// SkipMessage, if set, prunes message types (e.g. well-known types).
	SkipMessage func(protoreflect.MessageDescriptor) bool
}

func historyDescriptor() protoreflect.MessageDescriptor {
	mt, err := protoregistry.GlobalTypes.FindMessageByName(historyFullName)
	if err != nil {
		panic(err)
	}
	return mt.Descriptor()
}

// EnumeratePaths lists every structural path from root to a field accepted by isTarget.
func EnumeratePaths(root protoreflect.MessageDescriptor, isTarget func(protoreflect.FieldDescriptor) bool, opt WalkOptions) []Path {
	if opt.MaxPerType == 0 {
		opt.MaxPerType = 2
	}
	var out []Path
	count := map[protoreflect.FullName]int{}
	var walk func(md protoreflect.MessageDescriptor, prefix Path)
	walk = func(md protoreflect.MessageDescriptor, prefix Path) {
		if strings.HasPrefix(string(md.FullName()), "google.protobuf.") {
			return
		}
		if opt.SkipMessage != nil && opt.SkipMessage(md) {
			return
		}
		if count[md.FullName()] >= opt.MaxPerType {
			return
		}
		count[md.FullName()]++
		defer func() { count[md.FullName()]-- }()
		fs := md.Fields()
		for i := 0; i < fs.Len(); i++ {
			f := fs.Get(i)
			p := append(append(Path(nil), prefix...), Step{Field: f})
			if isTarget(f) {
				out = append(out, p)
				continue
			}
			if opt.ThroughBlobs && EventBlobFields[f.FullName()] {
				p[len(p)-1].Blob = true
				walk(historyDescriptor(), p)
				continue
			}
			if f.Kind() != protoreflect.MessageKind && f.Kind() != protoreflect.GroupKind {
				continue
			}
			if f.IsMap() {
				if f.MapValue().Kind() == protoreflect.MessageKind {
					walk(f.MapValue().Message(), p)
				}
				continue
			}
			walk(f.Message(), p)
		}
	}
	walk(root, nil)
	return out
}

// BuildOpts controls BuildForPath.
type BuildOpts struct {
	// SetLeaf stores the value of interest into the leaf field of container m.
	SetLeaf func(m protoreflect.Message, leaf protoreflect.FieldDescriptor)
	// Decorate, if set, is called for every message created along the path (e.g. to set an event type).
	Decorate func(m protoreflect.Message, next protoreflect.FieldDescriptor)
	// Pad, if set, may return an element to put in front of the element that carries the path in a repeated
	// message field (nil = no padding).
	Pad func(f protoreflect.FieldDescriptor) protoreflect.Message
	// PadAfter is Pad for an element behind the one that carries the path.
	PadAfter func(f protoreflect.FieldDescriptor) protoreflect.Message
	// BlobJSON: event-bearing blobs on the path are encoded as ENCODING_TYPE_JSON (Temporal's serializer reads both
	// encodings) instead of proto3.
	BlobJSON bool
	// SiblingBlob ("before" / "after"): a repeated event-bearing blob field on the path gets a second batch of the same
	// shape in which the leaf holds SiblingValue (a batch with nothing to map next to the one that carries the path).
	SiblingBlob  string
	SiblingValue string
}

// decodeHistoryBlob decodes an event-bearing blob the way Temporal's serializer does (proto3 or JSON).
func decodeHistoryBlob(b protoreflect.Message, hist proto.Message) error {
	data := b.Get(b.Descriptor().Fields().ByName("data")).Bytes()
	if b.Get(b.Descriptor().Fields().ByName("encoding_type")).Enum() == 2 { // ENCODING_TYPE_JSON
		return temporalproto.CustomJSONUnmarshalOptions{DiscardUnknown: true}.Unmarshal(data, hist)
	}
	return proto.Unmarshal(data, hist)
}

// encodeHistoryBlob stores hist into b as a deterministic proto3 encoding (what the proxy's serializer writes).
func encodeHistoryBlob(b protoreflect.Message, hist proto.Message) error {
	nd, err := proto.MarshalOptions{Deterministic: true}.Marshal(hist)
	if err != nil {
		return err
	}
	b.Set(b.Descriptor().Fields().ByName("data"), protoreflect.ValueOfBytes(nd))
	b.Set(b.Descriptor().Fields().ByName("encoding_type"), protoreflect.ValueOfEnum(1))
	return nil
}

func newMessage(md protoreflect.MessageDescriptor) protoreflect.Message {
	mt, err := protoregistry.GlobalTypes.FindMessageByName(md.FullName())
	if err != nil {
		panic(fmt.Sprintf("no Go type registered for %s", md.FullName()))
	}
	return mt.New()
}

// BuildForPath returns the minimal message of type root in which path exists.
func BuildForPath(root protoreflect.MessageDescriptor, path Path, o BuildOpts) proto.Message {
	m := newMessage(root)
	buildInto(m, path, o)
	return m.Interface()
}

func buildInto(m protoreflect.Message, path Path, o BuildOpts) {
	st := path[0]
	f := st.Field
	if o.Decorate != nil {
		o.Decorate(m, f)
	}
	if len(path) == 1 {
		o.SetLeaf(m, f)
		return
	}
	if st.Blob {
		hist := newMessage(historyDescriptor())
		buildInto(hist, path[1:], o)
		data, err := proto.MarshalOptions{Deterministic: true}.Marshal(hist.Interface())
		if err != nil {
			panic(err)
		}
		blobMD := f.Message()
		mkBlob := func() protoreflect.Message {
			b := newMessage(blobMD)
			b.Set(blobMD.Fields().ByName("encoding_type"), protoreflect.ValueOfEnum(1)) // ENCODING_TYPE_PROTO3
			b.Set(blobMD.Fields().ByName("data"), protoreflect.ValueOfBytes(data))
			if o.BlobJSON {
				js, err := temporalproto.CustomJSONMarshalOptions{}.Marshal(hist.Interface())
				if err != nil {
					panic(err)
				}
				b.Set(blobMD.Fields().ByName("encoding_type"), protoreflect.ValueOfEnum(2)) // ENCODING_TYPE_JSON
				b.Set(blobMD.Fields().ByName("data"), protoreflect.ValueOfBytes(js))
			}
			return b
		}
		if f.IsList() {
			l := m.Mutable(f).List()
			var sib protoreflect.Message
			if o.SiblingBlob == "empty-before" {
				// an empty batch (no data) in front of the batch that carries the path
				l.Append(protoreflect.ValueOfMessage(newMessage(blobMD)))
			} else if o.SiblingBlob != "" {
				o2 := o
				o2.Pad, o2.PadAfter, o2.SiblingBlob = nil, nil, ""
				o2.SetLeaf = func(c protoreflect.Message, leaf protoreflect.FieldDescriptor) {
					c.Set(leaf, protoreflect.ValueOfString(o.SiblingValue))
				}
				h2 := newMessage(historyDescriptor())
				buildInto(h2, path[1:], o2)
				d2, err := proto.MarshalOptions{Deterministic: true}.Marshal(h2.Interface())
				if err != nil {
					panic(err)
				}
				sib = newMessage(blobMD)
				sib.Set(blobMD.Fields().ByName("encoding_type"), protoreflect.ValueOfEnum(1))
				sib.Set(blobMD.Fields().ByName("data"), protoreflect.ValueOfBytes(d2))
			}
			if sib != nil && o.SiblingBlob == "before" {
				l.Append(protoreflect.ValueOfMessage(sib))
			}
			l.Append(protoreflect.ValueOfMessage(mkBlob()))
			if sib != nil && o.SiblingBlob == "after" {
				l.Append(protoreflect.ValueOfMessage(sib))
			}
		} else {
			m.Set(f, protoreflect.ValueOfMessage(mkBlob()))
		}
		return
	}
	switch {
	case f.IsMap():
		child := newMessage(f.MapValue().Message())
		buildInto(child, path[1:], o)
		var key protoreflect.MapKey
		switch f.MapKey().Kind() {
		case protoreflect.StringKind:
			key = protoreflect.ValueOfString("k").MapKey()
		case protoreflect.Int32Kind, protoreflect.Sint32Kind, protoreflect.Sfixed32Kind:
			key = protoreflect.ValueOfInt32(1).MapKey()
		case protoreflect.Int64Kind, protoreflect.Sint64Kind, protoreflect.Sfixed64Kind:
			key = protoreflect.ValueOfInt64(1).MapKey()
		case protoreflect.Uint32Kind, protoreflect.Fixed32Kind:
			key = protoreflect.ValueOfUint32(1).MapKey()
		case protoreflect.Uint64Kind, protoreflect.Fixed64Kind:
			key = protoreflect.ValueOfUint64(1).MapKey()
		case protoreflect.BoolKind:
			key = protoreflect.ValueOfBool(true).MapKey()
		}
		m.Mutable(f).Map().Set(key, protoreflect.ValueOfMessage(child))
	case f.IsList():
		l := m.Mutable(f).List()
		if o.Pad != nil {
			if pad := o.Pad(f); pad != nil {
				l.Append(protoreflect.ValueOfMessage(pad))
			}
		}
		child := newMessage(f.Message())
		buildInto(child, path[1:], o)
		l.Append(protoreflect.ValueOfMessage(child))
		if o.PadAfter != nil {
			if pad := o.PadAfter(f); pad != nil {
				l.Append(protoreflect.ValueOfMessage(pad))
			}
		}
	default:
		child := m.Mutable(f).Message()
		buildInto(child, path[1:], o)
	}
}

// Visit calls fn for every populated field of m, recursively (including list elements and map values);
// for event-bearing blobs it decodes the History, visits it, and re-encodes it if fn reported a change.
// fn returns true if it changed the container.
func Visit(m protoreflect.Message, throughBlobs bool, fn func(container protoreflect.Message, fd protoreflect.FieldDescriptor) bool) (changed bool, err error) {
	var fields []protoreflect.FieldDescriptor
	m.Range(func(fd protoreflect.FieldDescriptor, _ protoreflect.Value) bool {
		fields = append(fields, fd)
		return true
	})
	sort.Slice(fields, func(i, j int) bool { return fields[i].Number() < fields[j].Number() })
	for _, fd := range fields {
		if fn(m, fd) {
			changed = true
		}
		if fd.Kind() != protoreflect.MessageKind && fd.Kind() != protoreflect.GroupKind {
			continue
		}
		v := m.Get(fd)
		if throughBlobs && EventBlobFields[fd.FullName()] {
			handle := func(b protoreflect.Message) error {
				dataFD := b.Descriptor().Fields().ByName("data")
				data := b.Get(dataFD).Bytes()
				if len(data) == 0 {
					return nil
				}
				hist := newMessage(historyDescriptor())
				if e := decodeHistoryBlob(b, hist.Interface()); e != nil {
					return e
				}
				c, e := Visit(hist, throughBlobs, fn)
				if e != nil {
					return e
				}
				if c {
					if e := encodeHistoryBlob(b, hist.Interface()); e != nil {
						return e
					}
					changed = true
				}
				return nil
			}
			if fd.IsList() {
				l := v.List()
				for i := 0; i < l.Len(); i++ {
					if e := handle(l.Get(i).Message()); e != nil {
						return changed, e
					}
				}
			} else if e := handle(v.Message()); e != nil {
				return changed, e
			}
			continue
		}
		switch {
		case fd.IsMap():
			if fd.MapValue().Kind() != protoreflect.MessageKind {
				continue
			}
			var keys []protoreflect.MapKey
			v.Map().Range(func(k protoreflect.MapKey, _ protoreflect.Value) bool { keys = append(keys, k); return true })
			sort.Slice(keys, func(i, j int) bool { return keys[i].String() < keys[j].String() })
			for _, k := range keys {
				c, e := Visit(v.Map().Get(k).Message(), throughBlobs, fn)
				changed = changed || c
				if e != nil {
					return changed, e
				}
			}
		case fd.IsList():
			l := v.List()
			for i := 0; i < l.Len(); i++ {
				c, e := Visit(l.Get(i).Message(), throughBlobs, fn)
				changed = changed || c
				if e != nil {
					return changed, e
				}
			}
		default:
			if strings.HasPrefix(string(fd.Message().FullName()), "google.protobuf.") {
				continue
			}
			c, e := Visit(v.Message(), throughBlobs, fn)
			changed = changed || c
			if e != nil {
				return changed, e
			}
		}
	}
	return changed, nil
}

// CanonicalizeBlobs re-encodes every event-bearing blob deterministically so that two messages whose
// blobs decode to equal histories compare proto.Equal.
func CanonicalizeBlobs(m proto.Message) error {
	var walk func(pm protoreflect.Message) error
	walk = func(pm protoreflect.Message) error {
		var err error
		pm.Range(func(fd protoreflect.FieldDescriptor, v protoreflect.Value) bool {
			if fd.Kind() != protoreflect.MessageKind {
				return true
			}
			if EventBlobFields[fd.FullName()] {
				canon := func(b protoreflect.Message) {
					dataFD := b.Descriptor().Fields().ByName("data")
					data := b.Get(dataFD).Bytes()
					if len(data) == 0 {
						return
					}
					hist := newMessage(historyDescriptor())
					if e := decodeHistoryBlob(b, hist.Interface()); e != nil {
						err = e
						return
					}
					if e := walk(hist); e != nil {
						err = e
						return
					}
					// canonical form: deterministic proto3, whatever encoding the blob arrived in
					if e := encodeHistoryBlob(b, hist.Interface()); e != nil {
						err = e
						return
					}
				}
				if fd.IsList() {
					for i := 0; i < v.List().Len(); i++ {
						canon(v.List().Get(i).Message())
					}
				} else {
					canon(v.Message())
				}
				return err == nil
			}
			switch {
			case fd.IsMap():
				if fd.MapValue().Kind() == protoreflect.MessageKind {
					v.Map().Range(func(_ protoreflect.MapKey, mv protoreflect.Value) bool {
						err = walk(mv.Message())
						return err == nil
					})
				}
			case fd.IsList():
				for i := 0; i < v.List().Len() && err == nil; i++ {
					err = walk(v.List().Get(i).Message())
				}
			default:
				err = walk(v.Message())
			}
			return err == nil
		})
		return err
	}
	return walk(m.ProtoReflect())
}

// Populate fills every field of a fresh message of type md with deterministic values: scalars derived
// from the field path, message fields recursively (each type at most maxPerType times on a path), repeated
// and map fields with one element, for each oneof the arm selected by pickArm (default: first).
func Populate(md protoreflect.MessageDescriptor, maxPerType int, str func(path string, fd protoreflect.FieldDescriptor) string) proto.Message {
	return PopulateCustom(md, maxPerType, str, nil)
}

// NewMessage returns a fresh message of the registered Go type for md.
func NewMessage(md protoreflect.MessageDescriptor) protoreflect.Message { return newMessage(md) }

// HistoryDescriptor is the descriptor of temporal.api.history.v1.History.
func HistoryDescriptor() protoreflect.MessageDescriptor { return historyDescriptor() }

// PopulateCustom is Populate with a hook that may supply the value of a field itself (return ok=true).
// PopulateListLen: how many elements Populate puts into a repeated message field (set before building, not while
// builders run concurrently).
var PopulateListLen = 1

func PopulateCustom(md protoreflect.MessageDescriptor, maxPerType int, str func(path string, fd protoreflect.FieldDescriptor) string,
	custom func(fd protoreflect.FieldDescriptor, path string) (protoreflect.Value, bool)) proto.Message {
	count := map[protoreflect.FullName]int{}
	var fill func(m protoreflect.Message, path string)
	scalar := func(fd protoreflect.FieldDescriptor, path string) protoreflect.Value {
		h := int64(0)
		for _, c := range path {
			h = h*31 + int64(c)
		}
		if h < 0 {
			h = -h
		}
		switch fd.Kind() {
		case protoreflect.BoolKind:
			return protoreflect.ValueOfBool(true)
		case protoreflect.EnumKind:
			vals := fd.Enum().Values()
			return protoreflect.ValueOfEnum(vals.Get(int(h) % vals.Len()).Number())
		case protoreflect.Int32Kind, protoreflect.Sint32Kind, protoreflect.Sfixed32Kind:
			return protoreflect.ValueOfInt32(int32(h%1000) + 1)
		case protoreflect.Int64Kind, protoreflect.Sint64Kind, protoreflect.Sfixed64Kind:
			return protoreflect.ValueOfInt64(h%100000 + 1)
		case protoreflect.Uint32Kind, protoreflect.Fixed32Kind:
			return protoreflect.ValueOfUint32(uint32(h%1000) + 1)
		case protoreflect.Uint64Kind, protoreflect.Fixed64Kind:
			return protoreflect.ValueOfUint64(uint64(h%100000) + 1)
		case protoreflect.FloatKind:
			return protoreflect.ValueOfFloat32(float32(h%100) + 0.5)
		case protoreflect.DoubleKind:
			return protoreflect.ValueOfFloat64(float64(h%100) + 0.5)
		case protoreflect.StringKind:
			return protoreflect.ValueOfString(str(path, fd))
		case protoreflect.BytesKind:
			return protoreflect.ValueOfBytes([]byte("b:" + path))
		}
		panic("unhandled kind " + fd.Kind().String())
	}
	fill = func(m protoreflect.Message, path string) {
		md := m.Descriptor()
		count[md.FullName()]++
		defer func() { count[md.FullName()]-- }()
		fs := md.Fields()
		seenOneof := map[protoreflect.FullName]bool{}
		for i := 0; i < fs.Len(); i++ {
			fd := fs.Get(i)
			if od := fd.ContainingOneof(); od != nil && !od.IsSynthetic() {
				if seenOneof[od.FullName()] {
					continue
				}
				seenOneof[od.FullName()] = true
			}
			p := path + "." + string(fd.Name())
			if custom != nil {
				if v, ok := custom(fd, p); ok {
					if v.IsValid() {
						m.Set(fd, v)
					}
					continue
				}
			}
			isMsg := fd.Kind() == protoreflect.MessageKind || fd.Kind() == protoreflect.GroupKind
			if isMsg && !fd.IsMap() {
				sub := fd.Message()
				if strings.HasPrefix(string(sub.FullName()), "google.protobuf.") {
					if sub.FullName() == "google.protobuf.Timestamp" || sub.FullName() == "google.protobuf.Duration" {
						child := newMessage(sub)
						child.Set(sub.Fields().ByName("seconds"), protoreflect.ValueOfInt64(1700000000))
						if fd.IsList() {
							m.Mutable(fd).List().Append(protoreflect.ValueOfMessage(child))
						} else {
							m.Set(fd, protoreflect.ValueOfMessage(child))
						}
					}
					continue
				}
				if count[sub.FullName()] >= maxPerType {
					continue
				}
				child := newMessage(sub)
				fill(child, p)
				if fd.IsList() {
					m.Mutable(fd).List().Append(protoreflect.ValueOfMessage(child))
					for k := 1; k < PopulateListLen; k++ {
						more := newMessage(sub)
						fill(more, fmt.Sprintf("%s[%d]", p, k))
						m.Mutable(fd).List().Append(protoreflect.ValueOfMessage(more))
					}
				} else {
					m.Set(fd, protoreflect.ValueOfMessage(child))
				}
				continue
			}
			if fd.IsMap() {
				mp := m.Mutable(fd).Map()
				var key protoreflect.MapKey
				switch fd.MapKey().Kind() {
				case protoreflect.StringKind:
					key = protoreflect.ValueOfString(str(p+"#key", fd.MapKey())).MapKey()
				case protoreflect.BoolKind:
					key = protoreflect.ValueOfBool(true).MapKey()
				case protoreflect.Int32Kind, protoreflect.Sint32Kind, protoreflect.Sfixed32Kind:
					key = protoreflect.ValueOfInt32(7).MapKey()
				case protoreflect.Int64Kind, protoreflect.Sint64Kind, protoreflect.Sfixed64Kind:
					key = protoreflect.ValueOfInt64(7).MapKey()
				case protoreflect.Uint32Kind, protoreflect.Fixed32Kind:
					key = protoreflect.ValueOfUint32(7).MapKey()
				default:
					key = protoreflect.ValueOfUint64(7).MapKey()
				}
				if fd.MapValue().Kind() == protoreflect.MessageKind {
					sub := fd.MapValue().Message()
					if strings.HasPrefix(string(sub.FullName()), "google.protobuf.") || count[sub.FullName()] >= maxPerType {
						continue
					}
					child := newMessage(sub)
					fill(child, p)
					mp.Set(key, protoreflect.ValueOfMessage(child))
				} else {
					mp.Set(key, scalar(fd.MapValue(), p))
				}
				continue
			}
			if fd.IsList() {
				m.Mutable(fd).List().Append(scalar(fd, p))
				continue
			}
			m.Set(fd, scalar(fd, p))
		}
	}
	m := newMessage(md)
	fill(m, string(md.Name()))
	return m.Interface()
}
