package verifrt

import (
	"bufio"
	"bytes"
	"encoding/json"
	"fmt"
	"io"
	"os"
	"os/exec"
	"runtime"
	"strconv"
	"strings"
	"sync"
	"time"
)

// A Pool runs jobs (opaque JSON strings) in persistent worker subprocesses: the same test binary,
// the same test function, started with VERIF_WORKER=1 and GOMAXPROCS=1. A worker that dies
// (unrecovered panic in a stray goroutine, runtime fatal error) or hangs is attributed to the job
// it was executing and replaced, so "crashes the process" and "wedges" are observable outcomes.

type JobResult struct {
	Out      string // handler output ("" on crash/timeout)
	Crashed  bool
	TimedOut bool
	Stderr   string
}

type worker struct {
	cmd    *exec.Cmd
	in     io.WriteCloser
	out    *bufio.Reader
	stderr *tailBuffer
}

type tailBuffer struct {
	mu  sync.Mutex
	buf []byte
}

func (t *tailBuffer) Write(p []byte) (int, error) {
	t.mu.Lock()
	defer t.mu.Unlock()
	t.buf = append(t.buf, p...)
	if len(t.buf) > 16384 {
		t.buf = t.buf[len(t.buf)-16384:]
	}
	return len(p), nil
}
func (t *tailBuffer) String() string { t.mu.Lock(); defer t.mu.Unlock(); return string(t.buf) }

type Pool struct {
	testName string
	n        int
	timeout  time.Duration
	extraEnv []string
	// MemLimitKB > 0 runs every worker under `ulimit -v` so that a runaway allocation kills the worker
	// (attributed to its job) instead of the machine.
	MemLimitKB int64
	Crashes    int
	Timeouts   int
	mu         sync.Mutex
}

func IsWorker() bool { return os.Getenv("VERIF_WORKER") == "1" }

// Workers returns the number of worker processes to use.
func Workers() int {
	if s := os.Getenv("VERIF_WORKERS"); s != "" {
		if n, err := strconv.Atoi(s); err == nil && n > 0 {
			return n
		}
	}
	n := runtime.NumCPU()
	if n > 16 {
		n = 16
	}
	if n < 1 {
		n = 1
	}
	return n
}

func NewPool(testName string, n int, perJobTimeout time.Duration, extraEnv ...string) *Pool {
	return &Pool{testName: testName, n: n, timeout: perJobTimeout, extraEnv: extraEnv}
}

func (p *Pool) spawn() (*worker, error) {
	jobR, jobW, err := os.Pipe()
	if err != nil {
		return nil, err
	}
	resR, resW, err := os.Pipe()
	if err != nil {
		return nil, err
	}
	args := []string{"-test.run", "^" + p.testName + "$", "-test.count=1", "-test.timeout=0"}
	cmd := exec.Command(os.Args[0], args...)
	if p.MemLimitKB > 0 {
		sh := fmt.Sprintf("ulimit -v %d; exec \"$0\" \"$@\"", p.MemLimitKB)
		cmd = exec.Command("/bin/sh", append([]string{"-c", sh, os.Args[0]}, args...)...)
	}
	cmd.Env = append(os.Environ(), "VERIF_WORKER=1", "GOMAXPROCS=1", "VERIF_OUT=")
	cmd.Env = append(cmd.Env, p.extraEnv...)
	cmd.ExtraFiles = []*os.File{jobR, resW}
	tb := &tailBuffer{}
	cmd.Stderr = tb
	cmd.Stdout = tb
	if err := cmd.Start(); err != nil {
		return nil, err
	}
	jobR.Close()
	resW.Close()
	return &worker{cmd: cmd, in: jobW, out: bufio.NewReaderSize(resR, 1<<20), stderr: tb}, nil
}

func (w *worker) kill() {
	w.in.Close()
	_ = w.cmd.Process.Kill()
	_, _ = w.cmd.Process.Wait()
}

// Map runs every job and returns results in job order. fn, if non-nil, is called (serialised)
// as results arrive.
func (p *Pool) Map(jobs []string, fn func(i int, r JobResult)) []JobResult {
	results := make([]JobResult, len(jobs))
	next := 0
	var nmu, fmu sync.Mutex
	var wg sync.WaitGroup
	n := p.n
	if n > len(jobs) {
		n = len(jobs)
	}
	for k := 0; k < n; k++ {
		wg.Add(1)
		go func() {
			defer wg.Done()
			var w *worker
			defer func() {
				if w != nil {
					w.kill()
				}
			}()
			for {
				nmu.Lock()
				i := next
				next++
				nmu.Unlock()
				if i >= len(jobs) {
					return
				}
				if w == nil {
					var err error
					if w, err = p.spawn(); err != nil {
						results[i] = JobResult{Crashed: true, Stderr: "spawn: " + err.Error()}
						continue
					}
				}
				r := p.runOne(w, jobs[i])
				if r.Crashed || r.TimedOut {
					w.kill()
					w = nil
					p.mu.Lock()
					if r.Crashed {
						p.Crashes++
					} else {
						p.Timeouts++
					}
					p.mu.Unlock()
				}
				results[i] = r
				if fn != nil {
					fmu.Lock()
					fn(i, r)
					fmu.Unlock()
				}
			}
		}()
	}
	wg.Wait()
	return results
}

func (p *Pool) runOne(w *worker, job string) JobResult {
	type rd struct {
		line []byte
		err  error
	}
	ch := make(chan rd, 1)
	go func() {
		if _, err := io.WriteString(w.in, job+"\n"); err != nil {
			ch <- rd{nil, err}
			return
		}
		line, err := w.out.ReadBytes('\n')
		ch <- rd{line, err}
	}()
	select {
	case r := <-ch:
		if r.err != nil {
			return JobResult{Crashed: true, Stderr: w.stderr.String()}
		}
		return JobResult{Out: string(bytes.TrimRight(r.line, "\n"))}
	case <-time.After(p.timeout):
		return JobResult{TimedOut: true, Stderr: w.stderr.String()}
	}
}

// ServeWorker is the worker side: reads one JSON job per line from fd 3, answers on fd 4.
func ServeWorker(handler func(job string) string) {
	in := bufio.NewReaderSize(os.NewFile(3, "jobs"), 1<<20)
	out := os.NewFile(4, "results")
	// a worker whose harness process is gone (killed by a timeout) must not stay behind, least of all spinning
	parent := os.Getppid()
	go func() {
		for {
			time.Sleep(2 * time.Second)
			if os.Getppid() != parent {
				os.Exit(3)
			}
		}
	}()
	for {
		line, err := in.ReadBytes('\n')
		if err != nil {
			return
		}
		res := handler(string(bytes.TrimRight(line, "\n")))
		if bytes.ContainsRune([]byte(res), '\n') {
			b, _ := json.Marshal(res)
			res = string(b)
		}
		if _, err := fmt.Fprintln(out, res); err != nil {
			return
		}
	}
}

// CrashInCodeUnderTest: a worker process died with a Go panic / fatal error whose first frame outside the runtime
// lies in a source file of the repository (not in a harness file, not in verifrt): the code under test crashed.
// Anything else (killed by the watchdog, out of memory, a harness bug) is not a verdict.
func CrashInCodeUnderTest(stderr string) bool {
	i := strings.Index(stderr, "panic: ")
	if j := strings.Index(stderr, "fatal error: "); i < 0 || (j >= 0 && j < i) {
		i = j
	}
	if i < 0 {
		return false
	}
	if strings.Contains(stderr[i:], "out of memory") || strings.Contains(stderr[i:], "cannot allocate") {
		return false
	}
	for _, line := range strings.Split(stderr[i:], "\n") {
		line = strings.TrimSpace(line)
		if !strings.Contains(line, ".go:") || !strings.HasPrefix(line, "/") {
			continue
		}
		if strings.Contains(line, "/src/runtime/") || strings.Contains(line, "/src/testing/") || strings.Contains(line, "/src/internal/") || strings.Contains(line, "/src/sync/") {
			continue
		}
		// first frame outside the runtime
		return !strings.Contains(line, "zz_verif_") && !strings.Contains(line, "/verifrt/") && !strings.Contains(line, "/verif/rt/")
	}
	return false
}
