package verifrt

// Capacity abstraction: the rewriter maps the literal capacities of the hand-off channels and of
// the proxy-id ring to these functions so that "queue full" and "ring grows / wraps" are
// reachable in small scenarios. The properties are capacity-independent; 0 keeps the original.

var chanCapOverride, ringCapOverride int

func SetCaps(chanCap, ringCap int) { chanCapOverride, ringCapOverride = chanCap, ringCap }

func ChanCap(n int) int {
	if chanCapOverride > 0 {
		return chanCapOverride
	}
	return n
}

func RingCap(n int) int {
	if ringCapOverride > 0 {
		return ringCapOverride
	}
	return n
}
