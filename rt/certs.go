package verifrt

// Run-time minting of CAs and leaf certificates for the TLS checks (C19).

import (
	"crypto/ecdsa"
	"crypto/elliptic"
	"crypto/rand"
	"crypto/tls"
	"crypto/x509"
	"crypto/x509/pkix"
	"encoding/pem"
	"math/big"
	"os"
	"path/filepath"
	"time"
)

type CA struct {
	Cert *x509.Certificate
	Key  *ecdsa.PrivateKey
	PEM  []byte
	Path string
}

type Leaf struct {
	Name     string
	TLSCert  tls.Certificate
	CertPath string
	KeyPath  string
}

var certSerial int64 = 100

func mustKey() *ecdsa.PrivateKey {
	k, err := ecdsa.GenerateKey(elliptic.P256(), rand.Reader)
	if err != nil {
		panic(err)
	}
	return k
}

func writePEM(path, typ string, der []byte) []byte {
	b := pem.EncodeToMemory(&pem.Block{Type: typ, Bytes: der})
	if err := os.WriteFile(path, b, 0o600); err != nil {
		panic(err)
	}
	return b
}

func NewCA(dir, cn string) *CA {
	key := mustKey()
	certSerial++
	tmpl := &x509.Certificate{SerialNumber: big.NewInt(certSerial), Subject: pkix.Name{CommonName: cn}, NotBefore: time.Now().Add(-time.Hour),
		NotAfter: time.Now().Add(24 * time.Hour), IsCA: true, BasicConstraintsValid: true, KeyUsage: x509.KeyUsageCertSign | x509.KeyUsageDigitalSignature}
	der, err := x509.CreateCertificate(rand.Reader, tmpl, tmpl, &key.PublicKey, key)
	if err != nil {
		panic(err)
	}
	cert, _ := x509.ParseCertificate(der)
	path := filepath.Join(dir, cn+".pem")
	return &CA{Cert: cert, Key: key, PEM: writePEM(path, "CERTIFICATE", der), Path: path}
}

type LeafOpts struct {
	Name      string
	Signer    *CA // nil = self-signed
	DNS       []string
	EKU       []x509.ExtKeyUsage
	NotBefore time.Time
	NotAfter  time.Time
	// KeyUsage overrides the default (digital signature) when non-zero.
	KeyUsage x509.KeyUsage
}

func NewLeaf(dir string, o LeafOpts) *Leaf {
	key := mustKey()
	certSerial++
	if o.NotBefore.IsZero() {
		o.NotBefore = time.Now().Add(-time.Hour)
	}
	if o.NotAfter.IsZero() {
		o.NotAfter = time.Now().Add(12 * time.Hour)
	}
	tmpl := &x509.Certificate{SerialNumber: big.NewInt(certSerial), Subject: pkix.Name{CommonName: o.Name}, NotBefore: o.NotBefore, NotAfter: o.NotAfter,
		KeyUsage: x509.KeyUsageDigitalSignature, ExtKeyUsage: o.EKU, DNSNames: o.DNS}
	if o.KeyUsage != 0 {
		tmpl.KeyUsage = o.KeyUsage
	}
	parent, signKey := tmpl, key
	if o.Signer != nil {
		parent, signKey = o.Signer.Cert, o.Signer.Key
	}
	der, err := x509.CreateCertificate(rand.Reader, tmpl, parent, &key.PublicKey, signKey)
	if err != nil {
		panic(err)
	}
	kder, _ := x509.MarshalECPrivateKey(key)
	l := &Leaf{Name: o.Name, CertPath: filepath.Join(dir, o.Name+".crt"), KeyPath: filepath.Join(dir, o.Name+".key")}
	writePEM(l.CertPath, "CERTIFICATE", der)
	writePEM(l.KeyPath, "EC PRIVATE KEY", kder)
	l.TLSCert, err = tls.LoadX509KeyPair(l.CertPath, l.KeyPath)
	if err != nil {
		panic(err)
	}
	return l
}
