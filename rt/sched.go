package verifrt

// Cooperative scheduler + stateless DFS explorer (micro level). Code rewritten by vinstr (rules locks, go,
// points) calls Lock/Unlock/RLock/RUnlock/Point/Go; when the calling goroutine is managed by an active
// scheduler these become scheduling points: the goroutine parks on its own channel and only the goroutine
// the explorer releases runs (baton discipline). Everything runs inside one testing/synctest bubble per
// execution, so "the released goroutine has reached its next point, blocked for real, or finished" is
// detected with synctest.Wait, and time is virtual.

import (
	"bytes"
	"encoding/json"
	"fmt"
	"os"
	"runtime"
	"runtime/debug"
	"sort"
	"strconv"
	"strings"
	"sync"
	"testing"
	"testing/synctest"
	"time"
)

type gState int

const (
	gRunning     gState = iota // released, has not reached a point yet (or blocked for real)
	gAtPoint                   // parked at a scheduling point, can be released
	gLockBlocked               // parked because a lock it needs is held
	gDone
)

type managed struct {
	id       int
	name     string
	state    gState
	resume   chan struct{}
	site     string
	kind     string
	waitLock any
	readLock bool
	points   int
}

// PointRec is one scheduling decision of an execution.
type PointRec struct {
	Enabled []int `json:"enabled"` // goroutine ids in canonical order (previously running first)
	// EnabledNames: the names of the enabled goroutines, in the same order (used to validate the replay of a prefix)
	EnabledNames []string `json:"-"`
	Chosen       int      `json:"chosen"` // index into Enabled
	Site         string   `json:"site"`
	Name         string   `json:"name"`
	// RunningStillEnabled: choosing index > 0 here preempts a goroutine that could have continued.
	RunningStillEnabled bool `json:"preempt"`
}

type Sched struct {
	mu         sync.Mutex
	byGoid     map[int64]*managed
	gs         []*managed
	prefix     []int
	expect     [][]string // optional: the enabled goroutines (by name) expected at each decision of the prefix
	Points     []PointRec
	Trace      []string
	last       int // id of the goroutine released last
	streak     int // consecutive decisions at which that goroutine was released again
	Deadlock   string
	HorizonHit bool
	maxSteps   int
	children   map[string]int
	Diverged   string
	// Panics: panics that escaped a managed goroutine (in production: the process dies)
	Panics  []string
	holders map[any]string
	// MapRaces: two managed goroutines were inside a write of the same map at once (rule "mapwrite")
	MapRaces   []string
	mapWriters map[uintptr]mapWriter
	// AdvanceQuantum / MaxAdvance: when nothing is enabled but goroutines are alive, virtual time is advanced in
	// quanta up to the horizon before the state is called a deadlock.
	AdvanceQuantum time.Duration
	MaxAdvance     time.Duration
	advanced       time.Duration
	abandoned      bool
	detached       bool
	// NoBranch: while set, decisions are recorded with their default choice only (no alternatives are explored
	// there) - used for deterministic set-up phases driven by the scheduler.
	NoBranch bool
	// Quiescent is set when Run returned because every live managed goroutine is blocked for real (channel,
	// timer, network) and none on a lock: not a deadlock, the environment has to move.
	Quiescent bool
}

// fairStreak: see the fairness rule in Run.
const fairStreak = 200

var (
	schedMu     sync.Mutex
	activeSched *Sched
)

func goid() int64 {
	var buf [64]byte
	n := runtime.Stack(buf[:], false)
	// "goroutine 123 [running]:"
	f := bytes.Fields(buf[:n])
	if len(f) < 2 {
		return -1
	}
	id, _ := strconv.ParseInt(string(f[1]), 10, 64)
	return id
}

// curManaged returns the scheduler and the managed record of the calling goroutine (nil if unmanaged).
func curManaged() (*Sched, *managed) {
	schedMu.Lock()
	s := activeSched
	schedMu.Unlock()
	if s == nil {
		return nil, nil
	}
	id := goid()
	s.mu.Lock()
	g := s.byGoid[id]
	s.mu.Unlock()
	if g == nil {
		return nil, nil
	}
	return s, g
}

type schedHandle struct {
	s *Sched
	g *managed
}

func curSched() *schedHandle {
	s, g := curManaged()
	if s == nil {
		return nil
	}
	return &schedHandle{s, g}
}

// park records the point and waits to be released.
func (h *schedHandle) park(site, kind string) {
	h.s.mu.Lock()
	if h.s.detached {
		ab := h.s.abandoned
		h.s.mu.Unlock()
		if ab {
			// the execution is over: a goroutine that is still looping (a retry loop that never ends) leaves at its
			// next scheduling point, so the bubble can finish
			runtime.Goexit()
		}
		return
	}
	h.g.state = gAtPoint
	h.g.site, h.g.kind = site, kind
	h.g.points++
	h.s.mu.Unlock()
	<-h.g.resume
	h.exitIfAbandoned()
}

// exitIfAbandoned ends a goroutine that was released only because the execution is over.
func (h *schedHandle) exitIfAbandoned() {
	h.s.mu.Lock()
	ab := h.s.abandoned
	h.s.mu.Unlock()
	if ab {
		runtime.Goexit()
	}
}

func (h *schedHandle) lock(site string, m any, read bool) {
	h.park(site, "lock")
	for {
		h.s.mu.Lock()
		det := h.s.detached
		h.s.mu.Unlock()
		if det {
			// scheduler detached: behave like the pass-through shim
			if read {
				for !m.(rlocker).TryRLock() {
					parkOn(m, site)
				}
			} else {
				for !m.(locker).TryLock() {
					parkOn(m, site)
				}
			}
			return
		}
		ok := false
		if read {
			// sync.RWMutex: a blocked Lock call excludes new readers (TryLock does not queue, so the pending writer
			// is the scheduler's knowledge)
			h.s.mu.Lock()
			pendingWriter := false
			for _, g := range h.s.gs {
				if g != h.g && g.state == gLockBlocked && g.waitLock == m && !g.readLock {
					pendingWriter = true
				}
			}
			h.s.mu.Unlock()
			if !pendingWriter {
				ok = m.(rlocker).TryRLock()
			}
		} else {
			ok = m.(locker).TryLock()
		}
		if ok {
			h.s.mu.Lock()
			h.s.holders[m] = h.g.name + "@" + site
			h.s.mu.Unlock()
			return
		}
		h.s.mu.Lock()
		h.g.state = gLockBlocked
		h.g.waitLock, h.g.readLock = m, read
		h.g.site, h.g.kind = site, "lock-wait"
		h.s.mu.Unlock()
		<-h.g.resume
		h.exitIfAbandoned()
	}
}

func (h *schedHandle) unlock(site string, m any, read bool) {
	if read {
		m.(rlocker).RUnlock()
	} else {
		m.(locker).Unlock()
	}
	h.s.mu.Lock()
	delete(h.s.holders, m)
	for _, g := range h.s.gs {
		if g.state == gLockBlocked && g.waitLock == m {
			g.state = gAtPoint
		}
	}
	det := h.s.detached
	h.s.mu.Unlock()
	if det {
		wakeAll(m)
	}
}

// CurName is the name of the calling goroutine if the active scheduler manages it ("" otherwise). Children
// spawned through Go are named parent/site#n, so the part before the first "/" identifies the root thread.
func CurName() string {
	_, g := curManaged()
	if g == nil {
		return ""
	}
	return g.name
}

// Point is a scheduling point inserted by the rewriter (rule "points"); a no-op for unmanaged goroutines.
func Point(site, kind string) {
	if h := curSched(); h != nil {
		h.park(site, kind)
	}
}

// Go starts a goroutine spawned by rewritten code (rule "go"). Under a scheduler the child is managed and
// named after its parent and spawn site, so that the same goroutine has the same name in every execution.
func Go(site string, f func()) {
	s, parent := curManaged()
	if s == nil {
		// started from a goroutine the scheduler does not manage (the harness's root goroutine calling into the code
		// under test, a timer or AfterFunc callback): while a scheduler is driving the execution the child is managed
		// all the same - an unmanaged goroutine that loops without blocking would stall the whole bubble
		schedMu.Lock()
		as := activeSched
		schedMu.Unlock()
		if as != nil {
			as.mu.Lock()
			live := !as.detached && !as.abandoned
			key := "root/" + site
			as.children[key]++
			name := fmt.Sprintf("%s#%d", key, as.children[key])
			as.mu.Unlock()
			if live {
				as.Spawn(name, f)
				return
			}
		}
		go f()
		return
	}
	s.mu.Lock()
	key := parent.name + "/" + site
	s.children[key]++
	name := fmt.Sprintf("%s#%d", key, s.children[key])
	s.mu.Unlock()
	s.Spawn(name, f)
}

// Spawn starts a managed goroutine; it parks at an initial point before running f.
func (s *Sched) Spawn(name string, f func()) {
	g := &managed{name: name, resume: make(chan struct{}), state: gRunning}
	s.mu.Lock()
	g.id = len(s.gs)
	s.gs = append(s.gs, g)
	s.mu.Unlock()
	started := make(chan struct{})
	go func() {
		id := goid()
		s.mu.Lock()
		s.byGoid[id] = g
		s.mu.Unlock()
		close(started)
		defer func() {
			// a panic that nothing in the goroutine recovers would end the process; it is recorded as an outcome of this
			// execution instead (runtime.Goexit, used to abandon goroutines, is not a panic)
			p := recover()
			s.mu.Lock()
			if p != nil {
				s.Panics = append(s.Panics, fmt.Sprintf("goroutine %s: panic: %v\n%s", g.name, p, debug.Stack()))
			}
			g.state = gDone
			delete(s.byGoid, id)
			s.mu.Unlock()
		}()
		(&schedHandle{s, g}).park("spawn:"+name, "start")
		f()
	}()
	<-started
}

func (s *Sched) Tracef(f string, a ...any) {
	s.mu.Lock()
	s.Trace = append(s.Trace, fmt.Sprintf(f, a...))
	s.mu.Unlock()
}

// Run releases goroutines one at a time until all managed goroutines are done, nothing can move
// (deadlock) or the step horizon is hit. Must be called from the bubble's root goroutine.
func (s *Sched) Run() {
	s.Quiescent = false
	for step := 0; ; step++ {
		synctest.Wait()
		s.mu.Lock()
		var enabled []int
		alive := 0
		for _, g := range s.gs {
			if g.state != gDone {
				alive++
			}
			if g.state == gAtPoint {
				enabled = append(enabled, g.id)
			}
		}
		if alive == 0 {
			s.mu.Unlock()
			return
		}
		if len(enabled) == 0 {
			s.mu.Unlock()
			// nothing at a point: goroutines are blocked for real (channel, sleep, timer) or on locks
			if s.AdvanceQuantum > 0 && s.advanced < s.MaxAdvance {
				time.Sleep(s.AdvanceQuantum)
				s.advanced += s.AdvanceQuantum
				continue
			}
			s.mu.Lock()
			var parts []string
			lockBlocked := false
			for _, g := range s.gs {
				switch g.state {
				case gLockBlocked:
					lockBlocked = true
					parts = append(parts, fmt.Sprintf("%s waits at %s for a lock held by %s", g.name, g.site, s.holders[g.waitLock]))
				case gRunning:
					parts = append(parts, fmt.Sprintf("%s is blocked after %s (%s)", g.name, g.site, g.kind))
				}
			}
			if lockBlocked {
				s.Deadlock = strings.Join(parts, "; ")
			} else {
				s.Quiescent = true
			}
			s.mu.Unlock()
			return
		}
		if step >= s.maxSteps {
			s.HorizonHit = true
			s.mu.Unlock()
			return
		}
		// canonical order: the goroutine released last first (if still enabled), then ascending ids
		sort.Ints(enabled)
		stillEnabled := false
		for i, id := range enabled {
			if id == s.last {
				stillEnabled = true
				copy(enabled[1:i+1], enabled[:i])
				enabled[0] = id
				break
			}
		}
		// fairness: a goroutine that has been released fairStreak times in a row while others are waiting at a point
		// (a retry loop that never blocks) goes to the back of the canonical order, and taking another one is then not a
		// departure from the default schedule - waiting by spinning stays visible without ending in the horizon
		if stillEnabled && len(enabled) > 1 && s.streak >= fairStreak {
			first := enabled[0]
			copy(enabled, enabled[1:])
			enabled[len(enabled)-1] = first
			stillEnabled = false
		}
		if s.NoBranch {
			enabled = enabled[:1]
			stillEnabled = false
		}
		choice := 0
		k := len(s.Points)
		if k < len(s.prefix) {
			choice = s.prefix[k]
			if choice >= len(enabled) {
				s.Diverged = fmt.Sprintf("replay diverged at decision %d: choice %d of %d enabled", k, choice, len(enabled))
				s.mu.Unlock()
				return
			}
		}
		names := make([]string, len(enabled))
		for i, id := range enabled {
			names[i] = s.gs[id].name
		}
		if k < len(s.prefix) && k < len(s.expect) {
			same := len(names) == len(s.expect[k])
			for i := 0; same && i < len(names); i++ {
				same = names[i] == s.expect[k][i]
			}
			if !same {
				s.Diverged = fmt.Sprintf("replay diverged at decision %d: enabled %v, expected %v", k, names, s.expect[k])
				s.mu.Unlock()
				return
			}
		}
		g := s.gs[enabled[choice]]
		s.Points = append(s.Points, PointRec{Enabled: enabled, EnabledNames: names, Chosen: choice, Site: g.site + ":" + g.kind, Name: g.name, RunningStillEnabled: stillEnabled && len(s.Points) > 0})
		s.Trace = append(s.Trace, fmt.Sprintf("%s %s(%s)", g.name, g.kind, g.site))
		g.state = gRunning
		if s.last == g.id {
			s.streak++
		} else {
			s.streak = 1
		}
		s.last = g.id
		s.mu.Unlock()
		g.resume <- struct{}{}
	}
}

// AliveNames lists managed goroutines that have not finished (leak detection after Run).
func (s *Sched) AliveNames() []string {
	s.mu.Lock()
	defer s.mu.Unlock()
	var out []string
	for _, g := range s.gs {
		if g.state != gDone {
			out = append(out, fmt.Sprintf("%s@%s", g.name, g.site))
		}
	}
	return out
}

// Detach turns the scheduler off for the rest of the execution: parked goroutines continue and from now on
// every shim is pass-through (used for the free-running closing phases after the explored part).
func (s *Sched) Detach() {
	s.mu.Lock()
	s.detached = true
	gs := append([]*managed(nil), s.gs...)
	s.mu.Unlock()
	for _, g := range gs {
		s.mu.Lock()
		parked := g.state == gAtPoint || g.state == gLockBlocked
		if parked {
			g.state = gRunning
		}
		s.mu.Unlock()
		if parked {
			g.resume <- struct{}{}
		}
	}
}

// Abandon releases every parked goroutine for good (the scheduler is deactivated first, so their shims
// become pass-through) - used to let a bubble end after a deadlock was recorded.
func (s *Sched) Abandon() {
	schedMu.Lock()
	if activeSched == s {
		activeSched = nil
	}
	schedMu.Unlock()
	s.mu.Lock()
	s.abandoned = true
	gs := append([]*managed(nil), s.gs...)
	s.mu.Unlock()
	for _, g := range gs {
		if g.state == gAtPoint || g.state == gLockBlocked {
			select {
			case g.resume <- struct{}{}:
			default:
			}
		}
	}
}

// Execution is the record of one schedule.
type Execution struct {
	Points     []PointRec
	Trace      []string
	Deadlock   string
	Quiescent  bool
	HorizonHit bool
	Diverged   string
	Violation  string
	Signature  string
	Outcome    string
	Err        string
	Panics     []string
}

// RunSchedule executes body in a fresh bubble under a scheduler that follows prefix and then always takes
// choice 0. body builds fresh objects, spawns managed goroutines with s.Spawn, calls s.Run(), and returns
// an oracle verdict (signature, detail) - empty if the property held - plus an outcome label.
func RunSchedule(t *testing.T, prefix []int, maxSteps int, body func(s *Sched) (sig, detail, outcome string)) (ex Execution) {
	return RunScheduleExpect(t, prefix, nil, maxSteps, body)
}

// replayAttempts: an execution whose replayed prefix does not meet the expected enabled sets (the code under test
// iterates over a Go map, whose order the scheduler does not control) is attempted again this many times before it
// is counted as a divergence.
const replayAttempts = 8

func runValidated(t *testing.T, prefix []int, expect [][]string, maxSteps int, body func(s *Sched) (sig, detail, outcome string)) (ex Execution) {
	for attempt := 0; attempt < replayAttempts; attempt++ {
		ex = RunScheduleExpect(t, prefix, expect, maxSteps, body)
		if ex.Diverged == "" {
			return ex
		}
	}
	return ex
}

// expectFor: the enabled sets of the first n decisions of ex.
func expectFor(ex Execution, n int) [][]string {
	out := make([][]string, 0, n)
	for i := 0; i < n && i < len(ex.Points); i++ {
		out = append(out, ex.Points[i].EnabledNames)
	}
	return out
}

// RunScheduleExpect is RunSchedule with a validation of the prefix: at decision k of the prefix the enabled
// goroutines must be expect[k] (by name, in canonical order); a mismatch is reported as a divergence.
func RunScheduleExpect(t *testing.T, prefix []int, expect [][]string, maxSteps int, body func(s *Sched) (sig, detail, outcome string)) (ex Execution) {
	done := make(chan struct{})
	go func() {
		defer close(done)
		defer func() {
			if p := recover(); p != nil {
				ex.Err = fmt.Sprintf("bubble: %v", p)
			}
		}()
		synctest.Test(t, func(t *testing.T) {
			s := &Sched{byGoid: map[int64]*managed{}, prefix: prefix, expect: expect, maxSteps: maxSteps, children: map[string]int{}, holders: map[any]string{}, last: -1}
			schedMu.Lock()
			activeSched = s
			schedMu.Unlock()
			defer func() {
				s.Abandon()
				synctest.Wait()
			}()
			sig, detail, outcome := body(s)
			ex.Points, ex.Trace, ex.Deadlock, ex.HorizonHit, ex.Diverged, ex.Quiescent = s.Points, s.Trace, s.Deadlock, s.HorizonHit, s.Diverged, s.Quiescent
			ex.Signature, ex.Violation, ex.Outcome = sig, detail, outcome
			s.mu.Lock()
			ex.Panics = append([]string(nil), s.Panics...)
			s.mu.Unlock()
			if ex.Signature == "" && len(ex.Panics) > 0 {
				ex.Signature = "crash/panic-escapes-a-goroutine"
				ex.Violation = ex.Panics[0]
			}
		})
	}()
	<-done
	return ex
}

type ExploreStats struct {
	Executions     int64
	Decisions      int64 // scheduling decisions taken over all executions
	MaxPoints      int
	Deadlocks      int64
	HorizonHits    int64
	Diverged       int64
	BoundCompleted int
	Outcomes       map[string]int64
	Exhaustive     bool
	HarnessErrors  []string
}

// Explore enumerates schedules by iterative preemption bounding: every schedule with at most `bound`
// preemptions (switching away from a goroutine that could have continued), depth-first. onViolation is called
// for each violating execution; exploration of a bound stops after maxViolations.
func Explore(t *testing.T, bound int, maxSteps int, deadline time.Time, body func(s *Sched) (sig, detail, outcome string), onViolation func(ex Execution, choices []int)) ExploreStats {
	st := ExploreStats{Outcomes: map[string]int64{}, Exhaustive: true}
	violations := 0
	var explore func(prefix []int, expect [][]string, b int)
	explore = func(prefix []int, expect [][]string, b int) {
		if time.Now().After(deadline) {
			st.Exhaustive = false
			return
		}
		ex := runValidated(t, prefix, expect, maxSteps, body)
		st.Executions++
		if len(ex.Points) > st.MaxPoints {
			st.MaxPoints = len(ex.Points)
		}
		if ex.Err != "" && !strings.Contains(ex.Err, "blocked goroutines remain") {
			st.HarnessErrors = append(st.HarnessErrors, ex.Err)
		}
		if ex.Diverged != "" {
			st.Diverged++
			st.Exhaustive = false
			return
		}
		if ex.HorizonHit {
			st.HorizonHits++
			st.Exhaustive = false
		}
		if ex.Deadlock != "" {
			st.Deadlocks++
		}
		st.Outcomes[ex.Outcome]++
		choices := make([]int, len(ex.Points))
		for i, p := range ex.Points {
			choices[i] = p.Chosen
		}
		if ex.Signature != "" {
			violations++
			onViolation(ex, choices)
		}
		// preemptions used before point i
		used := 0
		for i := 0; i < len(ex.Points); i++ {
			p := ex.Points[i]
			if i >= len(prefix) {
				cost := used
				if p.RunningStillEnabled {
					cost++
				}
				if cost <= b {
					for alt := 1; alt < len(p.Enabled); alt++ {
						np := append(append([]int(nil), choices[:i]...), alt)
						explore(np, expectFor(ex, i+1), b)
					}
				}
			}
			if p.RunningStillEnabled && p.Chosen != 0 {
				used++
			}
		}
	}
	explore(nil, nil, bound)
	st.BoundCompleted = bound
	return st
}

// ---------------------------------------------------------------------------------------------
// sharded exploration: the coordinator runs the default schedule, every first-level alternative becomes
// the root of a subtree explored completely by a worker process.

// DeviationMode: when true the bound counts every departure from the default choice (delay bounding),
// not only preemptions; used for scenarios with many goroutines, where even the non-preemptive orders are
// too many to enumerate.
var DeviationMode bool

type ShardJob struct {
	Deviation bool   `json:"deviation"`
	Scenario  string `json:"scenario"`
	Prefix    []int  `json:"prefix"`
	Bound     int    `json:"bound"`
	MaxSteps  int    `json:"max_steps"`
	BudgetS   int    `json:"budget_s"`
	// DeadlineUnix: the absolute end of the exploration (a shard that starts late gets what is left, at least 1 s)
	DeadlineUnix int64 `json:"deadline_unix,omitempty"`
}

type ShardViolation struct {
	Signature string   `json:"sig"`
	Detail    string   `json:"detail"`
	Choices   []int    `json:"choices"`
	Trace     []string `json:"trace"`
}

type ShardResult struct {
	Stats        ExploreStats     `json:"stats"`
	Violations   []ShardViolation `json:"viol"`
	Unreproduced []string         `json:"unreproduced,omitempty"`
}

// exploreFrom is Explore restricted to the subtree below prefix.
func exploreFrom(t *testing.T, prefix []int, bound int, maxSteps int, deadline time.Time, body func(s *Sched) (sig, detail, outcome string), onViolation func(ex Execution, choices []int)) ExploreStats {
	st := ExploreStats{Outcomes: map[string]int64{}, Exhaustive: true}
	var explore func(prefix []int, expect [][]string)
	explore = func(prefix []int, expect [][]string) {
		if time.Now().After(deadline) {
			st.Exhaustive = false
			return
		}
		if dir := os.Getenv("VERIF_DEBUG_SCHED"); dir != "" {
			// debugging aid: the prefix about to be executed, so that a hanging execution can be identified
			b, _ := json.Marshal(prefix)
			_ = os.WriteFile(fmt.Sprintf("%s/sched-%d.json", dir, os.Getpid()), b, 0o644)
		}
		ex := runValidated(t, prefix, expect, maxSteps, body)
		st.Executions++
		st.Decisions += int64(len(ex.Points))
		if len(ex.Points) > st.MaxPoints {
			st.MaxPoints = len(ex.Points)
		}
		if ex.Err != "" && !strings.Contains(ex.Err, "blocked goroutines remain") {
			st.HarnessErrors = append(st.HarnessErrors, ex.Err)
		}
		if ex.Diverged != "" {
			st.Diverged++
			st.Exhaustive = false
			return
		}
		if ex.HorizonHit {
			st.HorizonHits++
			st.Exhaustive = false
		}
		if ex.Deadlock != "" {
			st.Deadlocks++
		}
		st.Outcomes[ex.Outcome]++
		choices := make([]int, len(ex.Points))
		for i, p := range ex.Points {
			choices[i] = p.Chosen
		}
		if ex.Signature != "" {
			onViolation(ex, choices)
		}
		used := 0
		for i := 0; i < len(ex.Points); i++ {
			p := ex.Points[i]
			if i >= len(prefix) {
				cost := used
				if p.RunningStillEnabled || DeviationMode {
					cost++
				}
				if cost <= bound {
					for alt := 1; alt < len(p.Enabled); alt++ {
						explore(append(append([]int(nil), choices[:i]...), alt), expectFor(ex, i+1))
					}
				}
			}
			if (p.RunningStillEnabled || DeviationMode) && p.Chosen != 0 {
				used++
			}
		}
	}
	explore(prefix, nil)
	st.BoundCompleted = bound
	return st
}

// ServeShards is the worker side of ExploreSharded.
func ServeShards(t *testing.T, scenarios map[string]func(s *Sched) (string, string, string)) {
	ServeWorker(func(js string) string {
		var job ShardJob
		if err := json.Unmarshal([]byte(js), &job); err != nil {
			return `{"stats":{"HarnessErrors":["bad job"]}}`
		}
		body := scenarios[job.Scenario]
		DeviationMode = job.Deviation
		var out ShardResult
		perSig := map[string]int{}
		end := time.Now().Add(time.Duration(job.BudgetS) * time.Second)
		if job.DeadlineUnix > 0 {
			if abs := time.Unix(job.DeadlineUnix, 0); abs.Before(end) {
				end = abs
			}
			if min := time.Now().Add(time.Second); end.Before(min) {
				end = min
			}
		}
		out.Stats = exploreFrom(t, job.Prefix, job.Bound, job.MaxSteps, end, body, func(ex Execution, choices []int) {
			perSig[ex.Signature]++
			if perSig[ex.Signature] > 2 {
				return
			}
			again := runValidated(t, choices, expectFor(ex, len(ex.Points)), job.MaxSteps, body)
			if again.Signature != ex.Signature {
				// not reproducible on the same schedule: never reported as a violation, but coverage is not called complete
				out.Unreproduced = append(out.Unreproduced, ex.Signature)
				return
			}
			out.Violations = append(out.Violations, ShardViolation{ex.Signature, ex.Violation, choices, ex.Trace})
		})
		b, _ := json.Marshal(out)
		return string(b)
	})
}

// ExploreSharded explores one scenario with the subtrees below the default schedule's alternatives spread
// over the worker pool. Violations are returned (at most a few per signature per shard).
func ExploreSharded(t *testing.T, pool *Pool, scenario string, bound, maxSteps int, deadline time.Time, body func(s *Sched) (string, string, string)) (ExploreStats, []ShardViolation) {
	total := ExploreStats{Outcomes: map[string]int64{}, Exhaustive: true, BoundCompleted: bound}
	var viol []ShardViolation
	ex := RunSchedule(t, nil, maxSteps, body)
	total.Executions++
	total.Decisions += int64(len(ex.Points))
	total.MaxPoints = len(ex.Points)
	total.Outcomes[ex.Outcome]++
	if ex.Deadlock != "" {
		total.Deadlocks++
	}
	choices := make([]int, len(ex.Points))
	for i, p := range ex.Points {
		choices[i] = p.Chosen
	}
	if ex.Signature != "" {
		// like every other violating schedule, the default schedule's verdict counts only if it reproduces
		again := runValidated(t, choices, expectFor(ex, len(ex.Points)), maxSteps, body)
		if again.Signature == ex.Signature {
			viol = append(viol, ShardViolation{ex.Signature, ex.Violation, choices, ex.Trace})
		} else {
			total.Exhaustive = false
			total.HarnessErrors = append(total.HarnessErrors, "a violating schedule did not reproduce (not reported): "+ex.Signature+" on the default schedule")
		}
	}
	var jobs []string
	budget := int(time.Until(deadline).Seconds())
	if budget < 5 {
		budget = 5
	}
	for i, p := range ex.Points {
		cost := 0
		if p.RunningStillEnabled || DeviationMode {
			cost = 1
		}
		if cost > bound {
			continue
		}
		for alt := 1; alt < len(p.Enabled); alt++ {
			b, _ := json.Marshal(ShardJob{Deviation: DeviationMode, Scenario: scenario, Prefix: append(append([]int(nil), choices[:i]...), alt), Bound: bound, MaxSteps: maxSteps, BudgetS: budget, DeadlineUnix: deadline.Unix()})
			jobs = append(jobs, string(b))
		}
	}
	for _, r := range pool.Map(jobs, nil) {
		if r.Crashed || r.TimedOut {
			total.HarnessErrors = append(total.HarnessErrors, fmt.Sprintf("shard worker crashed=%v timedOut=%v: %.300s", r.Crashed, r.TimedOut, r.Stderr))
			total.Exhaustive = false
			continue
		}
		var sr ShardResult
		if err := json.Unmarshal([]byte(r.Out), &sr); err != nil {
			total.HarnessErrors = append(total.HarnessErrors, "bad shard output")
			total.Exhaustive = false
			continue
		}
		total.Executions += sr.Stats.Executions
		total.Decisions += sr.Stats.Decisions
		total.Deadlocks += sr.Stats.Deadlocks
		total.HorizonHits += sr.Stats.HorizonHits
		total.Diverged += sr.Stats.Diverged
		if sr.Stats.MaxPoints > total.MaxPoints {
			total.MaxPoints = sr.Stats.MaxPoints
		}
		total.Exhaustive = total.Exhaustive && sr.Stats.Exhaustive
		for o, c := range sr.Stats.Outcomes {
			total.Outcomes[o] += c
		}
		total.HarnessErrors = append(total.HarnessErrors, sr.Stats.HarnessErrors...)
		for _, u := range sr.Unreproduced {
			total.HarnessErrors = append(total.HarnessErrors, "a violating schedule did not reproduce (not reported): "+u)
			total.Exhaustive = false
		}
		viol = append(viol, sr.Violations...)
	}
	return total, viol
}
