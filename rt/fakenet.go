package verifrt

import (
	"net"
	"time"
)

// Network seam (rewriter rule "net"): net.DialTimeout / net.Listen of the rewritten files go through these.
// Without a fake network installed they are the originals.

type FakeNet struct {
	Dial   func(network, addr string, timeout time.Duration) (net.Conn, error)
	Listen func(network, addr string) (net.Listener, error)
}

var fakeNet *FakeNet

// SetFakeNet installs (or, with nil, removes) the in-memory network of the current execution.
func SetFakeNet(n *FakeNet) { fakeNet = n }

func NetDialTimeout(network, addr string, timeout time.Duration) (net.Conn, error) {
	if n := fakeNet; n != nil && n.Dial != nil {
		return n.Dial(network, addr, timeout)
	}
	return net.DialTimeout(network, addr, timeout)
}

func NetListen(network, addr string) (net.Listener, error) {
	if n := fakeNet; n != nil && n.Listen != nil {
		return n.Listen(network, addr)
	}
	return net.Listen(network, addr)
}
