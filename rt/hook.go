package verifrt

// Hooked (rewriter rule "intraclient"): a constructor call mk(c) of the rewritten file can be answered by the
// harness instead (e.g. the gRPC client an instance uses towards a peer instance becomes an in-memory one).
var hooks = map[string]func(any) any{}

// SetHook installs (or, with nil, removes) the harness's answer for the named construction site.
func SetHook(name string, f func(any) any) {
	if f == nil {
		delete(hooks, name)
		return
	}
	hooks[name] = f
}

func Hooked[C any, T any](name string, mk func(C) T, c any) T {
	if f := hooks[name]; f != nil {
		if v, ok := f(c).(T); ok {
			return v
		}
	}
	return mk(c.(C))
}
