package verifrt

import (
	"fmt"
	"runtime"
	"sort"
	"sync"
	"sync/atomic"
	"time"
)

// Lock shims. The rewriter (rule "locks") turns x.Lock()/Unlock()/RLock()/RUnlock() into calls to these.
// Without a scheduler they behave like the originals, except that a goroutine which cannot get the lock
// parks on a channel (durably blocked for testing/synctest, so virtual time keeps working and
// synctest.Wait returns) and is listed by BlockedLockers: "blocked on a mutex nobody will release" becomes
// an observable state instead of a hang.

type locker interface {
	Lock()
	Unlock()
	TryLock() bool
}

type rlocker interface {
	RLock()
	RUnlock()
	TryRLock() bool
}

type lockWaiter struct {
	site string
	ch   chan struct{}
}

var (
	lockMu      sync.Mutex
	lockWaiters = map[any][]lockWaiter{}
	lockHolders = map[any]string{}
)

// abandoned: the execution is over; goroutines that are (or become) stuck on a lock exit instead of parking,
// so the bubble they live in can end.
var abandoned bool

func parkOn(m any, site string) {
	lockMu.Lock()
	if abandoned {
		lockMu.Unlock()
		runtime.Goexit()
	}
	ch := make(chan struct{})
	lockWaiters[m] = append(lockWaiters[m], lockWaiter{site, ch})
	lockMu.Unlock()
	<-ch
}

// AbandonBlockedLockers makes every goroutine parked on a lock exit (running its deferred calls).
func AbandonBlockedLockers() {
	lockMu.Lock()
	abandoned = true
	all := lockWaiters
	lockWaiters = map[any][]lockWaiter{}
	lockMu.Unlock()
	for _, ws := range all {
		for _, w := range ws {
			close(w.ch)
		}
	}
}

func wakeAll(m any) {
	lockMu.Lock()
	ws := lockWaiters[m]
	delete(lockWaiters, m)
	lockMu.Unlock()
	for _, w := range ws {
		close(w.ch)
	}
}

// LazyLock (macro level, optional): when it returns true for a site, the goroutine about to take that write lock first
// sleeps one millisecond of virtual time - everybody else runs until blocked before the lock is taken (one fixed
// "the locker is late" schedule; whatever the code started before asking for the lock gets to run first). LazyPending
// tells the harness that such a sleeper exists, i.e. that a quiescent bubble is not yet a settled one.
var LazyLock func(site string) bool
var lazyPending atomic.Int32

func LazyPending() bool { return lazyPending.Load() > 0 }

func Lock(site string, m locker) {
	if s := curSched(); s != nil {
		s.lock(site, m, false)
		return
	}
	if f := LazyLock; f != nil && f(site) {
		lazyPending.Add(1)
		time.Sleep(time.Millisecond)
		lazyPending.Add(-1)
	}
	for !m.TryLock() {
		parkOn(m, site)
	}
	lockMu.Lock()
	lockHolders[m] = site
	lockMu.Unlock()
}

func Unlock(site string, m locker) {
	if s := curSched(); s != nil {
		s.unlock(site, m, false)
		return
	}
	lockMu.Lock()
	delete(lockHolders, m)
	lockMu.Unlock()
	m.Unlock()
	wakeAll(m)
}

func RLock(site string, m rlocker) {
	if s := curSched(); s != nil {
		s.lock(site, m, true)
		return
	}
	for !m.TryRLock() {
		parkOn(m, site)
	}
}

func RUnlock(site string, m rlocker) {
	if s := curSched(); s != nil {
		s.unlock(site, m, true)
		return
	}
	m.RUnlock()
	wakeAll(m)
}

// BlockedLockers lists goroutines parked on a lock, with the site that holds it (if known).
func BlockedLockers() []string {
	lockMu.Lock()
	defer lockMu.Unlock()
	var out []string
	for m, ws := range lockWaiters {
		for _, w := range ws {
			out = append(out, fmt.Sprintf("%s waits for a lock last taken at %s", w.site, lockHolders[m]))
		}
	}
	sort.Strings(out)
	return out
}

// ResetLocks forgets waiters of a previous execution (their goroutines are abandoned with their bubble).
func ResetLocks() {
	lockMu.Lock()
	lockWaiters = map[any][]lockWaiter{}
	lockHolders = map[any]string{}
	abandoned = false
	lockMu.Unlock()
}
