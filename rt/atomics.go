package verifrt

// AtomicAdd (rewriter rule "atomics"): the counter's address has been evaluated by the caller; a scheduling
// point separates that from the add itself.
func AtomicAdd[T any, P interface{ Add(T) T }](p P, v T) T {
	Point("atomic", "add")
	return p.Add(v)
}
