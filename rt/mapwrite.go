package verifrt

import (
	"fmt"
	"reflect"
)

// Map-write brackets (rewriter rule "mapwrite"). Under the scheduler a write of a map held in a struct field is a
// window with a scheduling point inside: a second goroutine that enters a write of the same map while the first is
// inside is what the Go runtime ends the process for ("fatal error: concurrent map writes", not recoverable). The
// schedule is recorded in Sched.MapRaces; harness bodies turn it into a verdict. With correct locking the window is
// never shared: the second writer would need the lock the first one holds. Without a scheduler both are no-ops.

type mapWriter struct {
	goroutine string
	site      string
}

func MapWriteBegin(site string, m any) {
	s, g := curManaged()
	if s == nil || s.detached {
		return
	}
	p := reflect.ValueOf(m).Pointer()
	if p == 0 {
		return
	}
	s.mu.Lock()
	if s.mapWriters == nil {
		s.mapWriters = map[uintptr]mapWriter{}
	}
	if w, busy := s.mapWriters[p]; busy && w.goroutine != g.name {
		s.MapRaces = append(s.MapRaces, fmt.Sprintf("%s in goroutine %s writes a map while goroutine %s is inside its write at %s", site, g.name, w.goroutine, w.site))
	} else {
		s.mapWriters[p] = mapWriter{g.name, site}
	}
	s.mu.Unlock()
	(&schedHandle{s, g}).park(site, "mapwrite")
}

func MapWriteEnd(site string, m any) {
	s, g := curManaged()
	if s == nil {
		return
	}
	p := reflect.ValueOf(m).Pointer()
	s.mu.Lock()
	if w, ok := s.mapWriters[p]; ok && w.goroutine == g.name {
		delete(s.mapWriters, p)
	}
	s.mu.Unlock()
}
