package verifrt

import (
	"fmt"
	"sort"
)

// Entry / SortedEntries (rewriter rule "maprange"): a range over a map becomes a range over a snapshot of its
// entries in the order of their printed keys, so that an execution does not depend on Go's random map order.
// Differences to a native range: entries added or deleted by the loop body are not noticed.
type Entry[K comparable, V any] struct {
	K K
	V V
}

func SortedEntries[M ~map[K]V, K comparable, V any](m M) []Entry[K, V] {
	out := make([]Entry[K, V], 0, len(m))
	keys := make([]string, 0, len(m))
	for k, v := range m {
		out = append(out, Entry[K, V]{k, v})
		keys = append(keys, fmt.Sprint(k))
	}
	idx := make([]int, len(out))
	for i := range idx {
		idx[i] = i
	}
	sort.SliceStable(idx, func(a, b int) bool { return keys[idx[a]] < keys[idx[b]] })
	sorted := make([]Entry[K, V], len(out))
	for i, j := range idx {
		sorted[i] = out[j]
	}
	return sorted
}
