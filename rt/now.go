package verifrt

import (
	"sync/atomic"
	"time"
)

var nowCounter int64

// Now replaces time.Now in rewritten files (rule "now"): under testing/synctest the fake clock does not move
// while code runs, so two readings would be identical; a real nanosecond clock never returns the same
// instant to two successive registrations. Bubble time plus a strictly increasing nanosecond counter.
func Now() time.Time {
	return time.Now().Add(time.Duration(atomic.AddInt64(&nowCounter, 1)))
}
