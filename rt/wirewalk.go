package verifrt

// Wire-level walker / rewriter driven by descriptors (independent of any generated struct): used as the
// reference for the UTF-8 repair properties. It finds every string-field occurrence in an encoded message,
// knows whether it is a temporal.api.failure.v1.Failure.message and at which depth of a cause chain, and can
// re-encode the message with replaced string contents (re-computing all enclosing length prefixes).

import (
	"fmt"
	"strings"
	"unicode/utf8"

	"google.golang.org/protobuf/encoding/protowire"
	"google.golang.org/protobuf/reflect/protoreflect"
	"google.golang.org/protobuf/reflect/protoregistry"
)

const FailureFullName = protoreflect.FullName("temporal.api.failure.v1.Failure")

type StringOcc struct {
	FD            protoreflect.FieldDescriptor
	Path          string
	IsFailureMsg  bool // the field is Failure.message
	FailureDepth  int  // 1 = outermost failure of a chain
	Index         int  // ordinal among all string occurrences of the message
	FailureMsgSeq int  // ordinal among failure-message occurrences (-1 otherwise)
	Value         []byte
}

type wireWalker struct {
	f       func(*StringOcc) []byte
	idx     int
	failSeq int
	// MaxChain is the longest failure cause chain seen.
	maxChain int
}

// RewriteWire parses b as a message of type md and returns the re-encoding in which every string
// occurrence for which f returns non-nil has that content. ok=false: b is not a well-formed encoding
// according to the descriptor walk. maxChain = length of the longest failure cause chain.
func RewriteWire(b []byte, md protoreflect.MessageDescriptor, f func(*StringOcc) []byte) (out []byte, maxChain int, ok bool) {
	w := &wireWalker{f: f}
	out, ok = w.msg(b, md, 0, string(md.Name()))
	return out, w.maxChain, ok
}

func (w *wireWalker) msg(b []byte, md protoreflect.MessageDescriptor, failDepth int, path string) ([]byte, bool) {
	var out []byte
	isFailure := md.FullName() == FailureFullName
	if isFailure && failDepth > w.maxChain {
		w.maxChain = failDepth
	}
	for len(b) > 0 {
		num, typ, n := protowire.ConsumeTag(b)
		if n < 0 {
			return nil, false
		}
		tag := b[:n]
		b = b[n:]
		fd := md.Fields().ByNumber(num)
		vn := protowire.ConsumeFieldValue(num, typ, b)
		if vn < 0 {
			return nil, false
		}
		raw := b[:vn]
		b = b[vn:]
		if fd == nil || typ != protowire.BytesType {
			out = append(out, tag...)
			out = append(out, raw...)
			continue
		}
		val, m := protowire.ConsumeBytes(raw)
		if m < 0 {
			return nil, false
		}
		switch {
		case fd.Kind() == protoreflect.StringKind && !fd.IsMap():
			occ := &StringOcc{FD: fd, Path: path + "." + string(fd.Name()), Index: w.idx, FailureMsgSeq: -1, Value: val}
			w.idx++
			if isFailure && fd.Name() == "message" {
				occ.IsFailureMsg = true
				occ.FailureDepth = failDepth
				occ.FailureMsgSeq = w.failSeq
				w.failSeq++
			}
			nv := val
			if w.f != nil {
				if r := w.f(occ); r != nil {
					nv = r
				}
			}
			out = append(out, tag...)
			out = protowire.AppendBytes(out, nv)
		case fd.Kind() == protoreflect.MessageKind || fd.Kind() == protoreflect.GroupKind:
			sub := fd.Message()
			depth := failDepth
			if sub.FullName() == FailureFullName {
				if isFailure && fd.Name() == "cause" {
					depth = failDepth + 1
				} else {
					depth = 1
				}
			} else if !fd.IsMap() && !isMapEntry(md) {
				depth = 0
			}
			if strings.HasPrefix(string(sub.FullName()), "google.protobuf.") {
				out = append(out, tag...)
				out = append(out, raw...)
				continue
			}
			nv, ok := w.msg(val, sub, depth, path+"."+string(fd.Name()))
			if !ok {
				return nil, false
			}
			out = append(out, tag...)
			out = protowire.AppendBytes(out, nv)
		default:
			out = append(out, tag...)
			out = append(out, raw...)
		}
	}
	return out, true
}

func isMapEntry(md protoreflect.MessageDescriptor) bool { return md.IsMapEntry() }

// Classification of an encoded message for the repair oracle.
type WireClass struct {
	WellFormed        bool
	InvalidFailureMsg int // string occurrences with invalid UTF-8 that are Failure.message
	InvalidOther      int // ... that are any other string field
	MaxChain          int
	Sanitized         []byte // encoding with every invalid Failure.message replaced by ToValidUTF8(.., U+FFFD)
	Strings           int
}

func ClassifyWire(b []byte, md protoreflect.MessageDescriptor) WireClass {
	var c WireClass
	out, maxChain, ok := RewriteWire(b, md, func(o *StringOcc) []byte {
		c.Strings++
		if utf8.Valid(o.Value) {
			return nil
		}
		if o.IsFailureMsg {
			c.InvalidFailureMsg++
			return []byte(strings.ToValidUTF8(string(o.Value), string(utf8.RuneError)))
		}
		c.InvalidOther++
		return nil
	})
	c.WellFormed, c.MaxChain, c.Sanitized = ok, maxChain, out
	return c
}

// Roots lists request and response message types of the two proxied services.
type Root struct {
	Service  string
	Method   string
	Full     string
	Response bool
	MD       protoreflect.MessageDescriptor
}

func (r Root) String() string {
	k := "Request"
	if r.Response {
		k = "Response"
	}
	return fmt.Sprintf("%s.%s %s (%s)", r.Service, r.Method, k, r.MD.Name())
}

func Roots() []Root {
	var out []Root
	for _, name := range []protoreflect.FullName{"temporal.server.api.adminservice.v1.AdminService", "temporal.api.workflowservice.v1.WorkflowService"} {
		d, err := protoregistry.GlobalFiles.FindDescriptorByName(name)
		if err != nil {
			panic(fmt.Sprintf("service %s is not linked into this test binary: %v", name, err))
		}
		sd := d.(protoreflect.ServiceDescriptor)
		for i := 0; i < sd.Methods().Len(); i++ {
			m := sd.Methods().Get(i)
			full := fmt.Sprintf("/%s/%s", sd.FullName(), m.Name())
			out = append(out, Root{string(sd.Name()), string(m.Name()), full, false, m.Input()}, Root{string(sd.Name()), string(m.Name()), full, true, m.Output()})
		}
	}
	return out
}
