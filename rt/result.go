// Package verifrt is the runtime shared by the verification harnesses. It is compiled into the
// repository's packages through `go test -overlay` as the virtual package
// github.com/temporalio/s2s-proxy/internal/verifrt and never exists in /repo itself.
package verifrt

import (
	"encoding/json"
	"fmt"
	"os"
	"sort"
	"strconv"
	"sync"
	"time"
)

// Violation is one counterexample found by a harness.
type Violation struct {
	Signature string `json:"signature"` // stable identifier used by the known-findings matcher
	Detail    string `json:"detail"`
	Replay    any    `json:"replay,omitempty"` // whatever the harness needs to re-execute the case
}

// Result is what a harness run hands back to the runner (vcheck), which turns it into evidence.
type Result struct {
	Property    string         `json:"property"`
	Level       string         `json:"level"`
	Coverage    map[string]any `json:"coverage"`
	Violations  []Violation    `json:"violations"`
	Assumptions []string       `json:"assumptions"`
	WallS       float64        `json:"wall_s"`

	mu    sync.Mutex
	start time.Time
	seen  map[string]bool
}

func NewResult(property, level string) *Result {
	return &Result{Property: property, Level: level, Coverage: map[string]any{}, start: time.Now(), seen: map[string]bool{}}
}

// Violate records a violation; at most maxPerSignature details are kept per signature.
func (r *Result) Violate(sig, detail string, replay any) {
	r.mu.Lock()
	defer r.mu.Unlock()
	n := 0
	for _, v := range r.Violations {
		if v.Signature == sig {
			n++
		}
	}
	if n >= 3 {
		return
	}
	r.Violations = append(r.Violations, Violation{Signature: sig, Detail: detail, Replay: replay})
}

func (r *Result) NumViolations() int {
	r.mu.Lock()
	defer r.mu.Unlock()
	return len(r.Violations)
}

func (r *Result) Set(key string, v any) {
	r.mu.Lock()
	defer r.mu.Unlock()
	r.Coverage[key] = v
}

func (r *Result) Add(key string, n int64) {
	r.mu.Lock()
	defer r.mu.Unlock()
	cur, _ := r.Coverage[key].(int64)
	r.Coverage[key] = cur + n
}

// Sample appends to coverage.samples (capped).
func (r *Result) Sample(s any) {
	r.mu.Lock()
	defer r.mu.Unlock()
	l, _ := r.Coverage["samples"].([]any)
	if len(l) >= 6 {
		return
	}
	r.Coverage["samples"] = append(l, s)
}

func (r *Result) Assume(s string) {
	r.mu.Lock()
	defer r.mu.Unlock()
	for _, a := range r.Assumptions {
		if a == s {
			return
		}
	}
	r.Assumptions = append(r.Assumptions, s)
}

// Write stores the result where the runner expects it ($VERIF_OUT) and echoes a summary.
func (r *Result) Write() error {
	r.mu.Lock()
	defer r.mu.Unlock()
	r.WallS = time.Since(r.start).Seconds()
	sort.SliceStable(r.Violations, func(i, j int) bool { return r.Violations[i].Signature < r.Violations[j].Signature })
	b, err := json.MarshalIndent(r, "", " ")
	if err != nil {
		return err
	}
	out := os.Getenv("VERIF_OUT")
	if out == "" {
		fmt.Println(string(b))
		return nil
	}
	return os.WriteFile(out, b, 0o644)
}

func Tier() string {
	if t := os.Getenv("VERIF_TIER"); t == "thorough" {
		return "thorough"
	}
	return "quick"
}

func Thorough() bool { return Tier() == "thorough" }

func Seed() int64 {
	n, _ := strconv.ParseInt(os.Getenv("VERIF_SEED"), 10, 64)
	return n
}

// Deadline returns the internal deadline of this run: budgets end with exhaustive:false, never
// with an alarm.
func Deadline() time.Time {
	d := 150 * time.Second
	if Thorough() {
		d = 25 * time.Minute
	}
	if s := os.Getenv("VERIF_BUDGET_S"); s != "" {
		if n, err := strconv.Atoi(s); err == nil {
			d = time.Duration(n) * time.Second
		}
	}
	return time.Now().Add(d)
}

// ReplayPath is non-empty when the runner asks the harness to re-execute one recorded case.
func ReplayPath() string { return os.Getenv("VERIF_REPLAY") }
